#!/bin/sh
# run every registered check once (tier from $1, default quick) on the real tree; print one line each
cd "$(dirname "$0")/.." || exit 2
T="${1:-quick}"
for p in $(python3 -c "import json;print(' '.join(c['property_id'] for c in json.load(open('MANIFEST.json'))['checks']))"); do
  ./vcheck "$p" --tier "$T" 2>&1 | grep -E "^(OK |VIOLATION|INFRA|BROKEN)" | cut -c1-200
done
