#!/bin/sh
# tools/seed_eval.sh Cxx [PROP...]: validate an independently seeded change (/tmp/seed/out/Cxx) and run our checks on it
# 1. the patch applies to a fresh scratch checkout, the repo's tests give the baseline result,
# 2. demo.py exits 0 without and 1 with the change, 3. ./vcheck for the given properties (default: Cxx).
P="$1"; shift
PROPS="${*:-$P}"
OUT=/tmp/seed/out/$P
D=/tmp/rw/seedeval-$P-$$
mkdir -p /tmp/rw
git -C /repo worktree add -q "$D" HEAD || exit 2
echo "== $P: demo on the unchanged tree"
( cd "$D" && PYTHONPATH="$D/src" timeout 300 /venv/bin/python "$OUT/demo.py" >/tmp/rw/demo0.log 2>&1; echo "   exit $?" )
( cd "$D" && git apply "$OUT/patch.diff" ) || { echo "patch does not apply"; git -C /repo worktree remove --force "$D"; exit 2; }
echo "== $P: repo tests with the change: $(cd "$D" && PYTHONPATH="$D/src" timeout 900 /venv/bin/python -m pytest -q -p no:cacheprovider 2>&1 | tail -1)"
echo "== $P: demo with the change"
( cd "$D" && PYTHONPATH="$D/src" timeout 300 /venv/bin/python "$OUT/demo.py" >/tmp/rw/demo1.log 2>&1; echo "   exit $?"; tail -3 /tmp/rw/demo1.log | cut -c1-300 )
for q in $PROPS; do
  echo "== $P: ./vcheck $q against the change"
  ( cd /verif && CLIKIT_REPO="$D" ./vcheck "$q" 2>&1 | grep -E "^(VIOLATION|OK |INFRA|BROKEN|KNOWN)" | cut -c1-300; )
done
git -C /repo worktree remove --force "$D"
( cd /verif && python3 tools/gen_lean.py >/dev/null )
