#!/bin/sh
# Re-run every stored seeded change (seeded/<id>/patch.diff) against the check(s) that must catch it.
# usage: tools/seed_regress.sh [seed-dir-name ...]      (default: all)     output: one line per seed
cd "$(dirname "$0")/.."
ROOTV=$(pwd)
mkdir -p /tmp/rw
SEEDS="${*:-$(ls seeded | sort)}"
for s in $SEEDS; do
  d="$ROOTV/seeded/$s"
  [ -f "$d/patch.diff" ] || continue
  props=$(python3 -c "import json,sys; m=json.load(open('$d/meta.json')); print(' '.join(m.get('caught_by', [m['property']])))")
  W=/tmp/rw/regress-$s-$$
  git -C /repo worktree add -q "$W" HEAD || { echo "$s: cannot create worktree"; continue; }
  if ! (cd "$W" && git apply "$d/patch.diff" 2>/dev/null); then
    echo "$s: patch no longer applies to /repo HEAD (the code it changes was repaired or rewritten since)"
    git -C /repo worktree remove --force "$W"; continue
  fi
  res=""
  for q in $props; do
    line=$(CLIKIT_REPO="$W" ./vcheck "$q" 2>&1 | grep -E "^(VIOLATION|OK |INFRA)" | head -1 | cut -c1-110)
    res="$res [$q: $line]"
  done
  echo "$s:$res"
  git -C /repo worktree remove --force "$W"
done
python3 tools/gen_lean.py >/dev/null
