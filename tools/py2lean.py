"""
A small Python -> Lean 4 translator for the *decision-logic subset* of clikit.

It turns straight-line functions made of `if` / `return` / `raise` / local assignments
over integer flag words, Booleans and `None` tests into total Lean definitions, using only
`ast` (the source is parsed, never imported).  Anything outside the supported subset
raises `Untranslatable` with the source location: the caller reports that as a broken tie
between model and code (never silently skipped).

Types tracked for expressions: 'nat' (Python int used as a non-negative flag word / level),
'bool', 'optnat' (int or None), 'optstr' (str or None; only `is None` and truthiness are
available).  Python truthiness is spelled out at each use: an int is truthy iff `!= 0`,
an optional string iff it is `some s` with `s != ""`.
"""
import ast


class Untranslatable(Exception):
    pass


def _loc(node, fname):
    return "%s:%s" % (fname, getattr(node, "lineno", "?"))


class FnSpec(object):
    """How one Python function is to be translated."""

    def __init__(self, lean_name, params, ret, self_attrs=None, calls=None, doc=""):
        # params: list of (python name, lean name, type)
        # ret: 'bool' | 'nat' | 'except_unit' | 'except_nat'
        # self_attrs: python attribute name -> (lean expr, type)   (self._x reads)
        # calls: python method name -> (lean function, [extra leading lean args], ret kind)
        self.lean_name = lean_name
        self.params = params
        self.ret = ret
        self.self_attrs = self_attrs or {}
        self.calls = calls or {}
        self.doc = doc


class Translator(object):
    def __init__(self, fname, consts, spec):
        self.fname = fname
        self.consts = consts  # python name -> lean constant name (type nat)
        self.spec = spec
        self.fresh = 0

    # ------------------------------------------------------------------ expressions
    def fail(self, node, why):
        raise Untranslatable("%s: %s (%s)" % (_loc(node, self.fname), why, ast.dump(node)[:120]))

    def expr(self, e, env):
        """returns (lean text, type)"""
        if isinstance(e, ast.Constant):
            if e.value is None:
                return ("none", "none")
            if isinstance(e.value, bool):
                return ("true" if e.value else "false", "bool")
            if isinstance(e.value, int) and e.value >= 0:
                return (str(e.value), "nat")
            self.fail(e, "constant")
        if isinstance(e, ast.Name):
            if e.id in env:
                return env[e.id]
            if e.id in self.consts:
                return (self.consts[e.id], "nat")
            self.fail(e, "unknown name")
        if isinstance(e, ast.Attribute) and isinstance(e.value, ast.Name) and e.value.id in ("self", "cls"):
            if e.attr in self.consts:
                return (self.consts[e.attr], "nat")
            if e.attr in self.spec.self_attrs:
                return self.spec.self_attrs[e.attr]
            self.fail(e, "unknown attribute")
        if isinstance(e, ast.BinOp):
            a, ta = self.expr(e.left, env)
            b, tb = self.expr(e.right, env)
            if ta != "nat" or tb != "nat":
                self.fail(e, "binary operator on non-int")
            op = {ast.BitAnd: "&&&", ast.BitOr: "|||", ast.Add: "+", ast.Mult: "*"}.get(type(e.op))
            if op is None:
                self.fail(e, "operator")
            return ("(%s %s %s)" % (a, op, b), "nat")
        if isinstance(e, ast.BoolOp):
            parts = [self.truthy(v, env) for v in e.values]
            op = " && " if isinstance(e.op, ast.And) else " || "
            return ("(" + op.join(parts) + ")", "bool")
        if isinstance(e, ast.UnaryOp) and isinstance(e.op, ast.Not):
            return ("(!" + self.truthy(e.operand, env) + ")", "bool")
        if isinstance(e, ast.Compare) and len(e.ops) == 1:
            op = e.ops[0]
            a, ta = self.expr(e.left, env)
            b, tb = self.expr(e.comparators[0], env)
            if isinstance(op, (ast.Is, ast.IsNot)):
                if tb != "none" or ta not in ("optnat", "optstr"):
                    self.fail(e, "`is` only against None on optional values")
                t = "(%s).isNone" % a
                return (t if isinstance(op, ast.Is) else "(!%s)" % t, "bool")
            if ta == "nat" and tb == "nat":
                sym = {ast.GtE: "≥", ast.Gt: ">", ast.LtE: "≤", ast.Lt: "<", ast.Eq: "=", ast.NotEq: "≠"}.get(type(op))
                if sym is None:
                    self.fail(e, "comparison")
                return ("decide (%s %s %s)" % (a, sym, b), "bool")
            self.fail(e, "comparison types %s/%s" % (ta, tb))
        if isinstance(e, ast.IfExp):
            c = self.truthy(e.test, env)
            a, ta = self.expr(e.body, env)
            b, tb = self.expr(e.orelse, env)
            if ta != tb:
                self.fail(e, "conditional expression of two types")
            return ("(if %s then %s else %s)" % (c, a, b), ta)
        if isinstance(e, ast.Call):
            if isinstance(e.func, ast.Name) and e.func.id == "bool" and len(e.args) == 1:
                return (self.truthy(e.args[0], env), "bool")
            name = self.callee(e)
            if name is not None and name in self.spec.calls:
                fn, extra, kind = self.spec.calls[name]
                args = [self.expr(a, env)[0] for a in e.args]
                return ("(%s)" % " ".join([fn] + extra + args), kind)
            self.fail(e, "call")
        self.fail(e, "expression")

    def callee(self, e):
        f = e.func
        if isinstance(f, ast.Attribute):
            v = f.value
            if isinstance(v, ast.Name) and v.id in ("self", "cls"):
                return f.attr
            if isinstance(v, ast.Call) and isinstance(v.func, ast.Name) and v.func.id == "super":
                return "super." + f.attr
        return None

    def truthy(self, e, env):
        t, ty = self.expr(e, env)
        if ty == "bool":
            return t
        if ty == "nat":
            return "(%s != 0)" % t
        if ty == "optstr":
            return "(match %s with | some s => s != [] | none => false)" % t
        if ty == "optnat":
            return "(match %s with | some v => v != 0 | none => false)" % t
        self.fail(e, "truthiness of %s" % ty)

    # ------------------------------------------------------------------ statements
    def always_exits(self, stmts):
        if not stmts:
            return False
        s = stmts[-1]
        if isinstance(s, (ast.Return, ast.Raise)):
            return True
        if isinstance(s, ast.If):
            return self.always_exits(s.body) and self.always_exits(s.orelse)
        return False

    def fallthrough(self):
        r = self.spec.ret
        if r == "except_unit":
            return "Except.ok ()"
        raise Untranslatable("%s: function %s can fall off its end" % (self.fname, self.spec.lean_name))

    def ret(self, text):
        return "Except.ok %s" % text if self.spec.ret.startswith("except") else text

    def block(self, stmts, env, ind):
        """translate stmts (followed by nothing) into a Lean term, as indented lines"""
        pad = "  " * ind
        if not stmts:
            return [pad + self.fallthrough()]
        s, rest = stmts[0], stmts[1:]
        if isinstance(s, ast.Expr) and isinstance(s.value, ast.Constant) and isinstance(s.value.value, str):
            return self.block(rest, env, ind)  # docstring
        if isinstance(s, ast.Return):
            if s.value is None:
                return [pad + self.fallthrough()]
            t, ty = self.expr(s.value, env)
            want = {"bool": "bool", "nat": "nat", "except_nat": "nat"}.get(self.spec.ret)
            if want == "bool" and ty != "bool":
                self.fail(s, "returns %s where bool is expected" % ty)
            if want == "nat" and ty != "nat":
                self.fail(s, "returns %s where int is expected" % ty)
            return [pad + self.ret(t)]
        if isinstance(s, ast.Raise):
            if not self.spec.ret.startswith("except"):
                self.fail(s, "raise in a function translated as total")
            exc = s.exc
            name = exc.func.id if isinstance(exc, ast.Call) and isinstance(exc.func, ast.Name) else (
                exc.id if isinstance(exc, ast.Name) else None)
            if name is None:
                self.fail(s, "raise of a non-name")
            return [pad + 'Except.error "%s"' % name]
        if isinstance(s, (ast.Assign, ast.AugAssign)):
            tgt = s.targets[0] if isinstance(s, ast.Assign) else s.target
            if not isinstance(tgt, ast.Name) or (isinstance(s, ast.Assign) and len(s.targets) != 1):
                self.fail(s, "assignment target")
            if isinstance(s, ast.AugAssign):
                value = ast.BinOp(left=ast.Name(id=tgt.id, ctx=ast.Load()), op=s.op, right=s.value)
                ast.copy_location(value, s)
            else:
                value = s.value
            t, ty = self.expr(value, env)
            new, env2 = self.bind(tgt.id, ty, env)
            return [pad + "let %s := %s" % (new, t)] + self.block(rest, env2, ind)
        if isinstance(s, ast.Expr) and isinstance(s.value, ast.Call):
            name = self.callee(s.value)
            if name in self.spec.calls and self.spec.calls[name][2] == "except_unit":
                t, _ = self.expr(s.value, env)
                return ([pad + "match %s with" % t, pad + "| Except.error e => Except.error e",
                         pad + "| Except.ok _ =>"] + self.block(rest, env, ind + 1))
            self.fail(s, "expression statement")
        if isinstance(s, ast.If):
            # `if x is None: x = e` on an optional int: x becomes an int afterwards
            if (not s.orelse and len(s.body) == 1 and isinstance(s.body[0], ast.Assign)
                    and isinstance(s.test, ast.Compare) and isinstance(s.test.ops[0], ast.Is)
                    and isinstance(s.test.left, ast.Name)
                    and isinstance(s.body[0].targets[0], ast.Name)
                    and s.body[0].targets[0].id == s.test.left.id
                    and env.get(s.test.left.id, ("", ""))[1] == "optnat"):
                x = s.test.left.id
                t, ty = self.expr(s.body[0].value, env)
                if ty != "nat":
                    self.fail(s, "None default of another type")
                new, env2 = self.bind(x, "nat", env)
                return ([pad + "let %s : Nat := match %s with | none => %s | some v => v" % (new, env[x][0], t)]
                        + self.block(rest, env2, ind))
            c = self.truthy(s.test, env)
            # pure conditional update of one local:  if c: x = e   /  x |= e
            if (not s.orelse and len(s.body) == 1 and isinstance(s.body[0], (ast.Assign, ast.AugAssign))):
                b = s.body[0]
                tgt = b.targets[0] if isinstance(b, ast.Assign) else b.target
                if isinstance(tgt, ast.Name) and tgt.id in env:
                    if isinstance(b, ast.AugAssign):
                        value = ast.BinOp(left=ast.Name(id=tgt.id, ctx=ast.Load()), op=b.op, right=b.value)
                        ast.copy_location(value, b)
                    else:
                        value = b.value
                    t, ty = self.expr(value, env)
                    if ty == env[tgt.id][1]:
                        new, env2 = self.bind(tgt.id, ty, env)
                        return ([pad + "let %s := if %s then %s else %s" % (new, c, t, env[tgt.id][0])]
                                + self.block(rest, env2, ind))
            # general case: each branch continues with the rest of the function
            then_ = self.block(s.body + ([] if self.always_exits(s.body) else rest), env, ind + 1)
            else_ = self.block(s.orelse + ([] if (s.orelse and self.always_exits(s.orelse)) else rest), env, ind + 1)
            return [pad + "if %s then" % c] + then_ + [pad + "else"] + else_
        self.fail(s, "statement")

    def bind(self, pyname, ty, env):
        self.fresh += 1
        new = "%s_%d" % (pyname, self.fresh)
        env2 = dict(env)
        env2[pyname] = (new, ty)
        return new, env2

    # ------------------------------------------------------------------ entry
    def function(self, fn):
        spec = self.spec
        env = {}
        sig = []
        leantype = {"nat": "Nat", "bool": "Bool", "optnat": "Option Nat", "optstr": "Option (List Char)"}
        for py, lean, ty in spec.params:
            env[py] = (lean, ty)
            sig.append("(%s : %s)" % (lean, leantype[ty]))
        rett = {"bool": "Bool", "nat": "Nat", "except_unit": "Except String Unit",
                "except_nat": "Except String Nat"}[spec.ret]
        body = self.block(fn.body, env, 1)
        head = "def %s %s : %s :=" % (spec.lean_name, " ".join(sig), rett)
        doc = "/-- %s -/\n" % spec.doc if spec.doc else ""
        return doc + head + "\n" + "\n".join(body) + "\n"


def find_function(tree, cls, name, fname):
    for node in tree.body:
        if cls is None and isinstance(node, ast.FunctionDef) and node.name == name:
            return node
        if isinstance(node, ast.ClassDef) and node.name == cls:
            for n in node.body:
                if isinstance(n, ast.FunctionDef) and n.name == name:
                    return n
    raise Untranslatable("%s: function %s.%s not found" % (fname, cls, name))


def class_int_consts(tree, cls, fname):
    out = {}
    for node in tree.body:
        if isinstance(node, ast.ClassDef) and node.name == cls:
            for n in node.body:
                if (isinstance(n, ast.Assign) and len(n.targets) == 1 and isinstance(n.targets[0], ast.Name)
                        and isinstance(n.value, ast.Constant) and isinstance(n.value.value, int)
                        and not isinstance(n.value.value, bool)):
                    out[n.targets[0].id] = n.value.value
            return out
    raise Untranslatable("%s: class %s not found" % (fname, cls))


def module_int_consts(tree):
    out = {}
    for n in tree.body:
        if (isinstance(n, ast.Assign) and len(n.targets) == 1 and isinstance(n.targets[0], ast.Name)
                and isinstance(n.value, ast.Constant) and isinstance(n.value.value, int)
                and not isinstance(n.value.value, bool)):
            out[n.targets[0].id] = n.value.value
    return out
