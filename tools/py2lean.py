"""
A small Python -> Lean 4 translator for the *decision-logic subset* of clikit.

It turns straight-line functions made of `if` / `return` / `raise` / local assignments
over integer flag words, Booleans and `None` tests into total Lean definitions, using only
`ast` (the source is parsed, never imported).  Anything outside the supported subset
raises `Untranslatable` with the source location: the caller reports that as a broken tie
between model and code (never silently skipped).

Types tracked for expressions: 'nat' (Python int used as a non-negative flag word / level),
'bool', 'optnat' (int or None), 'optstr' (str or None; only `is None` and truthiness are
available).  Python truthiness is spelled out at each use: an int is truthy iff `!= 0`,
an optional string iff it is `some s` with `s != ""`.
"""
import ast


class Untranslatable(Exception):
    pass


def _loc(node, fname):
    return "%s:%s" % (fname, getattr(node, "lineno", "?"))


class FnSpec(object):
    """How one Python function is to be translated."""

    def __init__(self, lean_name, params, ret, self_attrs=None, calls=None, doc=""):
        # params: list of (python name, lean name, type)
        # ret: 'bool' | 'nat' | 'except_unit' | 'except_nat'
        # self_attrs: python attribute name -> (lean expr, type)   (self._x reads)
        # calls: python method name -> (lean function, [extra leading lean args], ret kind)
        self.lean_name = lean_name
        self.params = params
        self.ret = ret
        self.self_attrs = self_attrs or {}
        self.calls = calls or {}
        self.doc = doc


class Translator(object):
    def __init__(self, fname, consts, spec, cls=None):
        self.fname = fname
        self.consts = consts  # python name -> lean constant name (type nat)
        self.spec = spec
        self.fresh = 0
        self.cls = cls  # name of the class whose method is translated (for `super(<cls>, self)`)
        # called with (name, node) when a BARE name is resolved through `consts` (a module global of the file read):
        # the caller says where such a name must come from; by default a bare constant name is not accepted
        self.bare_const = None

    # ------------------------------------------------------------------ expressions
    def fail(self, node, why):
        raise Untranslatable("%s: %s (%s)" % (_loc(node, self.fname), why, ast.dump(node)[:120]))

    def expr(self, e, env):
        """returns (lean text, type)"""
        if isinstance(e, ast.Constant):
            if e.value is None:
                return ("none", "none")
            if isinstance(e.value, bool):
                return ("true" if e.value else "false", "bool")
            if isinstance(e.value, int) and e.value >= 0:
                return (str(e.value), "nat")
            self.fail(e, "constant")
        if isinstance(e, ast.Name):
            if e.id in env:
                return env[e.id]
            if e.id in self.consts:
                if self.bare_const is None:
                    self.fail(e, "constant used as a bare name")
                self.bare_const(e.id, e)
                return (self.consts[e.id], "nat")
            self.fail(e, "unknown name")
        if isinstance(e, ast.Attribute) and isinstance(e.value, ast.Name) and e.value.id in ("self", "cls"):
            if e.attr in self.consts:
                return (self.consts[e.attr], "nat")
            if e.attr in self.spec.self_attrs:
                return self.spec.self_attrs[e.attr]
            self.fail(e, "unknown attribute")
        if isinstance(e, ast.BinOp):
            a, ta = self.expr(e.left, env)
            b, tb = self.expr(e.right, env)
            if ta != "nat" or tb != "nat":
                self.fail(e, "binary operator on non-int")
            op = {ast.BitAnd: "&&&", ast.BitOr: "|||", ast.Add: "+", ast.Mult: "*"}.get(type(e.op))
            if op is None:
                self.fail(e, "operator")
            return ("(%s %s %s)" % (a, op, b), "nat")
        if isinstance(e, ast.BoolOp):
            parts = [self.truthy(v, env) for v in e.values]
            op = " && " if isinstance(e.op, ast.And) else " || "
            return ("(" + op.join(parts) + ")", "bool")
        if isinstance(e, ast.UnaryOp) and isinstance(e.op, ast.Not):
            return ("(!" + self.truthy(e.operand, env) + ")", "bool")
        if isinstance(e, ast.Compare) and len(e.ops) == 1:
            op = e.ops[0]
            a, ta = self.expr(e.left, env)
            b, tb = self.expr(e.comparators[0], env)
            if isinstance(op, (ast.Is, ast.IsNot)):
                if tb != "none" or ta not in ("optnat", "optstr"):
                    self.fail(e, "`is` only against None on optional values")
                t = "(%s).isNone" % a
                return (t if isinstance(op, ast.Is) else "(!%s)" % t, "bool")
            if ta == "nat" and tb == "nat":
                sym = {ast.GtE: "≥", ast.Gt: ">", ast.LtE: "≤", ast.Lt: "<", ast.Eq: "=", ast.NotEq: "≠"}.get(type(op))
                if sym is None:
                    self.fail(e, "comparison")
                return ("decide (%s %s %s)" % (a, sym, b), "bool")
            self.fail(e, "comparison types %s/%s" % (ta, tb))
        if isinstance(e, ast.IfExp):
            c = self.truthy(e.test, env)
            a, ta = self.expr(e.body, env)
            b, tb = self.expr(e.orelse, env)
            if ta != tb:
                self.fail(e, "conditional expression of two types")
            return ("(if %s then %s else %s)" % (c, a, b), ta)
        if isinstance(e, ast.Call):
            if isinstance(e.func, ast.Name) and e.func.id == "bool" and len(e.args) == 1:
                return (self.truthy(e.args[0], env), "bool")
            name = self.callee(e)
            if name is not None and name in self.spec.calls:
                if e.keywords or any(isinstance(a, ast.Starred) for a in e.args):
                    self.fail(e, "call with keyword or starred arguments")
                fn, extra, kind = self.spec.calls[name]
                args = [self.expr(a, env)[0] for a in e.args]
                return ("(%s)" % " ".join([fn] + extra + args), kind)
            self.fail(e, "call")
        self.fail(e, "expression")

    def callee(self, e):
        f = e.func
        if isinstance(f, ast.Attribute):
            v = f.value
            if isinstance(v, ast.Name) and v.id in ("self", "cls"):
                return f.attr
            if isinstance(v, ast.Call) and isinstance(v.func, ast.Name) and v.func.id == "super":
                # super() or super(<this class>, self): any other form starts the lookup somewhere else
                plain = not v.args and not v.keywords
                two = (len(v.args) == 2 and not v.keywords and all(isinstance(a, ast.Name) for a in v.args)
                       and v.args[1].id == "self" and (self.cls is None or v.args[0].id == self.cls))
                if not (plain or two):
                    self.fail(e, "super(...) with unexpected arguments")
                return "super." + f.attr
        return None

    def truthy(self, e, env):
        t, ty = self.expr(e, env)
        if ty == "bool":
            return t
        if ty == "nat":
            return "(%s != 0)" % t
        if ty == "optstr":
            return "(match %s with | some s => s != [] | none => false)" % t
        if ty == "optnat":
            return "(match %s with | some v => v != 0 | none => false)" % t
        self.fail(e, "truthiness of %s" % ty)

    # ------------------------------------------------------------------ statements
    def always_exits(self, stmts):
        if not stmts:
            return False
        s = stmts[-1]
        if isinstance(s, (ast.Return, ast.Raise)):
            return True
        if isinstance(s, ast.If):
            return self.always_exits(s.body) and self.always_exits(s.orelse)
        return False

    def fallthrough(self):
        r = self.spec.ret
        if r == "except_unit":
            return "Except.ok ()"
        raise Untranslatable("%s: function %s can fall off its end" % (self.fname, self.spec.lean_name))

    def ret(self, text):
        return "Except.ok %s" % text if self.spec.ret.startswith("except") else text

    def block(self, stmts, env, ind):
        """translate stmts (followed by nothing) into a Lean term, as indented lines"""
        pad = "  " * ind
        if not stmts:
            return [pad + self.fallthrough()]
        s, rest = stmts[0], stmts[1:]
        if isinstance(s, ast.Expr) and isinstance(s.value, ast.Constant) and isinstance(s.value.value, str):
            return self.block(rest, env, ind)  # docstring
        if isinstance(s, ast.Return):
            if s.value is None:
                return [pad + self.fallthrough()]
            t, ty = self.expr(s.value, env)
            want = {"bool": "bool", "nat": "nat", "except_nat": "nat"}.get(self.spec.ret)
            if want == "bool" and ty != "bool":
                self.fail(s, "returns %s where bool is expected" % ty)
            if want == "nat" and ty != "nat":
                self.fail(s, "returns %s where int is expected" % ty)
            return [pad + self.ret(t)]
        if isinstance(s, ast.Raise):
            if not self.spec.ret.startswith("except"):
                self.fail(s, "raise in a function translated as total")
            exc = s.exc
            name = exc.func.id if isinstance(exc, ast.Call) and isinstance(exc.func, ast.Name) else (
                exc.id if isinstance(exc, ast.Name) else None)
            if name is None:
                self.fail(s, "raise of a non-name")
            return [pad + 'Except.error "%s"' % name]
        if isinstance(s, (ast.Assign, ast.AugAssign)):
            tgt = s.targets[0] if isinstance(s, ast.Assign) else s.target
            if not isinstance(tgt, ast.Name) or (isinstance(s, ast.Assign) and len(s.targets) != 1):
                self.fail(s, "assignment target")
            if isinstance(s, ast.AugAssign):
                value = ast.BinOp(left=ast.Name(id=tgt.id, ctx=ast.Load()), op=s.op, right=s.value)
                ast.copy_location(value, s)
            else:
                value = s.value
            t, ty = self.expr(value, env)
            new, env2 = self.bind(tgt.id, ty, env)
            return [pad + "let %s := %s" % (new, t)] + self.block(rest, env2, ind)
        if isinstance(s, ast.Expr) and isinstance(s.value, ast.Call):
            name = self.callee(s.value)
            if name in self.spec.calls and self.spec.calls[name][2] == "except_unit":
                t, _ = self.expr(s.value, env)
                return ([pad + "match %s with" % t, pad + "| Except.error e => Except.error e",
                         pad + "| Except.ok _ =>"] + self.block(rest, env, ind + 1))
            self.fail(s, "expression statement")
        if isinstance(s, ast.If):
            # `if x is None: x = e` on an optional int: x becomes an int afterwards
            if (not s.orelse and len(s.body) == 1 and isinstance(s.body[0], ast.Assign)
                    and isinstance(s.test, ast.Compare) and len(s.test.ops) == 1 and isinstance(s.test.ops[0], ast.Is)
                    and isinstance(s.test.comparators[0], ast.Constant) and s.test.comparators[0].value is None
                    and isinstance(s.test.left, ast.Name)
                    and len(s.body[0].targets) == 1 and isinstance(s.body[0].targets[0], ast.Name)
                    and s.body[0].targets[0].id == s.test.left.id
                    and env.get(s.test.left.id, ("", ""))[1] == "optnat"):
                x = s.test.left.id
                t, ty = self.expr(s.body[0].value, env)
                if ty != "nat":
                    self.fail(s, "None default of another type")
                new, env2 = self.bind(x, "nat", env)
                return ([pad + "let %s : Nat := match %s with | none => %s | some v => v" % (new, env[x][0], t)]
                        + self.block(rest, env2, ind))
            c = self.truthy(s.test, env)
            # pure conditional update of one local:  if c: x = e   /  x |= e
            if (not s.orelse and len(s.body) == 1 and isinstance(s.body[0], (ast.Assign, ast.AugAssign))):
                b = s.body[0]
                tgt = b.targets[0] if isinstance(b, ast.Assign) else b.target
                if isinstance(tgt, ast.Name) and tgt.id in env:
                    if isinstance(b, ast.AugAssign):
                        value = ast.BinOp(left=ast.Name(id=tgt.id, ctx=ast.Load()), op=b.op, right=b.value)
                        ast.copy_location(value, b)
                    else:
                        value = b.value
                    t, ty = self.expr(value, env)
                    if ty == env[tgt.id][1]:
                        new, env2 = self.bind(tgt.id, ty, env)
                        return ([pad + "let %s := if %s then %s else %s" % (new, c, t, env[tgt.id][0])]
                                + self.block(rest, env2, ind))
            # general case: each branch continues with the rest of the function
            then_ = self.block(s.body + ([] if self.always_exits(s.body) else rest), env, ind + 1)
            else_ = self.block(s.orelse + ([] if (s.orelse and self.always_exits(s.orelse)) else rest), env, ind + 1)
            return [pad + "if %s then" % c] + then_ + [pad + "else"] + else_
        self.fail(s, "statement")

    def bind(self, pyname, ty, env):
        self.fresh += 1
        new = "%s_%d" % (pyname, self.fresh)
        env2 = dict(env)
        env2[pyname] = (new, ty)
        return new, env2

    # ------------------------------------------------------------------ entry
    def function(self, fn):
        spec = self.spec
        env = {}
        sig = []
        leantype = {"nat": "Nat", "bool": "Bool", "optnat": "Option Nat", "optstr": "Option (List Char)"}
        a = fn.args
        if a.vararg or a.kwarg or a.kwonlyargs or a.posonlyargs:
            raise Untranslatable("%s:%d: %s: parameters outside the translated subset" % (self.fname, fn.lineno, spec.lean_name))
        have = [x.arg for x in a.args]
        if not have or have[0] not in ("self", "cls") or len(set(have)) != len(have):
            raise Untranslatable("%s:%d: %s: not a method" % (self.fname, fn.lineno, spec.lean_name))
        for py, lean, ty in spec.params:
            if py not in have[1:]:
                raise Untranslatable("%s:%d: %s: parameter `%s` not found" % (self.fname, fn.lineno, spec.lean_name, py))
            env[py] = (lean, ty)
            sig.append("(%s : %s)" % (lean, leantype[ty]))
        rett = {"bool": "Bool", "nat": "Nat", "except_unit": "Except String Unit",
                "except_nat": "Except String Nat"}[spec.ret]
        body = self.block(fn.body, env, 1)
        head = "def %s %s : %s :=" % (spec.lean_name, " ".join(sig), rett)
        doc = "/-- %s -/\n" % spec.doc if spec.doc else ""
        return doc + head + "\n" + "\n".join(body) + "\n"


# ---------------------------------------------------------------------------------------------
# Strict reading helpers shared by gen_lean.py and the plug-ins under genparts/.
#
# Contract of every reader: what it emits is what the code says, or it raises Untranslatable (the part is
# then filled from tools/gen_frozen and the correspondence run carries the tie).  A reader must therefore
# account for EVERY statement of what it reads: statements it skips must be provably irrelevant (they do
# not mention the objects concerned), all others must have exactly the expected shape.
# ---------------------------------------------------------------------------------------------

PLAIN_DECORATORS = ("property", "staticmethod", "classmethod")


def is_doc(st):
    return isinstance(st, ast.Expr) and isinstance(st.value, ast.Constant) and isinstance(st.value.value, str)


def strip_doc(stmts):
    """the statements without docstrings / bare string expressions (they do nothing)"""
    return [st for st in stmts if not is_doc(st)]


def find_class(tree, cls, fname):
    """the one class of that name at module level (a second definition or a rebinding would win at run time)"""
    found = [n for n in tree.body if isinstance(n, ast.ClassDef) and n.name == cls]
    if not found:
        raise Untranslatable("%s: class %s not found" % (fname, cls))
    if len(found) > 1 or _other_bindings(tree.body, cls, found[0]):
        raise Untranslatable("%s:%d: class %s is bound more than once in the module" % (fname, found[-1].lineno, cls))
    return found[0]


def _other_bindings(body, name, the_one):
    """is `name` bound in this body (at any nesting depth that shares the scope) by anything but `the_one`?"""
    def scope_nodes(stmts):
        for st in stmts:
            if st is the_one:
                continue
            yield st
            if isinstance(st, (ast.FunctionDef, ast.AsyncFunctionDef, ast.ClassDef, ast.Lambda)):
                continue  # the name itself binds; the body is another scope
            for child in ast.iter_child_nodes(st):
                for n in scope_nodes([child]):
                    yield n
    for n in scope_nodes(body):
        if isinstance(n, (ast.FunctionDef, ast.AsyncFunctionDef, ast.ClassDef)) and n.name == name:
            return True
        if isinstance(n, ast.Name) and n.id == name and isinstance(n.ctx, (ast.Store, ast.Del)):
            return True
        if isinstance(n, ast.alias) and (n.asname or n.name.split(".")[0]) == name:
            return True
        if isinstance(n, ast.alias) and n.name == "*":
            return True
        if isinstance(n, ast.ExceptHandler) and n.name == name:
            return True
    return False


def find_function(tree, cls, name, fname, decorators=PLAIN_DECORATORS):
    """The one definition of `cls.name` (or of the module-level function `name` when cls is None).
    Strict: the name is bound exactly once in the class body (Python takes the LAST binding; a second
    `def`, an assignment `name = wrap(name)` or a conditional redefinition would make what is read here
    not what runs), and the decorators are among `decorators` (a caching or wrapping decorator changes
    what a call does without changing the body)."""
    if cls is None:
        body, where = tree.body, name
    else:
        body, where = find_class(tree, cls, fname).body, "%s.%s" % (cls, name)
    found = [n for n in body if isinstance(n, ast.FunctionDef) and n.name == name]
    if not found:
        raise Untranslatable("%s: function %s not found" % (fname, where))
    if len(found) > 1 or _other_bindings(body, name, found[0]):
        raise Untranslatable("%s:%d: %s is bound more than once (the last binding wins at run time)"
                             % (fname, found[-1].lineno, where))
    for d in found[0].decorator_list:
        if not (isinstance(d, ast.Name) and d.id in decorators):
            raise Untranslatable("%s:%d: %s is wrapped by the decorator `%s`, whose effect is not read"
                                 % (fname, d.lineno, where, ast.unparse(d)))
    return found[0]


def check_bases(tree, cls, bases, fname):
    """the class has exactly these base classes (`object` aside), no metaclass or other class keywords, no decorators"""
    node = find_class(tree, cls, fname)
    got = [ast.unparse(b) for b in node.bases if ast.unparse(b) != "object"]
    if got != list(bases) or node.keywords or node.decorator_list:
        raise Untranslatable("%s:%d: class %s(%s) expected, found bases %s%s"
                             % (fname, node.lineno, cls, ", ".join(bases) or "object", got,
                                " with class keywords/decorators" if node.keywords or node.decorator_list else ""))
    return node


def _int_expr(e, env):
    """value of an integer expression made of literals, names already read in the same scope and `<< | & + * **`
    (`FLOAT = 1 << 10`, `ALL = A | B`), else None"""
    if isinstance(e, ast.Constant) and isinstance(e.value, int) and not isinstance(e.value, bool):
        return e.value
    if isinstance(e, ast.Name) and isinstance(env.get(e.id), int) and not isinstance(env.get(e.id), bool):
        return env[e.id]
    if isinstance(e, ast.BinOp):
        a, b = _int_expr(e.left, env), _int_expr(e.right, env)
        if a is None or b is None or a < 0 or b < 0:
            return None
        if isinstance(e.op, ast.LShift) and b <= 64:
            return a << b
        if isinstance(e.op, ast.Pow) and b <= 64 and a <= 64:
            return a ** b
        if isinstance(e.op, (ast.BitOr, ast.BitAnd, ast.Add, ast.Mult)):
            return {ast.BitOr: a | b, ast.BitAnd: a & b, ast.Add: a + b, ast.Mult: a * b}[type(e.op)]
    return None


def _literal_bindings(body, fname, what, kinds):
    """name -> literal for the names bound in this scope by one plain `NAME = <literal>` and by nothing else; for integers
    the right-hand side may also be a constant integer expression over names read before (see _int_expr)"""
    out, seen = {}, {}
    for st in body:
        if (isinstance(st, ast.Assign) and len(st.targets) == 1 and isinstance(st.targets[0], ast.Name)):
            seen.setdefault(st.targets[0].id, []).append(st)
    for st in body:
        if not (isinstance(st, ast.Assign) and len(st.targets) == 1 and isinstance(st.targets[0], ast.Name)):
            continue
        name = st.targets[0].id
        if len(seen[name]) != 1 or _other_bindings(body, name, st):
            continue
        if (isinstance(st.value, ast.Constant) and isinstance(st.value.value, kinds)
                and (bool in kinds or not isinstance(st.value.value, bool))):
            out[name] = st.value.value
        elif int in kinds and not isinstance(st.value, ast.Constant):
            v = _int_expr(st.value, out)
            if v is not None:
                out[name] = v
    return out


def _attr_stores(tree, names):
    """attribute names in `names` that are assigned / deleted through an attribute (`X.NAME = ...`), or named in a
    string handed to setattr/delattr, anywhere in the module"""
    hit = set()
    for n in ast.walk(tree):
        if isinstance(n, ast.Attribute) and n.attr in names and isinstance(n.ctx, (ast.Store, ast.Del)):
            hit.add(n.attr)
        if (isinstance(n, ast.Call) and isinstance(n.func, ast.Name) and n.func.id in ("setattr", "delattr")
                and len(n.args) >= 2 and isinstance(n.args[1], ast.Constant) and n.args[1].value in names):
            hit.add(n.args[1].value)
    return hit


def class_int_consts(tree, cls, fname):
    """`NAME = <int>` class attributes.  Strict: a name is reported only if that assignment is its single binding in
    the class body and no `X.NAME = ...` occurs in the module (a later `NAME = NAME << 1`, `NAME |= 2`, a conditional
    redefinition or a patch after the class statement would make the literal a half-read); otherwise the name is
    left out, and whoever needs it raises `constant not found`."""
    node = find_class(tree, cls, fname)
    out = _literal_bindings(node.body, fname, cls, (int,))
    for name in _attr_stores(tree, set(out)):
        del out[name]
    return out


def class_literals(tree, cls, fname):
    """like class_int_consts for `NAME = <str|int|float|bool|None literal>`"""
    node = find_class(tree, cls, fname)
    out = _literal_bindings(node.body, fname, cls, (str, int, float, bool, type(None)))
    for name in _attr_stores(tree, set(out)):
        del out[name]
    return out


def module_int_consts(tree):
    out = _literal_bindings(tree.body, "", "module", (int,))
    for n in ast.walk(tree):
        if isinstance(n, ast.Global):
            for name in n.names:
                out.pop(name, None)
    return out


def module_literals(tree):
    """module-level `NAME = <str|int|float|bool|None literal>` bound exactly once (see class_int_consts)"""
    out = _literal_bindings(tree.body, "", "module", (str, int, float, bool, type(None)))
    for n in ast.walk(tree):
        if isinstance(n, ast.Global):
            for name in n.names:
                out.pop(name, None)
    return out


def imported_as(tree, name, modules, fname):
    """`name` is bound at module level by exactly one `from <one of modules> import name` (no alias) and nothing else"""
    imps = [(st, a) for st in tree.body if isinstance(st, ast.ImportFrom) for a in st.names
            if (a.asname or a.name) == name]
    ok = (len(imps) == 1 and imps[0][1].asname is None
          and ((imps[0][0].module or "") in modules or ("." * imps[0][0].level + (imps[0][0].module or "")) in modules))
    if ok:
        rest = [st for st in tree.body if st is not imps[0][0]]
        others = [a for a in imps[0][0].names if a is not imps[0][1] and (a.asname or a.name) == name]
        ok = not others and not _other_bindings(rest, name, None)
    if not ok:
        raise Untranslatable("%s: `%s` is not simply imported from %s" % (fname, name, " / ".join(modules)))


def plain_import(tree, module, fname):
    """`import <module>` (no alias) is the only binding of that name at module level"""
    imps = [st for st in tree.body if isinstance(st, ast.Import) and any(al.name == module and al.asname is None for al in st.names)]
    if not imps or _other_bindings([st for st in tree.body if st not in imps], module, None):
        raise Untranslatable("%s: `%s` is not simply the imported module" % (fname, module))


def class_slot_is_none(tree, cls, name, fname):
    """the class attribute `name` starts as None and is bound by nothing else in the class body"""
    node = find_class(tree, cls, fname)
    d = _literal_bindings(node.body, fname, cls, (type(None),))
    if name not in d:
        raise Untranslatable("%s: %s.%s does not simply start as None" % (fname, cls, name))


def local_bindings(fn):
    """names bound inside a function: parameters and every Store/Del/import/def/handler name at any depth"""
    out = set()
    a = fn.args
    for arg in a.posonlyargs + a.args + a.kwonlyargs + [x for x in (a.vararg, a.kwarg) if x is not None]:
        out.add(arg.arg)
    for n in ast.walk(fn):
        if isinstance(n, ast.Name) and isinstance(n.ctx, (ast.Store, ast.Del)):
            out.add(n.id)
        elif isinstance(n, (ast.FunctionDef, ast.AsyncFunctionDef, ast.ClassDef)) and n is not fn:
            out.add(n.name)
        elif isinstance(n, ast.alias):
            out.add(n.asname or n.name.split(".")[0])
        elif isinstance(n, ast.ExceptHandler) and n.name:
            out.add(n.name)
        elif isinstance(n, (ast.Global, ast.Nonlocal)):
            out.update(n.names)
        elif isinstance(n, ast.arg):
            out.add(n.arg)
    return out


def inline_literals(fn, tree, cls=None):
    """A copy of the function in which every read of a module-level literal constant (`_LIMIT = 255` bound exactly once,
    not shadowed inside the function) - and, with `cls`, every `self.NAME` / `cls.NAME` / `<cls>.NAME` read of such a
    class-level literal - is replaced by the literal: a reader then sees `min(x, 255)` whether or not the number was
    given a name (one level of read-through for extracted constants)."""
    import copy
    mod = module_literals(tree)
    shadow = local_bindings(fn)
    cl = {}
    if cls is not None:
        cnode = [n for n in tree.body if isinstance(n, ast.ClassDef) and n.name == cls]
        if len(cnode) == 1:
            cl = _literal_bindings(cnode[0].body, "", cls, (str, int, float, bool, type(None)))
            for name in _attr_stores(tree, set(cl)):
                del cl[name]

    class T(ast.NodeTransformer):
        def visit_Name(self, n):
            if isinstance(n.ctx, ast.Load) and n.id in mod and n.id not in shadow:
                return ast.copy_location(ast.Constant(value=mod[n.id]), n)
            return n

        def visit_Attribute(self, n):
            if (isinstance(n.ctx, ast.Load) and isinstance(n.value, ast.Name) and n.attr in cl
                    and (n.value.id in ("self", "cls") and n.value.id not in (shadow - {fn.args.args[0].arg if fn.args.args else ""})
                         or n.value.id == cls and cls not in shadow)):
                return ast.copy_location(ast.Constant(value=cl[n.attr]), n)
            return self.generic_visit(n)

    return ast.fix_missing_locations(T().visit(copy.deepcopy(fn)))


def mentions(node, names=(), attrs=(), strings=True):
    """does the (list of) node(s) mention one of the names (as a variable) or attributes (on any object; also as a
    string literal, for getattr/setattr) - the test for `this statement cannot concern the objects read here`"""
    nodes = node if isinstance(node, (list, tuple)) else [node]
    for top in nodes:
        for n in ast.walk(top):
            if isinstance(n, ast.Name) and n.id in names:
                return True
            if isinstance(n, ast.arg) and n.arg in names:
                return True
            if isinstance(n, ast.Attribute) and n.attr in attrs:
                return True
            if strings and isinstance(n, ast.Constant) and isinstance(n.value, str) and n.value in attrs:
                return True
            if isinstance(n, (ast.Global, ast.Nonlocal)) and set(n.names) & set(names):
                return True
            if isinstance(n, ast.Call) and isinstance(n.func, ast.Name) and n.func.id in ("locals", "vars", "globals", "eval", "exec"):
                return True
    return False


def exits(node):
    """does the (list of) statement(s) contain a return / raise / break / continue / yield at any depth (not inside a
    nested function)?  Statements skipped as irrelevant must not: they could leave before the part that is read."""
    nodes = node if isinstance(node, (list, tuple)) else [node]

    def walk(n):
        if isinstance(n, (ast.Return, ast.Raise, ast.Break, ast.Continue, ast.Yield, ast.YieldFrom)):
            return True
        if isinstance(n, (ast.FunctionDef, ast.AsyncFunctionDef, ast.Lambda, ast.ClassDef)):
            return False
        return any(walk(c) for c in ast.iter_child_nodes(n))
    return any(walk(n) for n in nodes)


class _NoMatch(Exception):
    pass


class Template(object):
    """Strict structural match of statements against a template written as Python source.

      HOLE_x     (a name in expression position) matches any expression; the node is bound to "x"
      CONST_x    matches a literal (also a negated number); the node is bound to "x"
      V_x        (any identifier: variable, parameter, `except ... as` name) matches any identifier, the same one
                 everywhere; different V_ placeholders are different identifiers, none equal to a name the template spells out
      STMTS_x    (an expression statement) matches zero or more statements that satisfy `preds["x"]` (default: none
                 allowed); they are bound to "x" as a list

    Everything else must be equal node for node (line numbers, docstrings and type comments aside).  `match` returns the
    bindings or raises Untranslatable naming the first statement that is not what the template expects."""

    def __init__(self, source, preds=None):
        import textwrap
        self.stmts = strip_doc(ast.parse(textwrap.dedent(source)).body)
        self.preds = preds or {}
        self.literal_names = set()
        for st in self.stmts:
            for n in ast.walk(st):
                if isinstance(n, ast.Name) and not n.id.startswith(("HOLE_", "CONST_", "V_", "STMTS_")):
                    self.literal_names.add(n.id)
                if isinstance(n, ast.arg) and not n.arg.startswith("V_"):
                    self.literal_names.add(n.arg)

    def match(self, stmts, fname, what):
        self.far = (-1, None, None)
        try:
            return self._seq(self.stmts, strip_doc(stmts), {})
        except _NoMatch:
            line, exp, got = self.far
            raise Untranslatable("%s:%s: %s: expected `%s`, found `%s`"
                                 % (fname, line if line >= 0 else "?", what, exp, got))

    def try_match(self, stmts):
        self.far = (-1, None, None)
        try:
            return self._seq(self.stmts, strip_doc(stmts), {})
        except _NoMatch:
            return None

    # -- internals
    def _note(self, t, a):
        line = getattr(a, "lineno", None)
        if line is None:
            return
        if line > self.far[0]:
            def show(x):
                if x is None:
                    return "<nothing>"
                try:
                    return ast.unparse(x).split("\n")[0][:100]
                except Exception:  # noqa
                    return type(x).__name__
            self.far = (line, show(t), show(a))

    def _wild(self, st):
        if isinstance(st, ast.Expr) and isinstance(st.value, ast.Name) and st.value.id.startswith("STMTS_"):
            return st.value.id[6:]
        return None

    def _seq(self, ts, as_, b):
        if not ts:
            if as_:
                self._note(None, as_[0])
                raise _NoMatch()
            return b
        w = self._wild(ts[0])
        if w is not None:
            pred = self.preds.get(w, lambda st: False)
            k = 0
            while True:
                try:
                    b2 = dict(b)
                    b2[w] = list(as_[:k])
                    return self._seq(ts[1:], as_[k:], b2)
                except _NoMatch:
                    pass
                if k < len(as_) and pred(as_[k]):
                    k += 1
                    continue
                raise _NoMatch()
        if not as_:
            self.far = max(self.far, (10 ** 9, ast.unparse(ts[0]).split("\n")[0][:100], "<end of block>"), key=lambda x: x[0])
            raise _NoMatch()
        b2 = dict(b)
        try:
            self._node(ts[0], as_[0], b2)
        except _NoMatch:
            self._note(ts[0], as_[0])
            raise
        return self._seq(ts[1:], as_[1:], b2)

    def _ident(self, t, a, b):
        if isinstance(t, str) and t.startswith("V_"):
            if not isinstance(a, str):
                raise _NoMatch()
            key = "V:" + t[2:]
            if key in b:
                if b[key] != a:
                    raise _NoMatch()
            else:
                if a in self.literal_names or any(k.startswith("V:") and v == a for k, v in b.items()):
                    raise _NoMatch()
                b[key] = a
            return True
        return False

    def _node(self, t, a, b):
        if isinstance(t, ast.Name) and t.id.startswith("HOLE_"):
            if not isinstance(a, ast.expr):
                raise _NoMatch()
            key = t.id[5:]
            if key in b and ast.dump(b[key]) != ast.dump(a):
                raise _NoMatch()
            b[key] = a
            return
        if isinstance(t, ast.Name) and t.id.startswith("CONST_"):
            ok = isinstance(a, ast.Constant) or (isinstance(a, ast.UnaryOp) and isinstance(a.op, ast.USub)
                                                 and isinstance(a.operand, ast.Constant)
                                                 and isinstance(a.operand.value, (int, float))
                                                 and not isinstance(a.operand.value, bool))
            if not ok:
                raise _NoMatch()
            key = t.id[6:]
            if key in b and ast.dump(b[key]) != ast.dump(a):
                raise _NoMatch()
            b[key] = a
            return
        if type(t) is not type(a):
            raise _NoMatch()
        for field in t._fields:
            if field in ("ctx", "type_comment", "kind", "type_ignores"):
                continue
            tv, av = getattr(t, field, None), getattr(a, field, None)
            self._value(tv, av, b, field)

    def _value(self, tv, av, b, field):
        if isinstance(tv, list):
            if not isinstance(av, list):
                raise _NoMatch()
            if field in ("body", "orelse", "finalbody") and (not tv or isinstance(tv[0], ast.stmt)) \
                    and (not av or isinstance(av[0], ast.stmt)):
                b2 = self._seq(strip_doc(tv), strip_doc(av), b)
                b.update(b2)
                return
            if len(tv) != len(av):
                raise _NoMatch()
            for x, y in zip(tv, av):
                self._value(x, y, b, field)
            return
        if isinstance(tv, ast.AST):
            if not isinstance(av, ast.AST):
                raise _NoMatch()
            self._node(tv, av, b)
            return
        if self._ident(tv, av, b):
            return
        if tv != av or type(tv) is not type(av):
            raise _NoMatch()


def const_value(node):
    """value of a node bound by CONST_x"""
    if isinstance(node, ast.UnaryOp):
        return -node.operand.value
    return node.value
