#!/usr/bin/env python3
"""Record the content hash of every file under /repo/src/clikit (source_fingerprints.json).
Run after the checks were validated on the unchanged tree (e.g. after a `fix:` commit).  harness/core.py compares the
current tree with it: a difference is never an alarm, it only buys further rounds of generated cases."""
import hashlib, json, os, subprocess, sys
ROOT = os.path.dirname(os.path.dirname(os.path.abspath(__file__)))
REPO = os.environ.get("CLIKIT_REPO", "/repo")
base = os.path.join(REPO, "src", "clikit")
files = {}
for dp, _dn, fns in os.walk(base):
    for fn in sorted(fns):
        if fn.endswith(".py"):
            path = os.path.join(dp, fn)
            with open(path, "rb") as f:
                files[os.path.relpath(path, base)] = hashlib.sha256(f.read()).hexdigest()
head = subprocess.run(["git", "-C", REPO, "rev-parse", "--short", "HEAD"], capture_output=True, text=True).stdout.strip()
with open(os.path.join(ROOT, "source_fingerprints.json"), "w") as f:
    json.dump({"repo_head": head, "files": dict(sorted(files.items()))}, f, indent=1)
print("fingerprints of %d files at %s" % (len(files), head))
