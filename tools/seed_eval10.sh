#!/bin/sh
# like seed_eval.sh, for the round-2 seeds under /tmp/seed10/out
P="$1"; shift
ROOTV=$(cd "$(dirname "$0")/.." && pwd)
PROPS="${*:-$P}"
OUT=/tmp/seed10/out/$P
D=/tmp/rw/seedeval10-$P-$$
mkdir -p /tmp/rw
git -C /repo worktree add -q "$D" HEAD || exit 2
echo "== $P: demo on the unchanged tree: $(cd "$D" && PYTHONPATH="$D/src" timeout 300 /venv/bin/python "$OUT/demo.py" >/tmp/rw/demo0-$P.log 2>&1; echo "exit $?")"
( cd "$D" && git apply "$OUT/patch.diff" ) || { echo "patch does not apply"; git -C /repo worktree remove --force "$D"; exit 2; }
echo "== $P: repo tests with the change: $(cd "$D" && PYTHONPATH="$D/src" timeout 900 /venv/bin/python -m pytest -q -p no:cacheprovider 2>&1 | tail -1)"
echo "== $P: demo with the change: $(cd "$D" && PYTHONPATH="$D/src" timeout 300 /venv/bin/python "$OUT/demo.py" >/tmp/rw/demo1-$P.log 2>&1; echo "exit $?")"
for q in $PROPS; do
  echo "== $P: ./vcheck $q: $(cd "$ROOTV" && CLIKIT_REPO="$D" ./vcheck "$q" 2>&1 | grep -E "^(VIOLATION|OK |INFRA)" | cut -c1-200)"
done
git -C /repo worktree remove --force "$D"
( cd "$ROOTV" && python3 tools/gen_lean.py >/dev/null )
