#!/usr/bin/env python3
"""
Robustness of the translator (tools/gen_lean.py + tools/py2lean.py + tools/genparts/) under source changes.

For every patch given, a scratch worktree of /repo gets the patch, the translator is run on it and the generated
files are compared with what the same translator generates from the unchanged tree.  Per patch the outcome is

  unchanged           every part was read and every generated file is byte-identical
  changed: <files>    a part was read and its text differs (the change is visible in the generated definitions;
                      source line numbers quoted in comments are ignored)
  broken: <files>     a reader gave up (`broken_parts`): frozen definitions, the correspondence run carries the tie
  BROKEN-TIE          exit status 3 (unreadable part without a frozen copy)
  patch-failed        the patch does not apply to /repo HEAD

Nothing is written outside a scratch directory: the tools directory under test is copied next to a private
lean/Clikit/Gen, so the translator of any checkout (e.g. the one before a change to the readers) can be measured.

  tools/gen_robustness.py [--tools DIR] [--jobs N] [--json OUT.json] PATCH...
  tools/gen_robustness.py --benign          the behaviour-preserving rewrites (seeded-benign/*/patch.diff and
                                            seeded-benign/translator/*.diff): a `changed` outcome is an error (exit 1)
  tools/gen_robustness.py --seeded          the stored seeded changes (seeded/*/patch.diff)
  tools/gen_robustness.py --probes          seeded-benign/translator/half-read-probes/*.diff: behaviour-changing edits in
                                            statements a reader might skip; `unchanged` is an error (exit 1)
  tools/gen_robustness.py --table BEFORE.json AFTER.json    markdown before/after table; exit 1 if a seeded change that
                                            was visible before (changed/broken) is `unchanged` after, or if a
                                            behaviour-preserving rewrite (benign/..., translator/...) has a changed definition
"""
import concurrent.futures
import glob
import json
import os
import re
import shutil
import subprocess
import sys
import tempfile

HERE = os.path.dirname(os.path.abspath(__file__))
ROOT = os.path.dirname(HERE)
REPO = os.environ.get("CLIKIT_REPO_CLEAN", "/repo")
SCRATCH = os.environ.get("GEN_ROBUSTNESS_SCRATCH", "/tmp/rw")


def sh(*cmd, **kw):
    return subprocess.run(cmd, stdout=subprocess.PIPE, stderr=subprocess.STDOUT, universal_newlines=True, **kw)


def label(patch):
    d, b = os.path.split(os.path.abspath(patch))
    if b != "patch.diff":
        return os.path.basename(d) + "/" + b[:-5]
    return ("benign/" if os.path.basename(os.path.dirname(d)) == "seeded-benign" else "") + os.path.basename(d)


class Slot(object):
    """one worker: a private copy of the tools + output directory and a private worktree of /repo"""

    def __init__(self, tools, k, tag):
        self.dir = tempfile.mkdtemp(prefix="gG-rob-%s-%d-" % (tag, k), dir=SCRATCH)
        shutil.copytree(tools, os.path.join(self.dir, "tools"), ignore=shutil.ignore_patterns("__pycache__"))
        self.gen = os.path.join(self.dir, "lean", "Clikit", "Gen")
        self.wt = os.path.join(self.dir, "repo")
        r = sh("git", "-C", REPO, "worktree", "add", "-q", "--detach", self.wt, "HEAD")
        if r.returncode != 0:
            raise RuntimeError(r.stdout)
        rc, last = self.run(self.wt)
        if rc != 0 or '"broken_parts": {}' not in last:
            self.close()
            raise RuntimeError("translator does not read the unchanged tree: %s" % last[:300])
        self.clean = self.texts()

    def run(self, repo):
        env = dict(os.environ, CLIKIT_REPO=repo)
        r = sh(sys.executable, os.path.join(self.dir, "tools", "gen_lean.py"), env=env)
        last = r.stdout.strip().splitlines()[-1] if r.stdout.strip() else ""
        return r.returncode, last

    def texts(self):
        out = {}
        for f in sorted(os.listdir(self.gen)):
            with open(os.path.join(self.gen, f), encoding="utf-8") as fh:
                # the comments quote source line numbers: a shifted line is not a changed definition
                out[f] = re.sub(r"\(line \d+", "(line N", fh.read())
        return out

    def measure(self, patch):
        sh("git", "-C", self.wt, "checkout", "-q", "--", ".")
        sh("git", "-C", self.wt, "clean", "-qfd")
        shutil.rmtree(self.gen, ignore_errors=True)
        clean = self.clean
        r = sh("git", "-C", self.wt, "apply", "--whitespace=nowarn", os.path.abspath(patch))
        if r.returncode != 0:
            return {"outcome": "patch-failed", "detail": r.stdout.strip()[:200]}
        rc, last = self.run(self.wt)
        if rc != 0 or not last.startswith("GEN "):
            return {"outcome": "BROKEN-TIE", "detail": last[:300]}
        summary = json.loads(last[4:])
        broken = summary["broken_parts"]
        now = self.texts()
        changed = sorted(f for f in set(clean) | set(now) if f not in broken and clean.get(f) != now.get(f))
        res = {"changed": changed, "broken": {k: v[:240] for k, v in sorted(broken.items())}}
        res["outcome"] = "; ".join(
            (["changed: " + " ".join(changed)] if changed else [])
            + (["broken: " + " ".join(sorted(broken))] if broken else [])) or "unchanged"
        return res

    def close(self):
        sh("git", "-C", REPO, "worktree", "remove", "--force", self.wt)
        shutil.rmtree(self.dir, ignore_errors=True)


def measure_all(tools, patches, jobs, tag):
    os.makedirs(SCRATCH, exist_ok=True)
    jobs = max(1, min(jobs, len(patches)))
    slots = [Slot(tools, k, tag) for k in range(jobs)]
    out = {}
    try:
        def work(k):
            res = {}
            for p in patches[k::jobs]:
                try:
                    res[label(p)] = slots[k].measure(p)
                except Exception as e:  # noqa
                    res[label(p)] = {"outcome": "error", "detail": "%s: %s" % (type(e).__name__, str(e)[:300])}
            return res
        with concurrent.futures.ThreadPoolExecutor(jobs) as ex:
            for res in ex.map(work, range(jobs)):
                out.update(res)
    finally:
        for s in slots:
            s.close()
    return out


def natural(k):
    return [int(x) if x.isdigit() else x for x in re.split(r"(\d+)", k)]


def table(before, after):
    rows = ["| seed | before | after | |", "|---|---|---|---|"]
    lost = []
    for k in sorted(set(before) | set(after), key=natural):
        b = before.get(k, {}).get("outcome", "-")
        a = after.get(k, {}).get("outcome", "-")
        note = ""
        if k.startswith(("benign/", "translator/")):
            # a behaviour-preserving rewrite: identical definitions are the best answer, a changed definition is wrong
            if a.startswith("changed"):
                note = "FALSE CHANGE"
                lost.append(k)
            elif a == "unchanged" and b != "unchanged":
                note = "now read through" if not b.startswith("changed") else "now read through (was a false change)"
            elif b != a:
                note = "differs"
        elif b not in ("unchanged", "-", "patch-failed") and a == "unchanged":
            note = "LOST"
            lost.append(k)
        elif b != a:
            note = "differs"
        rows.append("| %s | %s | %s | %s |" % (k, b, a, note))
    return "\n".join(rows) + "\n", lost


def main(argv):
    tools, jobs, out_json, patches, mode = HERE, 6, None, [], None
    i = 0
    while i < len(argv):
        a = argv[i]
        if a == "--tools":
            tools = os.path.abspath(argv[i + 1]); i += 1
        elif a == "--jobs":
            jobs = int(argv[i + 1]); i += 1
        elif a == "--json":
            out_json = argv[i + 1]; i += 1
        elif a == "--benign":
            mode = "benign"
            patches += sorted(glob.glob(os.path.join(ROOT, "seeded-benign", "*", "patch.diff")), key=natural)
            patches += sorted(glob.glob(os.path.join(ROOT, "seeded-benign", "translator", "*.diff")), key=natural)
        elif a == "--probes":
            mode = "probes"
            patches += sorted(glob.glob(os.path.join(ROOT, "seeded-benign", "translator", "half-read-probes", "*.diff")), key=natural)
        elif a == "--seeded":
            patches += sorted(glob.glob(os.path.join(ROOT, "seeded", "*", "patch.diff")), key=natural)
        elif a == "--table":
            with open(argv[i + 1]) as f:
                before = json.load(f)
            with open(argv[i + 2]) as f:
                after = json.load(f)
            text, lost = table(before, after)
            sys.stdout.write(text)
            if lost:
                sys.stdout.write("\nNOT OK (a seeded change visible before and invisible after / a rewrite with a changed "
                                 "definition): %s\n" % " ".join(lost))
            return 1 if lost else 0
        else:
            patches.append(a)
        i += 1
    if not patches:
        sys.stderr.write(__doc__)
        return 2
    res = measure_all(tools, patches, jobs, "x")
    for k in sorted(res, key=natural):
        r = res[k]
        print("%-28s %s%s" % (k, r["outcome"], ("   " + "; ".join("%s: %s" % kv for kv in r.get("broken", {}).items())[:260])
                                if r.get("broken") else ("   " + r["detail"] if r.get("detail") else "")))
    if out_json:
        with open(out_json, "w") as f:
            json.dump(res, f, indent=1, sort_keys=True)
    bad = [k for k, r in res.items() if r["outcome"] in ("error", "patch-failed", "BROKEN-TIE")
           or (mode == "benign" and r.get("changed")) or (mode == "probes" and r["outcome"] == "unchanged")]
    if bad:
        print("NOT OK: %s" % " ".join(sorted(bad, key=natural)))
    return 1 if bad else 0


if __name__ == "__main__":
    sys.exit(main(sys.argv[1:]))
