#!/usr/bin/env python3
"""
Tie A: regenerate the Lean files under lean/Clikit/Gen from the *current* source of /repo.

  Gen/Consts.lean  - constants and tables read with `ast` (flag bits, verbosity levels, ...)
  Gen/Logic.lean   - decision functions translated statement by statement (tools/py2lean.py)

Files are rewritten only when their content changes (so an unchanged tree costs a no-op
`lake build`).  A construct the translator does not understand is reported on stdout as
`BROKEN-TIE <what>` and exit status 3; the pipeline treats that like a broken proof obligation.
"""
import ast
import json
import os
import sys

HERE = os.path.dirname(os.path.abspath(__file__))
sys.path.insert(0, HERE)
import py2lean as P  # noqa: E402

REPO = os.environ.get("CLIKIT_REPO", "/repo")
SRC = os.path.join(REPO, "src", "clikit")
OUT = os.path.join(os.path.dirname(HERE), "lean", "Clikit", "Gen")


def parse(rel):
    path = os.path.join(SRC, rel)
    with open(path, encoding="utf-8") as f:
        return ast.parse(f.read(), filename=path), rel


def lean_str(s):
    out = []
    for ch in s:
        o = ord(ch)
        if ch == "\\":
            out.append("\\\\")
        elif ch == '"':
            out.append('\\"')
        elif ch == "\n":
            out.append("\\n")
        elif ch == "\r":
            out.append("\\r")
        elif ch == "\t":
            out.append("\\t")
        elif o < 32 or o == 127:
            out.append("\\x%02x" % o)
        else:
            out.append(ch)
    return '"' + "".join(out) + '"'


def write_if_changed(path, text):
    old = None
    if os.path.exists(path):
        with open(path, encoding="utf-8") as f:
            old = f.read()
    if old != text:
        os.makedirs(os.path.dirname(path), exist_ok=True)
        with open(path, "w", encoding="utf-8") as f:
            f.write(text)
        return True
    return False


def need(d, names, where):
    for n in names:
        if n not in d:
            raise P.Untranslatable("%s: constant %s not found" % (where, n))


def gen():
    consts = []  # lines of Consts.lean
    logic = []   # chunks of Logic.lean
    summary = {"constants": {}, "functions": []}

    def emit_consts(ns, d, names, where):
        need(d, names, where)
        consts.append("namespace %s" % ns)
        for n in names:
            consts.append("def %s : Nat := %d" % (n, d[n]))
            summary["constants"]["%s.%s" % (ns, n)] = d[n]
        consts.append("end %s\n" % ns)

    # ---- io flags -------------------------------------------------------------------
    tree, rel = parse("api/io/flags.py")
    io = P.module_int_consts(tree)
    emit_consts("IOFlags", io, ["NORMAL", "VERBOSE", "VERY_VERBOSE", "DEBUG"], rel)

    # ---- option / argument flag bits ------------------------------------------------
    tree_ao, rel_ao = parse("api/args/format/abstract_option.py")
    ao = P.class_int_consts(tree_ao, "AbstractOption", rel_ao)
    emit_consts("AbsOptFlags", ao, ["PREFER_LONG_NAME", "PREFER_SHORT_NAME"], rel_ao)
    tree_o, rel_o = parse("api/args/format/option.py")
    op = P.class_int_consts(tree_o, "Option", rel_o)
    emit_consts("OptFlags", op, ["NO_VALUE", "REQUIRED_VALUE", "OPTIONAL_VALUE", "MULTI_VALUED",
                                 "STRING", "BOOLEAN", "INTEGER", "FLOAT", "NULLABLE"], rel_o)
    tree_a, rel_a = parse("api/args/format/argument.py")
    ar = P.class_int_consts(tree_a, "Argument", rel_a)
    emit_consts("ArgFlags", ar, ["REQUIRED", "OPTIONAL", "MULTI_VALUED", "STRING", "BOOLEAN",
                                 "INTEGER", "FLOAT", "NULLABLE"], rel_a)

    def fn(tree, rel, cls, name, spec, constmap, bare_const=None):
        node = P.find_function(tree, cls, name, rel)
        t = P.Translator(rel, constmap, spec, cls=cls)
        t.bare_const = bare_const
        logic.append("-- %s  %s.%s (line %d)\n" % (rel, cls, name, node.lineno) + t.function(node))
        summary["functions"].append("%s:%s.%s -> %s" % (rel, cls, name, spec.lean_name))

    # ---- the write gate -------------------------------------------------------------
    tree, rel = parse("api/io/output.py")
    fn(tree, rel, "Output", "_may_write",
       P.FnSpec("mayWrite", [("flags", "flags", "optnat")], "bool",
                self_attrs={"_quiet": ("quiet", "bool"), "_verbosity": ("verbosity", "nat")},
                doc="Output._may_write: whether text with these flags reaches the stream"),
       {k: "IOFlags." + k for k in io},
       # the flag names are module globals of output.py: they must be the constants of flags.py
       bare_const=lambda name, node: P.imported_as(tree, name, (".flags", "clikit.api.io.flags", "clikit.api.io"), rel))
    # the signature gets the two fields of `self` it reads as leading parameters
    logic[-1] = logic[-1].replace("def mayWrite (flags", "def mayWrite (quiet : Bool) (verbosity : Nat) (flags")

    # ---- option flags ---------------------------------------------------------------
    # `self.NAME` and `super()` are resolved along Option -> AbstractOption -> object
    P.check_bases(tree_ao, "AbstractOption", [], rel_ao)
    P.check_bases(tree_o, "Option", ["AbstractOption"], rel_o)
    P.imported_as(tree_o, "AbstractOption", (".abstract_option", "clikit.api.args.format.abstract_option"), rel_o)
    P.check_bases(tree_a, "Argument", [], rel_a)
    if set(ao) & set(op):
        raise P.Untranslatable("%s: Option redefines %s of AbstractOption" % (rel_o, sorted(set(ao) & set(op))))
    aomap = {k: "AbsOptFlags." + k for k in ao}
    fn(tree_ao, rel_ao, "AbstractOption", "_validate_flags",
       P.FnSpec("absValidateFlags", [("flags", "flags", "nat")], "except_unit"), aomap)
    fn(tree_ao, rel_ao, "AbstractOption", "_add_default_flags",
       P.FnSpec("absAddDefaultFlags", [("flags", "flags", "nat")], "nat",
                self_attrs={"_short_name": ("shortName", "optstr")}), aomap)
    logic[-1] = logic[-1].replace("def absAddDefaultFlags (flags", "def absAddDefaultFlags (shortName : Option (List Char)) (flags")
    omap = dict(aomap)
    omap.update({k: "OptFlags." + k for k in op})
    fn(tree_o, rel_o, "Option", "_validate_flags",
       P.FnSpec("optValidateFlags", [("flags", "flags", "nat")], "except_unit",
                calls={"super._validate_flags": ("absValidateFlags", [], "except_unit")}), omap)
    fn(tree_o, rel_o, "Option", "_add_default_flags",
       P.FnSpec("optAddDefaultFlags", [("flags", "flags", "nat")], "nat",
                calls={"super._add_default_flags": ("absAddDefaultFlags", ["shortName"], "nat")}), omap)
    logic[-1] = logic[-1].replace("def optAddDefaultFlags (flags", "def optAddDefaultFlags (shortName : Option (List Char)) (flags")
    for py, lean in [("accepts_value", "optAcceptsValue"), ("is_value_required", "optIsValueRequired"),
                     ("is_value_optional", "optIsValueOptional"), ("is_multi_valued", "optIsMultiValued")]:
        fn(tree_o, rel_o, "Option", py,
           P.FnSpec(lean, [], "bool", self_attrs={"_flags": ("flags", "nat")}), omap)
        logic[-1] = logic[-1].replace("def %s  :" % lean, "def %s (flags : Nat) :" % lean)
    for py, lean in [("is_long_name_preferred", "optIsLongPreferred"), ("is_short_name_preferred", "optIsShortPreferred")]:
        fn(tree_ao, rel_ao, "AbstractOption", py,
           P.FnSpec(lean, [], "bool", self_attrs={"_flags": ("flags", "nat")}), aomap)
        logic[-1] = logic[-1].replace("def %s  :" % lean, "def %s (flags : Nat) :" % lean)

    # ---- argument flags -------------------------------------------------------------
    amap = {k: "ArgFlags." + k for k in ar}
    fn(tree_a, rel_a, "Argument", "_validate_flags",
       P.FnSpec("argValidateFlags", [("flags", "flags", "nat")], "except_unit"), amap)
    fn(tree_a, rel_a, "Argument", "_add_default_flags",
       P.FnSpec("argAddDefaultFlags", [("flags", "flags", "nat")], "nat"), amap)
    for py, lean in [("is_required", "argIsRequired"), ("is_optional", "argIsOptional"),
                     ("is_multi_valued", "argIsMultiValued")]:
        fn(tree_a, rel_a, "Argument", py,
           P.FnSpec(lean, [], "bool", self_attrs={"_flags": ("flags", "nat")}), amap)
        logic[-1] = logic[-1].replace("def %s  :" % lean, "def %s (flags : Nat) :" % lean)

    header = ("-- GENERATED by tools/gen_lean.py from the current source of /repo - do not edit.\n"
              "-- Regenerated on every check run; theorems that mention these definitions are\n"
              "-- therefore re-checked against what the code says now.\n")
    consts_text = header + "namespace Clikit.Gen\n\n" + "\n".join(consts) + "\nend Clikit.Gen\n"
    logic_text = (header + "import Clikit.Gen.Consts\nnamespace Clikit.Gen\n\n" + "\n".join(logic)
                  + "\nend Clikit.Gen\n")
    return consts_text, logic_text, summary


HEADER = ("-- GENERATED by tools/gen_lean.py from the current source of /repo - do not edit.\n"
          "-- Regenerated on every check run.\n")


class Api(object):
    """what a plug-in under tools/genparts/ may use"""
    P = P
    SRC = SRC
    REPO = REPO
    HEADER = HEADER
    parse = staticmethod(parse)
    lean_str = staticmethod(lean_str)


ERRS = (P.Untranslatable, OSError, SyntaxError, KeyError, AttributeError, IndexError, ValueError, TypeError)
FROZEN = os.path.join(HERE, "gen_frozen")


def plugins(broken):
    """every plug-in on its own: one that cannot read the current source does not take the others down"""
    import importlib.util
    d = os.path.join(HERE, "genparts")
    out = {}
    for name in sorted(os.listdir(d)) if os.path.isdir(d) else []:
        if not name.endswith(".py") or name.startswith("_"):
            continue
        spec = importlib.util.spec_from_file_location("genparts_" + name[:-3], os.path.join(d, name))
        m = importlib.util.module_from_spec(spec)
        spec.loader.exec_module(m)
        # generate(api) -> {"<File>.lean": text, ...}   (files land in lean/Clikit/Gen/)
        try:
            files = m.generate(Api)
        except ERRS as e:
            # the files this plug-in writes: by convention <Cxx>.lean for genparts/cxx.py
            broken[name[:-3].upper() + ".lean"] = "%s: %s" % (type(e).__name__, e)
            continue
        for fname, text in files.items():
            if fname in ("Consts.lean", "Logic.lean") or fname in out:
                raise P.Untranslatable("plug-in %s: file name %s is taken" % (name, fname))
            out[fname] = text
    return out


def frozen_text(fname):
    path = os.path.join(FROZEN, fname)
    if not os.path.exists(path):
        return None
    with open(path, encoding="utf-8") as f:
        return f.read()


def main():
    """exit 0: every part generated, or the parts that could not be read from the current source were filled in from
    tools/gen_frozen/ (the definitions generated from the tree the checks were validated on) and are listed under
    "broken_parts" - the caller decides what that means for the property it checks.  exit 3: a part is unreadable and no
    frozen copy exists.  `--freeze`: after a complete generation copy the generated files to tools/gen_frozen/."""
    broken = {}
    texts = {}
    try:
        consts_text, logic_text, summary = gen()
        texts["Consts.lean"], texts["Logic.lean"] = consts_text, logic_text
    except ERRS as e:
        summary = {"constants": {}, "functions": []}
        broken["Consts.lean"] = broken["Logic.lean"] = "%s: %s" % (type(e).__name__, e)
    try:
        texts.update(plugins(broken))
    except ERRS as e:
        print("BROKEN-TIE %s: %s" % (type(e).__name__, e))
        return 3
    for fname in sorted(broken):
        t = frozen_text(fname)
        if t is None:
            print("BROKEN-TIE %s (no frozen copy of %s)" % (broken[fname], fname))
            return 3
        texts[fname] = t.replace("-- GENERATED by tools/gen_lean.py from the current source of /repo - do not edit.",
                                 "-- FROZEN copy (tools/gen_frozen): the current source could not be translated, see the run's notes.", 1)
    changed = [write_if_changed(os.path.join(OUT, f), t) for f, t in sorted(texts.items())]
    summary["plugin_files"] = sorted(f for f in texts if f not in ("Consts.lean", "Logic.lean"))
    summary["changed"] = any(changed)
    summary["broken_parts"] = broken
    if "--freeze" in sys.argv[1:]:
        if broken:
            print("cannot freeze: " + json.dumps(broken))
            return 3
        os.makedirs(FROZEN, exist_ok=True)
        for f, t in texts.items():
            write_if_changed(os.path.join(FROZEN, f), t)
        summary["frozen"] = len(texts)
    print("GEN " + json.dumps(summary))
    return 0


if __name__ == "__main__":
    sys.exit(main())
