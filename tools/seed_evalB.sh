#!/bin/sh
# evaluate a behaviour-preserving rewrite (/tmp/seedB/out/<P>/patch.diff): the checks must NOT report a failing input
P="$1"; shift
ROOTV=$(cd "$(dirname "$0")/.." && pwd)
PROPS="${*:-$P}"
OUT=$ROOTV/seeded-benign/$P
D=/tmp/rw/seedevalB-$P-$$
mkdir -p /tmp/rw
git -C /repo worktree add -q "$D" HEAD || exit 2
( cd "$D" && git apply "$OUT/patch.diff" ) || { echo "== $P: patch does not apply"; git -C /repo worktree remove --force "$D"; exit 2; }
for q in $PROPS; do
  echo "== $P (benign): ./vcheck $q: $(cd "$ROOTV" && CLIKIT_REPO="$D" ./vcheck "$q" 2>&1 | grep -E "^(VIOLATION|OK |INFRA)" | cut -c1-200)"
done
git -C /repo worktree remove --force "$D"
( cd "$ROOTV" && python3 tools/gen_lean.py >/dev/null )
