#!/bin/sh
# merge a finished per-property branch (wip-Cxx) into main, dropping the generated index files
set -e
cd /verif
b="wip-$1"
git merge --no-commit --no-ff "$b" >/dev/null 2>&1 || true
for f in lean/Clikit.lean lean/Clikit/Drv/All.lean; do
  git rm -q --cached "$f" 2>/dev/null || true
done
git ls-files -u | awk '{print $4}' | sort -u | while read f; do
  case "$f" in
    lean/Clikit.lean|lean/Clikit/Drv/All.lean|lean/Clikit/Gen/*) git rm -q --cached "$f" 2>/dev/null || true ;;
    *) echo "CONFLICT $f" ;;
  esac
done
git rm -q -r --cached lean/Clikit/Gen 2>/dev/null || true
python3 tools/gen_index.py
python3 tools/gen_lean.py | cut -c1-60
git status --short | grep -v '^??' | head -30
