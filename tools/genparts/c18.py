"""
Tie A for C18: the facts of the question classes that lean/Clikit/Model/Question.lean is written
against, read from the current source with `ast` (no import).  Model/Question.lean pins each of
them with an `example … := rfl`, so a source that no longer says what the model models stops the
Lean build (a broken obligation, DESIGN 4.1) instead of silently drifting.

  choice_question.py   the multi-select answer regex, the characters removed/split on, the index range test
  question.py          where the read happens relative to the retry loop's `try` (the D22 repair) and what the
                       `except` catches
  confirmation_question.py   the default pattern
"""
import ast


VALIDATE = """
def validate(self, V_selected):
    if isinstance(V_selected, int):
        V_selected = str(V_selected)
    V_choices = V_selected.replace(CONST_rep_a, CONST_rep_b)
    if self._question.supports_multiple_choices():
        if not re.match(CONST_regex, V_choices):
            raise ValueError(self._question.error_message.format(V_selected))
        V_choices = V_choices.split(CONST_sep)
    else:
        V_choices = [V_selected]
    V_multi = []
    for V_value in V_choices:
        V_results = []
        for V_key, V_choice in enumerate(self._values):
            if V_choice == V_value:
                V_results.append(V_key)
        if len(V_results) > CONST_amb:
            raise ValueError(HOLE_ambiguous_message)
        HOLE_LOOKUP
        if V_result is False:
            raise ValueError(self._question.error_message.format(V_value))
        V_multi.append(V_result)
    if self._question.supports_multiple_choices():
        return V_multi
    return V_multi[0]
"""

# the look-up of one answer: by value first and by index in the ValueError handler, or the other way round
LOOKUP_VALUE_FIRST = """
try:
    V_result = self._values.index(V_value)
    V_result = self._values[V_result]
except ValueError:
    try:
        V_value = int(V_value)
        if HOLE_range:
            V_result = self._values[V_value]
        else:
            V_result = False
    except ValueError:
        V_result = False
"""
LOOKUP_INDEX_FIRST = """
try:
    V_value = int(V_value)
    if HOLE_range:
        V_result = self._values[V_value]
    else:
        V_result = False
except ValueError:
    try:
        V_result = self._values.index(V_value)
        V_result = self._values[V_result]
    except ValueError:
        V_result = False
"""

ATTEMPTS = """
def _validate_attempts(self, V_interviewer, V_io):
    V_error = None
    V_attempts = self._attempts
    while V_attempts is None or V_attempts:
        if V_error is not None:
            self._write_error(V_io, V_error)
        READ_OUTSIDE
        try:
            TRY_BODY
        except HOLE_caught as V_e:
            V_error = V_e
        if V_attempts is not None:
            V_attempts -= 1
    raise V_error
"""


def generate(api):
    P = api.P
    U = P.Untranslatable
    # ---- choice_question.py: the whole of `validate` is matched; the facts are its holes
    tree, rel = api.parse("ui/components/choice_question.py")
    P.plain_import(tree, "re", rel)
    v = P.inline_literals(P.find_function(tree, "SelectChoiceValidator", "validate", rel, decorators=()), tree,
                          "SelectChoiceValidator")
    init = P.find_function(tree, "SelectChoiceValidator", "__init__", rel, decorators=())
    P.Template("""
        def __init__(self, V_question):
            self._question = V_question
            self._values = V_question.choices
    """).match([init], rel, "SelectChoiceValidator.__init__")
    cnode = P.find_class(tree, "SelectChoiceValidator", rel)
    if len([n for n in ast.walk(cnode) if isinstance(n, ast.Attribute) and n.attr in ("_values", "_question")
            and isinstance(n.ctx, (ast.Store, ast.Del))]) != 2:
        raise U("%s: SelectChoiceValidator rebinds _values / _question" % rel)
    b = None
    for lookup, vf in ((LOOKUP_VALUE_FIRST, True), (LOOKUP_INDEX_FIRST, False)):
        text = VALIDATE.replace("        HOLE_LOOKUP\n", "".join("        " + ln + "\n" for ln in lookup.strip().split("\n")))
        t = P.Template(text)
        b = t.try_match([v])
        if b is not None:
            value_first = vf
            break
        err = t
    if b is None:
        P.Template(VALIDATE.replace("        HOLE_LOOKUP\n", "".join(
            "        " + ln + "\n" for ln in LOOKUP_VALUE_FIRST.strip().split("\n")))).match([v], rel, "SelectChoiceValidator.validate")
    regex = b["regex"].value
    if not isinstance(regex, str):
        raise U("%s: expected exactly one re.match(<literal>, …) in validate" % rel)
    if [b["rep_a"].value, b["rep_b"].value] != [" ", ""]:
        raise U('%s: expected selected.replace(" ", "")' % rel)
    if b["sep"].value != ",":
        raise U('%s: expected selected_choices.split(",")' % rel)
    c = b["range"]
    value_var = b["V:value"]
    if not (isinstance(c, ast.Compare) and len(c.ops) == 2 and isinstance(c.left, ast.Constant)
            and isinstance(c.left.value, int) and not isinstance(c.left.value, bool)
            and ast.unparse(c.comparators[0]) == value_var and ast.unparse(c.comparators[1]) == "len(self._values)"):
        raise U("%s:%d: expected one chained comparison <int> <op> %s <op> len(self._values) (the index range test)"
                % (rel, c.lineno, value_var))
    lo = c.left.value
    ops = [type(o).__name__ for o in c.ops]
    amb_n = b["amb"].value
    if not isinstance(amb_n, int) or isinstance(amb_n, bool) or amb_n < 0:
        raise U("%s: expected the ambiguity test len(results) > <n>" % rel)
    # ---- question.py: the retry loop, read either before the `try` (D22 repair) or as part of it
    tree, rel = api.parse("ui/components/question.py")
    va = P.find_function(tree, "Question", "_validate_attempts", rel, decorators=())
    shapes = [
        (False, True, "        V_value = V_interviewer()\n", "            return self._validator(V_value)\n"),
        (True, True, "", "            return self._validator(V_interviewer())\n"),
        (True, True, "", "            V_value = V_interviewer()\n            return self._validator(V_value)\n"),
    ]
    bq = None
    for inside, in_loop, outside_text, try_text in shapes:
        t = P.Template(ATTEMPTS.replace("        READ_OUTSIDE\n", outside_text).replace("            TRY_BODY\n", try_text))
        bq = t.try_match([va])
        if bq is not None:
            read_inside_try, read_in_loop = inside, in_loop
            break
    if bq is None:
        inside, in_loop, outside_text, try_text = shapes[0]
        P.Template(ATTEMPTS.replace("        READ_OUTSIDE\n", outside_text).replace("            TRY_BODY\n", try_text)).match(
            [va], rel, "Question._validate_attempts")
    h = bq["caught"]
    if not isinstance(h, (ast.Name, ast.Tuple)) or (isinstance(h, ast.Tuple) and not all(isinstance(e, ast.Name) for e in h.elts)):
        raise U("%s:%d: the retry loop catches something that is not a class name" % (rel, h.lineno))
    caught = [ast.unparse(h)]
    # ---- confirmation_question.py
    tree, rel = api.parse("ui/components/confirmation_question.py")
    init = P.find_function(tree, "ConfirmationQuestion", "__init__", rel, decorators=())
    names = [a.arg for a in init.args.args]
    if "true_answer_regex" not in names or init.args.vararg or init.args.kwarg or init.args.kwonlyargs:
        raise U("%s: ConfirmationQuestion.__init__ has no true_answer_regex" % rel)
    k = names.index("true_answer_regex") - (len(names) - len(init.args.defaults))
    if k < 0:
        raise U("%s: true_answer_regex has no default" % rel)
    dflt = init.args.defaults[k]
    if not (isinstance(dflt, ast.Constant) and isinstance(dflt.value, str)):
        raise U("%s: the default of true_answer_regex is not a literal" % rel)
    # the parameter reaches `self._true_answer_regex` unchanged and nothing else writes that attribute
    uses = [st for st in P.strip_doc(init.body) if P.mentions(st, names=("true_answer_regex",), attrs=("_true_answer_regex",))]
    if [ast.unparse(st) for st in uses] != ["self._true_answer_regex = true_answer_regex"] or P.exits(init.body):
        raise U("%s:%d: ConfirmationQuestion.__init__ does not simply store true_answer_regex" % (rel, init.lineno))
    cq = P.find_class(tree, "ConfirmationQuestion", rel)
    if len([n for n in ast.walk(cq) if isinstance(n, ast.Attribute) and n.attr == "_true_answer_regex"
            and isinstance(n.ctx, (ast.Store, ast.Del))]) != 1:
        raise U("%s: ConfirmationQuestion._true_answer_regex is written in more than one place" % rel)
    S = api.lean_str
    B = lambda b: "true" if b else "false"  # noqa: E731
    lines = [api.HEADER.rstrip("\n"),
             "namespace Clikit.Gen.C18",
             "",
             "/-- `re.match(<this>, selected_choices)` in SelectChoiceValidator.validate -/",
             "def multiSelectRegex : String := %s" % S(regex),
             "/-- the index range test `<lo> <op1> value <op2> len(values)` -/",
             "def rangeLow : Int := %d" % lo,
             "def rangeOps : List String := [%s]" % ", ".join(S(o) for o in ops),
             "/-- more than this many equal choices are ambiguous -/",
             "def ambiguousAbove : Nat := %d" % amb_n,
             "/-- `values.index(value)` is tried first, `int(value)` in its ValueError handler -/",
             "def valueBeforeIndex : Bool := %s" % B(value_first),
             "",
             "/-- is the answer read inside the retry loop's `try`?  (D22: it must not be) -/",
             "def readInsideTry : Bool := %s" % B(read_inside_try),
             "def readInsideLoop : Bool := %s" % B(read_in_loop),
             "def retryCatches : List String := [%s]" % ", ".join(S(x) for x in caught),
             "",
             "/-- default of ConfirmationQuestion's `true_answer_regex` -/",
             "def confirmDefaultRegex : String := %s" % S(dflt.value),
             "",
             "end Clikit.Gen.C18", ""]
    return {"C18.lean": "\n".join(lines)}
