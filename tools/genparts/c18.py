"""
Tie A for C18: the facts of the question classes that lean/Clikit/Model/Question.lean is written
against, read from the current source with `ast` (no import).  Model/Question.lean pins each of
them with an `example … := rfl`, so a source that no longer says what the model models stops the
Lean build (a broken obligation, DESIGN 4.1) instead of silently drifting.

  choice_question.py   the multi-select answer regex, the characters removed/split on, the index range test
  question.py          where the read happens relative to the retry loop's `try` (the D22 repair) and what the
                       `except` catches
  confirmation_question.py   the default pattern
"""
import ast


def _func(tree, cls, name, where, api):
    for node in ast.walk(tree):
        if isinstance(node, ast.ClassDef) and node.name == cls:
            for f in node.body:
                if isinstance(f, ast.FunctionDef) and f.name == name:
                    return f
    raise api.P.Untranslatable("%s: %s.%s not found" % (where, cls, name))


def _calls(node, attr):
    return [c for c in ast.walk(node) if isinstance(c, ast.Call) and isinstance(c.func, ast.Attribute) and c.func.attr == attr]


def _const_args(call):
    return [a.value for a in call.args if isinstance(a, ast.Constant)]


def generate(api):
    U = api.P.Untranslatable
    # ---- choice_question.py
    tree, rel = api.parse("ui/components/choice_question.py")
    v = _func(tree, "SelectChoiceValidator", "validate", rel, api)
    m = [c for c in _calls(v, "match") if isinstance(c.func.value, ast.Name) and c.func.value.id == "re"]
    if len(m) != 1 or not _const_args(m[0]):
        raise U("%s: expected exactly one re.match(<literal>, …) in validate" % rel)
    regex = _const_args(m[0])[0]
    rep = _calls(v, "replace")
    if len(rep) != 1 or _const_args(rep[0]) != [" ", ""]:
        raise U('%s: expected selected.replace(" ", "")' % rel)
    sp = _calls(v, "split")
    if len(sp) != 1 or _const_args(sp[0]) != [","]:
        raise U('%s: expected selected_choices.split(",")' % rel)
    rng = [c for c in ast.walk(v) if isinstance(c, ast.Compare) and len(c.ops) == 2]
    if len(rng) != 1:
        raise U("%s: expected one chained comparison (the index range test)" % rel)
    c = rng[0]
    lo = c.left.value if isinstance(c.left, ast.Constant) else None
    ops = [type(o).__name__ for o in c.ops]
    amb = [c for c in ast.walk(v) if isinstance(c, ast.Compare) and len(c.ops) == 1 and isinstance(c.ops[0], ast.Gt)
           and ast.unparse(c.left) == "len(results)" and isinstance(c.comparators[0], ast.Constant)]
    if len(amb) != 1:
        raise U("%s: expected the ambiguity test len(results) > <n>" % rel)
    amb_n = amb[0].comparators[0].value
    # value first, index second: `.index(value)` in a try whose ValueError handler calls int(value)
    tries = [t for t in ast.walk(v) if isinstance(t, ast.Try)]
    value_first = False
    for t in tries:
        if _calls(ast.Module(body=t.body, type_ignores=[]), "index"):
            for h in t.handlers:
                if any(isinstance(x, ast.Call) and isinstance(x.func, ast.Name) and x.func.id == "int" for x in ast.walk(h)):
                    value_first = True
    # ---- question.py
    tree, rel = api.parse("ui/components/question.py")
    va = _func(tree, "Question", "_validate_attempts", rel, api)
    loops = [n for n in va.body if isinstance(n, ast.While)]
    if len(loops) != 1:
        raise U("%s: expected one while loop in _validate_attempts" % rel)
    loop = loops[0]
    tries = [t for t in loop.body if isinstance(t, ast.Try)]
    if len(tries) != 1:
        raise U("%s: expected one try statement in the retry loop" % rel)
    t = tries[0]

    def calls_interviewer(nodes):
        return any(isinstance(x, ast.Call) and isinstance(x.func, ast.Name) and x.func.id == "interviewer"
                   for n in nodes for x in ast.walk(n))
    read_inside_try = calls_interviewer(t.body)
    read_in_loop = calls_interviewer(loop.body)
    caught = [ast.unparse(h.type) if h.type is not None else "BaseException" for h in t.handlers]
    # ---- confirmation_question.py
    tree, rel = api.parse("ui/components/confirmation_question.py")
    init = _func(tree, "ConfirmationQuestion", "__init__", rel, api)
    names = [a.arg for a in init.args.args]
    if "true_answer_regex" not in names:
        raise U("%s: ConfirmationQuestion.__init__ has no true_answer_regex" % rel)
    dflt = init.args.defaults[names.index("true_answer_regex") - (len(names) - len(init.args.defaults))]
    if not isinstance(dflt, ast.Constant):
        raise U("%s: the default of true_answer_regex is not a literal" % rel)
    S = api.lean_str
    B = lambda b: "true" if b else "false"  # noqa: E731
    lines = [api.HEADER.rstrip("\n"),
             "namespace Clikit.Gen.C18",
             "",
             "/-- `re.match(<this>, selected_choices)` in SelectChoiceValidator.validate -/",
             "def multiSelectRegex : String := %s" % S(regex),
             "/-- the index range test `<lo> <op1> value <op2> len(values)` -/",
             "def rangeLow : Int := %d" % (lo if isinstance(lo, int) else -999),
             "def rangeOps : List String := [%s]" % ", ".join(S(o) for o in ops),
             "/-- more than this many equal choices are ambiguous -/",
             "def ambiguousAbove : Nat := %d" % (amb_n if isinstance(amb_n, int) and amb_n >= 0 else 999),
             "/-- `values.index(value)` is tried first, `int(value)` in its ValueError handler -/",
             "def valueBeforeIndex : Bool := %s" % B(value_first),
             "",
             "/-- is the answer read inside the retry loop's `try`?  (D22: it must not be) -/",
             "def readInsideTry : Bool := %s" % B(read_inside_try),
             "def readInsideLoop : Bool := %s" % B(read_in_loop),
             "def retryCatches : List String := [%s]" % ", ".join(S(x) for x in caught),
             "",
             "/-- default of ConfirmationQuestion's `true_answer_regex` -/",
             "def confirmDefaultRegex : String := %s" % S(dflt.value),
             "",
             "end Clikit.Gen.C18", ""]
    return {"C18.lean": "\n".join(lines)}
