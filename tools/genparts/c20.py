"""C20: the tables of `Highlighter` / `ExceptionTrace` the trace model uses, read from the current
source of src/clikit/ui/components/exception_trace.py with `ast`:

  * `Highlighter.DEFAULT_THEME` (token class -> style string), `Highlighter.UI` (arrow / delimiter),
  * the default `lines_before` / `lines_after` of `code_snippet` and the window `_render_snippet` asks for,
  * the minimum line-number width of `line_numbers`.
"""
import ast


def _class(tree, name, rel, api):
    for n in tree.body:
        if isinstance(n, ast.ClassDef) and n.name == name:
            return n
    raise api.P.Untranslatable("%s: class %s not found" % (rel, name))


def _chars(s):
    def one(ch):
        if ch == "'":
            return "'\\''"
        if ch == "\\":
            return "'\\\\'"
        if ch == "\n":
            return "'\\n'"
        return "'%s'" % ch
    return "[" + ", ".join(one(c) for c in s) + "]"


THEME_KEYS = [("TOKEN_DEFAULT", "tokenDefault"), ("TOKEN_COMMENT", "tokenComment"), ("TOKEN_STRING", "tokenString"),
              ("TOKEN_NUMBER", "tokenNumber"), ("TOKEN_KEYWORD", "tokenKeyword"), ("TOKEN_BUILTIN", "tokenBuiltin"),
              ("TOKEN_OP", "tokenOp"), ("LINE_MARKER", "lineMarker"), ("LINE_NUMBER", "lineNumber")]


def generate(api):
    tree, rel = api.parse("ui/components/exception_trace.py")
    U = api.P.Untranslatable
    hl = _class(tree, "Highlighter", rel, api)
    strs, theme, ui = {}, None, None
    for n in hl.body:
        if isinstance(n, ast.Assign) and len(n.targets) == 1 and isinstance(n.targets[0], ast.Name):
            name = n.targets[0].id
            if isinstance(n.value, ast.Constant) and isinstance(n.value.value, str):
                strs[name] = n.value.value
            elif name == "DEFAULT_THEME" and isinstance(n.value, ast.Dict):
                theme = {}
                for k, v in zip(n.value.keys, n.value.values):
                    if not (isinstance(k, ast.Name) and isinstance(v, ast.Constant) and isinstance(v.value, str)):
                        raise U("%s: DEFAULT_THEME entry not of the form NAME: 'style'" % rel)
                    theme[k.id] = v.value
            elif name == "UI" and isinstance(n.value, ast.Dict):
                ui = {}
                for k, v in zip(n.value.keys, n.value.values):
                    if not (isinstance(k, ast.Constant) and isinstance(k.value, bool) and isinstance(v, ast.Dict)):
                        raise U("%s: UI entry not of the form bool: {...}" % rel)
                    ui[k.value] = dict((kk.value, vv.value) for kk, vv in zip(v.keys, v.values))
    if theme is None or ui is None:
        raise U("%s: Highlighter.DEFAULT_THEME / UI not found" % rel)
    for py, _ in THEME_KEYS:
        if py not in theme or py not in strs:
            raise U("%s: theme key %s missing" % (rel, py))
    for b in (False, True):
        if b not in ui or sorted(ui[b]) != ["arrow", "delimiter"]:
            raise U("%s: Highlighter.UI[%s] must have arrow and delimiter" % (rel, b))

    # code_snippet(self, source, line, lines_before=2, lines_after=2)
    cs = api.P.find_function(tree, "Highlighter", "code_snippet", rel)
    args = [a.arg for a in cs.args.args]
    if args != ["self", "source", "line", "lines_before", "lines_after"] or len(cs.args.defaults) != 2:
        raise U("%s: code_snippet signature changed: %s" % (rel, args))
    dflt = [d.value for d in cs.args.defaults]
    # line_numbers: max_line_length = max(3, len(str(len(lines))))
    ln = api.P.find_function(tree, "Highlighter", "line_numbers", rel)
    minw = None
    for n in ast.walk(ln):
        if (isinstance(n, ast.Assign) and getattr(n.targets[0], "id", None) == "max_line_length"
                and isinstance(n.value, ast.Call) and getattr(n.value.func, "id", None) == "max"
                and isinstance(n.value.args[0], ast.Constant)):
            minw = n.value.args[0].value
    if not isinstance(minw, int):
        raise U("%s: line_numbers: max_line_length = max(<int>, ...) not found" % rel)
    # _render_snippet: code_snippet(frame.file_content, frame.lineno, 4, 4)
    rs = api.P.find_function(tree, "ExceptionTrace", "_render_snippet", rel)
    win = None
    for n in ast.walk(rs):
        if isinstance(n, ast.Call) and isinstance(n.func, ast.Attribute) and n.func.attr == "code_snippet":
            extra = n.args[2:]
            if len(extra) == 2 and all(isinstance(a, ast.Constant) and isinstance(a.value, int) for a in extra):
                win = [a.value for a in extra]
    if win is None:
        raise U("%s: _render_snippet: code_snippet(.., .., <int>, <int>) not found" % rel)

    out = [api.HEADER + "namespace Clikit.Gen.C20\n"]
    for py, lean in THEME_KEYS:
        out.append("/-- `Highlighter.DEFAULT_THEME[%s]` = %r -/" % (py, theme[py]))
        out.append("def %s : List Char := %s" % (lean, _chars(theme[py])))
    for b, suffix in ((False, "Ascii"), (True, "Utf8")):
        out.append("def arrow%s : List Char := %s" % (suffix, _chars(ui[b]["arrow"])))
        out.append("def delimiter%s : List Char := %s" % (suffix, _chars(ui[b]["delimiter"])))
    out.append("/-- defaults of `code_snippet(source, line, lines_before, lines_after)` -/")
    out.append("def defaultBefore : Nat := %d\ndef defaultAfter : Nat := %d" % (dflt[0], dflt[1]))
    out.append("/-- the window `_render_snippet` asks for -/")
    out.append("def snippetBefore : Nat := %d\ndef snippetAfter : Nat := %d" % (win[0], win[1]))
    out.append("/-- `max_line_length = max(%d, len(str(len(lines))))` -/" % minw)
    out.append("def minNumberWidth : Nat := %d" % minw)
    out.append("\nend Clikit.Gen.C20\n")
    return {"C20.lean": "\n".join(out)}
