"""C20: the tables of `Highlighter` / `ExceptionTrace` the trace model uses, read from the current
source of src/clikit/ui/components/exception_trace.py with `ast`:

  * `Highlighter.DEFAULT_THEME` (token class -> style string), `Highlighter.UI` (arrow / delimiter),
  * the default `lines_before` / `lines_after` of `code_snippet` and the window `_render_snippet` asks for,
  * the minimum line-number width of `line_numbers`.
"""
import ast


def _chars(s):
    def one(ch):
        if ch == "'":
            return "'\\''"
        if ch == "\\":
            return "'\\\\'"
        if ch == "\n":
            return "'\\n'"
        return "'%s'" % ch
    return "[" + ", ".join(one(c) for c in s) + "]"


THEME_KEYS = [("TOKEN_DEFAULT", "tokenDefault"), ("TOKEN_COMMENT", "tokenComment"), ("TOKEN_STRING", "tokenString"),
              ("TOKEN_NUMBER", "tokenNumber"), ("TOKEN_KEYWORD", "tokenKeyword"), ("TOKEN_BUILTIN", "tokenBuiltin"),
              ("TOKEN_OP", "tokenOp"), ("LINE_MARKER", "lineMarker"), ("LINE_NUMBER", "lineNumber")]


def generate(api):
    tree, rel = api.parse("ui/components/exception_trace.py")
    U = api.P.Untranslatable
    P = api.P
    hl = P.find_class(tree, "Highlighter", rel)
    # class-level tables: every name is bound exactly once in the class body, nothing assigns `X.NAME` / `X.NAME[...]`
    strs = {k: v for k, v in P.class_literals(tree, "Highlighter", rel).items() if isinstance(v, str)}
    theme, ui = None, None
    for name in ("DEFAULT_THEME", "UI"):
        sts = [n for n in hl.body if isinstance(n, ast.Assign) and len(n.targets) == 1 and isinstance(n.targets[0], ast.Name)
               and n.targets[0].id == name]
        if len(sts) != 1 or P._other_bindings(hl.body, name, sts[0]) or not isinstance(sts[0].value, ast.Dict):
            raise U("%s: Highlighter.%s is not one dict literal" % (rel, name))
        n = sts[0]
        if name == "DEFAULT_THEME":
            theme = {}
            for k, v in zip(n.value.keys, n.value.values):
                if not (isinstance(k, ast.Name) and isinstance(v, ast.Constant) and isinstance(v.value, str)):
                    raise U("%s: DEFAULT_THEME entry not of the form NAME: 'style'" % rel)
                if k.id in theme:
                    raise U("%s: DEFAULT_THEME has the key %s twice" % (rel, k.id))
                theme[k.id] = v.value
        else:
            ui = {}
            for k, v in zip(n.value.keys, n.value.values):
                if not (isinstance(k, ast.Constant) and isinstance(k.value, bool) and isinstance(v, ast.Dict)) or k.value in ui:
                    raise U("%s: UI entry not of the form bool: {...}" % rel)
                if not all(isinstance(kk, ast.Constant) and isinstance(kk.value, str) and isinstance(vv, ast.Constant)
                           and isinstance(vv.value, str) for kk, vv in zip(v.keys, v.values)) \
                        or len(set(kk.value for kk in v.keys)) != len(v.keys):
                    raise U("%s: UI[%s] is not a dict of string literals" % (rel, k.value))
                ui[k.value] = dict((kk.value, vv.value) for kk, vv in zip(v.keys, v.values))
    for x in ast.walk(tree):
        if isinstance(x, ast.Attribute) and x.attr in ("DEFAULT_THEME", "UI") and isinstance(x.ctx, (ast.Store, ast.Del)):
            raise U("%s:%d: Highlighter.%s is rebound" % (rel, x.lineno, x.attr))
        if isinstance(x, ast.Subscript) and isinstance(x.ctx, (ast.Store, ast.Del)) and isinstance(x.value, ast.Attribute) \
                and x.value.attr in ("DEFAULT_THEME", "UI"):
            raise U("%s:%d: an entry of Highlighter.%s is assigned" % (rel, x.lineno, x.value.attr))
        if isinstance(x, ast.Attribute) and isinstance(x.value, ast.Attribute) and x.value.attr in ("DEFAULT_THEME", "UI") \
                and x.attr not in ("copy", "get", "keys", "values", "items"):
            raise U("%s:%d: Highlighter.%s.%s(...): the table may be changed at run time" % (rel, x.lineno, x.value.attr, x.attr))
    for py, _ in THEME_KEYS:
        if py not in theme or py not in strs:
            raise U("%s: theme key %s missing" % (rel, py))
    if len(set(strs[py] for py in theme)) != len(theme):
        raise U("%s: two token classes of DEFAULT_THEME have the same key string" % rel)
    for b in (False, True):
        if b not in ui or sorted(ui[b]) != ["arrow", "delimiter"]:
            raise U("%s: Highlighter.UI[%s] must have arrow and delimiter" % (rel, b))
    # the instance takes the tables as they are
    hinit = P.find_function(tree, "Highlighter", "__init__", rel, decorators=())
    P.Template("""
        def __init__(self, V_utf8=True):
            self._theme = self.DEFAULT_THEME.copy()
            self._ui = self.UI[V_utf8]
    """).match([hinit], rel, "Highlighter.__init__")
    for attr in ("_theme", "_ui"):
        for x in ast.walk(hl):
            if isinstance(x, ast.Attribute) and x.attr == attr and isinstance(x.ctx, (ast.Store, ast.Del)) \
                    and not any(x is y for y in ast.walk(hinit)):
                raise U("%s:%d: Highlighter.%s is rebound outside __init__" % (rel, x.lineno, attr))
            if isinstance(x, ast.Subscript) and isinstance(x.ctx, (ast.Store, ast.Del)) and isinstance(x.value, ast.Attribute) \
                    and x.value.attr == attr:
                raise U("%s:%d: an entry of Highlighter.%s is assigned" % (rel, x.lineno, attr))

    # code_snippet(self, source, line, lines_before=2, lines_after=2): the whole body is matched
    cs = P.find_function(tree, "Highlighter", "code_snippet", rel, decorators=())
    args = [a.arg for a in cs.args.args]
    if args != ["self", "source", "line", "lines_before", "lines_after"] or len(cs.args.defaults) != 2 \
            or cs.args.vararg or cs.args.kwarg or cs.args.kwonlyargs:
        raise U("%s: code_snippet signature changed: %s" % (rel, args))
    if not all(isinstance(d, ast.Constant) and isinstance(d.value, int) and not isinstance(d.value, bool) and d.value >= 0
               for d in cs.args.defaults):
        raise U("%s: code_snippet: the defaults are not natural numbers" % rel)
    dflt = [d.value for d in cs.args.defaults]
    P.Template("""
        V_lines = self.highlighted_lines(source)
        V_lines = self.line_numbers(V_lines, line)
        V_offset = line - lines_before - 1
        V_offset = max(V_offset, 0)
        V_length = lines_after + lines_before + 1
        V_lines = V_lines[V_offset:V_offset + V_length]
        return V_lines
    """).match(cs.body, rel, "Highlighter.code_snippet")
    # line_numbers: max_line_length = max(3, len(str(len(lines)))) - the one binding of that variable
    ln = P.find_function(tree, "Highlighter", "line_numbers", rel, decorators=())
    if [a.arg for a in ln.args.args][:2] != ["self", "lines"]:
        raise U("%s: line_numbers(self, lines, ...) expected" % rel)
    first = P.strip_doc(ln.body)[0] if P.strip_doc(ln.body) else None
    bw = P.Template("max_line_length = max(CONST_w, len(str(len(lines))))").try_match([first] if first is not None else [])
    stores = [x for x in ast.walk(ln) if isinstance(x, ast.Name) and x.id in ("max_line_length", "lines", "max", "len", "str")
              and isinstance(x.ctx, (ast.Store, ast.Del))]
    if bw is None or len(stores) != 1:
        raise U("%s: line_numbers: max_line_length = max(<int>, len(str(len(lines)))) as the first statement and only "
                "binding not found" % rel)
    minw = bw["w"].value
    if not isinstance(minw, int) or isinstance(minw, bool):
        raise U("%s: line_numbers: max_line_length = max(<int>, ...) not found" % rel)
    # _render_snippet: code_snippet(frame.file_content, frame.lineno, 4, 4) - the one mention of code_snippet in that method
    rs = P.inline_literals(P.find_function(tree, "ExceptionTrace", "_render_snippet", rel, decorators=()), tree, "ExceptionTrace")
    mine = [n for n in ast.walk(rs) if isinstance(n, ast.Call) and isinstance(n.func, ast.Attribute) and n.func.attr == "code_snippet"]
    named = [n for n in ast.walk(rs) if isinstance(n, ast.Attribute) and n.attr == "code_snippet"
             or isinstance(n, ast.Constant) and n.value == "code_snippet"]
    win = None
    if len(named) == 1 and len(mine) == 1:
        n = mine[0]
        extra = n.args[2:]
        if (len(n.args) == 4 and not n.keywords and isinstance(n.func.value, ast.Call)
                and ast.unparse(n.func.value.func) == "Highlighter"
                and [ast.unparse(a) for a in n.args[:2]] == ["frame.file_content", "frame.lineno"]
                and all(isinstance(a, ast.Constant) and isinstance(a.value, int) and not isinstance(a.value, bool)
                        and a.value >= 0 for a in extra)):
            win = [a.value for a in extra]
    if win is None:
        raise U("%s: _render_snippet: exactly one Highlighter(...).code_snippet(frame.file_content, frame.lineno, <int>, <int>) "
                "not found" % rel)

    out = [api.HEADER + "namespace Clikit.Gen.C20\n"]
    for py, lean in THEME_KEYS:
        out.append("/-- `Highlighter.DEFAULT_THEME[%s]` = %r -/" % (py, theme[py]))
        out.append("def %s : List Char := %s" % (lean, _chars(theme[py])))
    for b, suffix in ((False, "Ascii"), (True, "Utf8")):
        out.append("def arrow%s : List Char := %s" % (suffix, _chars(ui[b]["arrow"])))
        out.append("def delimiter%s : List Char := %s" % (suffix, _chars(ui[b]["delimiter"])))
    out.append("/-- defaults of `code_snippet(source, line, lines_before, lines_after)` -/")
    out.append("def defaultBefore : Nat := %d\ndef defaultAfter : Nat := %d" % (dflt[0], dflt[1]))
    out.append("/-- the window `_render_snippet` asks for -/")
    out.append("def snippetBefore : Nat := %d\ndef snippetAfter : Nat := %d" % (win[0], win[1]))
    out.append("/-- `max_line_length = max(%d, len(str(len(lines))))` -/" % minw)
    out.append("def minNumberWidth : Nat := %d" % minw)
    out.append("\nend Clikit.Gen.C20\n")
    return {"C20.lean": "\n".join(out)}
