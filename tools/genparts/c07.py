"""
C07: more decision logic of Option / Argument translated from the current source (tie A).

  Gen/C07.lean
    optParseKind / argParseKind          which converter `parse` selects for a flag word
                                         (0 parse_string, 1 parse_boolean, 2 parse_int, 3 parse_float)
    optParseNullable / argParseNullable  the `nullable` argument `parse` passes on
    optSetDefaultKind / argSetDefaultKind  `set_default` over default *kinds*
                                         (0 None, 1 a non-list value, 2 a list)

The source is parsed with `ast`; before handing a function to tools/py2lean.py the constructs
outside its subset are rewritten *syntactically* (documented below, nothing is evaluated):

  parse:        return parse_T(value, nullable)   ->  return <code of T>
                nullable = bool(<expr>)            ->  its own function returning <expr> as bool
  set_default:  default is None                    ->  default == 0
                isinstance(default, list)          ->  default == 2
                default = []                       ->  default = 2
                self._default = default            ->  return default

Any other shape raises Untranslatable (reported as a broken tie, never skipped).
"""
import ast
import copy

KINDS = {"parse_string": 0, "parse_boolean": 1, "parse_int": 2, "parse_float": 3}
DEF_NONE, DEF_SCALAR, DEF_LIST = 0, 1, 2


def _const(n, like):
    return ast.copy_location(ast.Constant(value=n), like)


class _ParseRewrite(ast.NodeTransformer):
    def __init__(self, P, rel):
        self.P, self.rel, self.nullable_expr, self.seen = P, rel, None, set()

    def visit_Assign(self, node):
        # nullable = bool(self._flags & self.NULLABLE)
        if (len(node.targets) == 1 and isinstance(node.targets[0], ast.Name) and node.targets[0].id == "nullable"):
            if self.nullable_expr is not None:
                raise self.P.Untranslatable("%s:%d: `nullable` assigned twice" % (self.rel, node.lineno))
            self.nullable_expr = node.value
            return None
        raise self.P.Untranslatable("%s:%d: unexpected assignment in parse()" % (self.rel, node.lineno))

    def visit_Return(self, node):
        v = node.value
        if (isinstance(v, ast.Call) and isinstance(v.func, ast.Name) and v.func.id in KINDS and len(v.args) == 2
                and isinstance(v.args[0], ast.Name) and v.args[0].id == "value"
                and isinstance(v.args[1], ast.Name) and v.args[1].id == "nullable" and not v.keywords):
            self.seen.add(v.func.id)
            return ast.copy_location(ast.Return(value=_const(KINDS[v.func.id], node)), node)
        raise self.P.Untranslatable("%s:%d: parse() returns something other than parse_T(value, nullable)"
                                    % (self.rel, node.lineno))


class _SetDefaultRewrite(ast.NodeTransformer):
    def __init__(self, P, rel):
        self.P, self.rel, self.stored = P, rel, 0

    def _is_default(self, n):
        return isinstance(n, ast.Name) and n.id == "default"

    def visit_Raise(self, node):
        return node  # only the exception class is kept by the translation; its message may quote `default`

    def visit_Name(self, node):
        # the translated function sees the KIND of the default (0/1/2), so `default` may only be used in the three
        # ways that are rewritten here; `if not default`, `default == 0`, `len(default)` ... would be taken for
        # arithmetic on the kind
        if node.id == "default":
            raise self.P.Untranslatable("%s:%d: set_default() uses `default` other than in `default is None`, "
                                        "`isinstance(default, list)`, `default = []`, `self._default = default`"
                                        % (self.rel, node.lineno))
        return node

    def visit_Compare(self, node):
        if (len(node.ops) == 1 and isinstance(node.ops[0], (ast.Is, ast.IsNot)) and self._is_default(node.left)
                and isinstance(node.comparators[0], ast.Constant) and node.comparators[0].value is None):
            op = ast.Eq() if isinstance(node.ops[0], ast.Is) else ast.NotEq()
            return ast.copy_location(ast.Compare(left=node.left, ops=[op], comparators=[_const(DEF_NONE, node)]), node)
        return self.generic_visit(node)

    def visit_Call(self, node):
        if (isinstance(node.func, ast.Name) and node.func.id == "isinstance" and len(node.args) == 2
                and self._is_default(node.args[0]) and isinstance(node.args[1], ast.Name)
                and node.args[1].id == "list"):
            return ast.copy_location(ast.Compare(left=node.args[0], ops=[ast.Eq()],
                                                 comparators=[_const(DEF_LIST, node)]), node)
        return self.generic_visit(node)

    def visit_Assign(self, node):
        t = node.targets[0] if len(node.targets) == 1 else None
        if self._is_default(t) and isinstance(node.value, ast.List) and not node.value.elts:
            return ast.copy_location(ast.Assign(targets=[t], value=_const(DEF_LIST, node)), node)
        if (isinstance(t, ast.Attribute) and isinstance(t.value, ast.Name) and t.value.id == "self"
                and t.attr == "_default" and self._is_default(node.value)):
            self.stored += 1
            return ast.copy_location(ast.Return(value=node.value), node)
        raise self.P.Untranslatable("%s:%d: unexpected assignment in set_default()" % (self.rel, node.lineno))


def generate(api):
    P = api.P
    out = []

    def consts(tree, cls, rel, ns, base=None):
        d = P.class_int_consts(tree, cls, rel)
        m = dict(base or {})
        m.update({k: ns + "." + k for k in d})
        return m

    tree_ao, rel_ao = api.parse("api/args/format/abstract_option.py")
    tree_o, rel_o = api.parse("api/args/format/option.py")
    tree_a, rel_a = api.parse("api/args/format/argument.py")
    omap = consts(tree_o, "Option", rel_o, "OptFlags", consts(tree_ao, "AbstractOption", rel_ao, "AbsOptFlags"))
    amap = consts(tree_a, "Argument", rel_a, "ArgFlags")

    def fix_sig(text, lean, extra):
        # the fields of `self` a method reads become leading parameters
        for pat in ("def %s  :" % lean, "def %s (" % lean):
            if pat in text:
                return text.replace(pat, "def %s %s%s" % (lean, extra, " :" if pat.endswith(":") else " ("), 1)
        raise P.Untranslatable("signature of %s not found" % lean)

    def do_parse(tree, rel, cls, cmap, prefix):
        fn = copy.deepcopy(P.find_function(tree, cls, "parse", rel))
        if [a.arg for a in fn.args.args] != ["self", "value"]:
            raise P.Untranslatable("%s:%d: %s.parse(self, value) expected" % (rel, fn.lineno, cls))
        for k in KINDS:
            P.imported_as(tree, k, ("clikit.utils.string",), rel)
        rw = _ParseRewrite(P, rel)
        fn = ast.fix_missing_locations(rw.visit(fn))
        if rw.nullable_expr is None or rw.seen != set(KINDS):
            raise P.Untranslatable("%s: %s.parse does not have the expected shape" % (rel, cls))
        attrs = {"_flags": ("flags", "nat")}
        t = P.Translator(rel, cmap, P.FnSpec(prefix + "ParseKind", [], "nat", self_attrs=attrs))
        out.append("-- %s  %s.parse (line %d): converter selected\n" % (rel, cls, fn.lineno)
                   + fix_sig(t.function(fn), prefix + "ParseKind", "(flags : Nat)"))
        nf = ast.FunctionDef(name="nullable", args=fn.args, body=[ast.Return(value=rw.nullable_expr)],
                             decorator_list=[], lineno=fn.lineno, col_offset=0)
        ast.fix_missing_locations(nf)
        t = P.Translator(rel, cmap, P.FnSpec(prefix + "ParseNullable", [], "bool", self_attrs=attrs))
        out.append("-- %s  %s.parse (line %d): the `nullable` it passes on\n" % (rel, cls, fn.lineno)
                   + fix_sig(t.function(nf), prefix + "ParseNullable", "(flags : Nat)"))

    def do_set_default(tree, rel, cls, cmap, prefix, calls):
        fn = copy.deepcopy(P.find_function(tree, cls, "set_default", rel))
        if [a.arg for a in fn.args.args] != ["self", "default"]:
            raise P.Untranslatable("%s:%d: %s.set_default(self, default) expected" % (rel, fn.lineno, cls))
        rw = _SetDefaultRewrite(P, rel)
        fn = ast.fix_missing_locations(rw.visit(fn))
        if rw.stored != 1:
            raise P.Untranslatable("%s: %s.set_default does not store the default exactly once" % (rel, cls))

        # the store became a `return`: it must be the last thing the function does on its path
        def tail(stmts, is_tail):
            for i, st in enumerate(stmts):
                last = is_tail and i == len(stmts) - 1
                if isinstance(st, ast.Return) and not last:
                    raise P.Untranslatable("%s:%d: %s.set_default goes on after `self._default = default`"
                                           % (rel, st.lineno, cls))
                if isinstance(st, ast.If):
                    tail(st.body, last)
                    tail(st.orelse, last)
        if any(isinstance(n, ast.Return) and n.value is None for n in ast.walk(fn)):
            raise P.Untranslatable("%s: %s.set_default returns early" % (rel, cls))
        tail(fn.body, True)
        spec = P.FnSpec(prefix + "SetDefaultKind", [("default", "default", "nat")], "except_nat",
                        calls={py: (lean, ["flags"], "bool") for py, lean in calls.items()})
        t = P.Translator(rel, cmap, spec, cls=cls)
        out.append("-- %s  %s.set_default (line %d) over default kinds (0 None, 1 non-list, 2 list)\n"
                   % (rel, cls, fn.lineno)
                   + fix_sig(t.function(fn), prefix + "SetDefaultKind", "(flags : Nat)"))

    do_parse(tree_o, rel_o, "Option", omap, "opt")
    do_parse(tree_a, rel_a, "Argument", amap, "arg")
    do_set_default(tree_o, rel_o, "Option", omap, "opt",
                   {"accepts_value": "optAcceptsValue", "is_multi_valued": "optIsMultiValued"})
    do_set_default(tree_a, rel_a, "Argument", amap, "arg",
                   {"is_required": "argIsRequired", "is_multi_valued": "argIsMultiValued"})
    text = (api.HEADER + "import Clikit.Gen.Logic\nnamespace Clikit.Gen\n\n" + "\n".join(out)
            + "\nend Clikit.Gen\n")
    return {"C07.lean": text}
