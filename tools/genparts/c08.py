"""
Tie A for C08 (tokenizer): lean/Clikit/Gen/C08.lean

* the `str.isspace` table of the RUNNING interpreter (all 0x110000 code points), as a compact
  list of inclusive code-point ranges plus `isSpace : Char -> Bool` testing membership;
* shape checks on src/clikit/args/token_parser.py with `ast` (no import): TokenParser still has
  the methods the hand-written model mirrors, still tests whitespace with `<x>.isspace()` in
  `_parse` and `_parse_token`, still compares with the three literals  \\  '  "  and nothing else,
  and the RawArgs implementations still compute option_tokens with `itertools.takewhile(... != "--")`.
  The option-token separator found is emitted as a constant.
"""
import ast
import sys


METHODS = ["parse", "_parse", "_is_valid", "_next", "_parse_token", "_parse_quoted_string",
           "_parse_escape_sequence"]


def _space_ranges():
    ranges = []
    start = None
    for cp in range(sys.maxunicode + 1):
        sp = chr(cp).isspace()
        if sp and start is None:
            start = cp
        elif not sp and start is not None:
            ranges.append((start, cp - 1))
            start = None
    if start is not None:
        ranges.append((start, sys.maxunicode))
    return ranges


def _methods(tree, cls, rel, P):
    node = P.find_class(tree, cls, rel)
    out = {}
    for n in node.body:
        if isinstance(n, ast.FunctionDef):
            if n.name in out or n.decorator_list:
                raise P.Untranslatable("%s:%d: %s.%s is defined twice or decorated" % (rel, n.lineno, cls, n.name))
            out[n.name] = n
    return out


def _isspace_calls(fn):
    """`self._current.isspace()` calls used as an `if` test inside fn"""
    hits = 0
    for node in ast.walk(fn):
        if isinstance(node, ast.If):
            t = node.test
            if (isinstance(t, ast.Call) and isinstance(t.func, ast.Attribute) and t.func.attr == "isspace"
                    and not t.args and isinstance(t.func.value, ast.Attribute)
                    and t.func.value.attr == "_current"):
                hits += 1
    return hits


def _str_literals(fn):
    out = set()
    for node in ast.walk(fn):
        if isinstance(node, ast.Constant) and isinstance(node.value, str):
            out.add(node.value)
    return out


def _calls(fn):
    out = []
    for node in ast.walk(fn):
        if (isinstance(node, ast.Call) and isinstance(node.func, ast.Attribute)
                and isinstance(node.func.value, ast.Name) and node.func.value.id == "self"):
            out.append(node.func.attr)
    return out


def _check_token_parser(api):
    P = api.P
    tree, rel = api.parse("args/token_parser.py")
    ms = _methods(tree, "TokenParser", rel, P)
    for m in METHODS:
        if m not in ms:
            raise P.Untranslatable("%s: TokenParser.%s not found (the tokenizer model mirrors it)" % (rel, m))
    for m in ("_parse", "_parse_token"):
        if _isspace_calls(ms[m]) != 1:
            raise P.Untranslatable("%s: TokenParser.%s no longer tests whitespace with self._current.isspace()" % (rel, m))
    for m in ("_parse_quoted_string", "_parse_escape_sequence"):
        if _isspace_calls(ms[m]) != 0:
            raise P.Untranslatable("%s: TokenParser.%s tests whitespace (the model does not)" % (rel, m))
    # literals the scanner compares with / emits
    want = {
        "_parse_token": {"", "\\", "'", '"'},
        "_parse_quoted_string": {"", "\\", "'", '"', '"{}"', "'{}'"},
        "_parse_escape_sequence": {"\\", "'", '"'},
    }
    for m, lits in want.items():
        got = _str_literals(ms[m])
        doc = ast.get_docstring(ms[m])
        if doc:
            got.discard(doc)
        if got != lits:
            raise P.Untranslatable("%s: TokenParser.%s uses the string literals %s, the model expects %s"
                                   % (rel, m, sorted(got), sorted(lits)))
    # call structure (who advances, who recurses)
    shape = {
        "_parse": ["_is_valid", "_next", "_is_valid", "_parse_token"],
        "_parse_token": ["_is_valid", "_next", "_parse_escape_sequence", "_parse_quoted_string", "_next"],
        "_parse_quoted_string": ["_next", "_is_valid", "_next", "_parse_escape_sequence",
                                 "_parse_quoted_string", "_parse_quoted_string", "_next"],
        "_parse_escape_sequence": ["_next", "_next"],
    }
    for m, calls in shape.items():
        got = _calls(ms[m])
        if sorted(got) != sorted(calls):
            raise P.Untranslatable("%s: TokenParser.%s calls %s, the model expects %s" % (rel, m, got, calls))


# The tokenizer model (lean/Clikit/Model/...) is written by hand against these methods; nothing is generated from them.
# The checks above say WHAT moved when a familiar thing moves; this is the net under them: the text of every method
# (docstrings and comments aside) is the text the model was validated against, else the part counts as unread and the
# correspondence run carries the tie.  (sha256 of `ast.unparse` of the parameters and of each statement, first 16 hex
# digits; the same under Python 3.11 and 3.12.  Re-pin only together with a re-validation of the model.)
PINNED = {
    "__init__": "56773e89a2693166", "parse": "8c0c476b8746b2b9", "_parse": "6a7909f8d44ef933",
    "_is_valid": "47934d6d12688924", "_next": "d4c598bb3e9913f9", "_parse_token": "41c99abcc38cde39",
    "_parse_quoted_string": "9625462f43120aa9", "_parse_escape_sequence": "c42de3d147a133ff",
}


def _check_pinned(api):
    import hashlib
    P = api.P
    tree, rel = api.parse("args/token_parser.py")
    ms = _methods(tree, "TokenParser", rel, P)
    if sorted(ms) != sorted(PINNED):
        raise P.Untranslatable("%s: TokenParser has the methods %s, the tokenizer model was written against %s"
                               % (rel, sorted(ms), sorted(PINNED)))
    for name, fn in ms.items():
        text = ast.unparse(fn.args) + "\n" + "\n".join(ast.unparse(st) for st in P.strip_doc(fn.body))
        if hashlib.sha256(text.encode()).hexdigest()[:16] != PINNED[name]:
            raise P.Untranslatable("%s:%d: TokenParser.%s is not the text the hand-written tokenizer model was validated "
                                   "against" % (rel, fn.lineno, name))
    P.check_bases(tree, "TokenParser", [], rel)


def _check_option_tokens(api):
    """option_tokens = list(itertools.takewhile(lambda arg: arg != "--", self.tokens)) in both raw-args kinds.

    Strict: `self._option_tokens` is assigned exactly once in the class, by the LAST statement of `__init__`, with exactly
    that expression over `self.tokens` / `self._tokens`; `self._tokens` is assigned exactly once (a statement of
    `__init__`); neither list is rebound, sliced into or mutated through the attribute anywhere in the class; the
    properties `tokens` / `option_tokens` return the stored lists and do nothing else."""
    P = api.P
    U = P.Untranslatable
    seps = set()
    for relpath, cls in (("args/string_args.py", "StringArgs"), ("args/argv_args.py", "ArgvArgs")):
        tree, rel = api.parse(relpath)
        cnode = P.find_class(tree, cls, rel)
        init = P.find_function(tree, cls, "__init__", rel, decorators=())
        for prop, attr in (("tokens", "_tokens"), ("option_tokens", "_option_tokens")):
            f = P.find_function(tree, cls, prop, rel, decorators=("property",))
            body = P.strip_doc(f.body)
            if not (len(f.decorator_list) == 1 and len(body) == 1 and isinstance(body[0], ast.Return)
                    and body[0].value is not None and ast.unparse(body[0].value) == "self." + attr
                    and [x.arg for x in f.args.args] == ["self"]):
                raise U("%s:%d: %s.%s is no longer a property that returns self.%s" % (rel, f.lineno, cls, prop, attr))
        body = P.strip_doc(init.body)
        last = body[-1] if body else None
        if not (isinstance(last, ast.Assign) and len(last.targets) == 1
                and ast.unparse(last.targets[0]) == "self._option_tokens"):
            raise U("%s:%d: %s.__init__ does not end with `self._option_tokens = ...`" % (rel, init.lineno, cls))
        # the two lists: one assignment each, no other way of changing them through the attribute
        stores = {"_tokens": [], "_option_tokens": []}
        for n in ast.walk(cnode):
            if isinstance(n, ast.Attribute) and n.attr in stores and isinstance(n.ctx, (ast.Store, ast.Del)):
                stores[n.attr].append(n)
            if isinstance(n, ast.Attribute) and isinstance(n.value, ast.Attribute) and n.value.attr in stores \
                    and n.attr not in ("__contains__", "__len__", "__iter__", "index", "count", "copy"):
                raise U("%s:%d: %s: self.%s.%s: the token lists are changed after they were built"
                        % (rel, n.lineno, cls, n.value.attr, n.attr))
            if isinstance(n, ast.Subscript) and isinstance(n.value, ast.Attribute) and n.value.attr in stores \
                    and isinstance(n.ctx, (ast.Store, ast.Del)):
                raise U("%s:%d: %s: an element of self.%s is assigned" % (rel, n.lineno, cls, n.value.attr))
            if isinstance(n, ast.Constant) and n.value in stores:
                raise U("%s:%d: %s: the attribute name %r appears as a string" % (rel, n.lineno, cls, n.value))
        if len(stores["_option_tokens"]) != 1 or stores["_option_tokens"][0] is not last.targets[0]:
            raise U("%s: %s._option_tokens is assigned more than once" % (rel, cls))
        tok = [st for st in body if isinstance(st, ast.Assign) and len(st.targets) == 1
               and ast.unparse(st.targets[0]) == "self._tokens"]
        if len(stores["_tokens"]) != 1 or len(tok) != 1 or stores["_tokens"][0] is not tok[0].targets[0]:
            raise U("%s: %s._tokens is not assigned exactly once, by a statement of __init__" % (rel, cls))
        v = last.value
        ok = (isinstance(v, ast.Call) and isinstance(v.func, ast.Name) and v.func.id == "list" and len(v.args) == 1
              and not v.keywords)
        tw = v.args[0] if ok else None
        ok = ok and isinstance(tw, ast.Call) and len(tw.args) == 2 and not tw.keywords and isinstance(tw.args[0], ast.Lambda)
        if ok and ast.unparse(tw.func) == "itertools.takewhile":
            ok = any(isinstance(st, ast.Import) and any(al.name == "itertools" and al.asname is None for al in st.names)
                     for st in tree.body) and not P._other_bindings(
                         [st for st in tree.body if not isinstance(st, ast.Import)], "itertools", None)
        elif ok and ast.unparse(tw.func) == "takewhile":
            P.imported_as(tree, "takewhile", ("itertools",), rel)
        else:
            ok = False
        if ok:
            lam = tw.args[0]
            b = lam.body
            la = lam.args
            ok = (len(la.args) == 1 and not la.defaults and not la.vararg and not la.kwarg and not la.kwonlyargs
                  and not la.posonlyargs
                  and isinstance(b, ast.Compare) and len(b.ops) == 1 and isinstance(b.ops[0], ast.NotEq)
                  and isinstance(b.left, ast.Name) and b.left.id == la.args[0].arg
                  and isinstance(b.comparators[0], ast.Constant) and isinstance(b.comparators[0].value, str))
            ok = ok and ast.unparse(tw.args[1]) in ("self.tokens", "self._tokens")
        if not ok:
            raise U("%s:%d: %s._option_tokens is no longer list(itertools.takewhile(lambda a: a != <sep>, self.tokens))"
                    % (rel, last.lineno, cls))
        seps.add(b.comparators[0].value)
    if len(seps) != 1:
        raise U("StringArgs and ArgvArgs cut option tokens at different separators: %s" % sorted(seps))
    return seps.pop()


def _lean_char(ch):
    if ch == "'":
        return "'\\''"
    if ch == "\\":
        return "'\\\\'"
    if ch == '"':
        return "'\"'"
    return "'%s'" % ch


def generate(api):
    _check_token_parser(api)
    _check_pinned(api)
    sep = _check_option_tokens(api)
    ranges = _space_ranges()
    n = sum(hi - lo + 1 for lo, hi in ranges)
    lines = [api.HEADER.rstrip("\n"),
             "-- tools/genparts/c08.py: `str.isspace` of the running interpreter (all code points)",
             "-- and the literals of src/clikit/args/token_parser.py / string_args.py / argv_args.py.",
             "namespace Clikit.Gen.C08", "",
             "/-- inclusive code-point ranges on which `str.isspace()` is true (%d code points) -/" % n,
             "def spaceRanges : List (Nat × Nat) :=",
             "  [" + ", ".join("(0x%X, 0x%X)" % r for r in ranges) + "]", "",
             "/-- `c.isspace()` for a one-character string -/",
             "def isSpace (c : Char) : Bool :=",
             "  spaceRanges.any (fun r => r.1 ≤ c.toNat && c.toNat ≤ r.2)", "",
             "/-- the token after which nothing counts as an option token (StringArgs and ArgvArgs) -/",
             "def optionsEnd : List Char := [%s]" % ", ".join(_lean_char(c) for c in sep), "",
             "end Clikit.Gen.C08", ""]
    return {"C08.lean": "\n".join(lines)}
