"""
Tie A for C08 (tokenizer): lean/Clikit/Gen/C08.lean

* the `str.isspace` table of the RUNNING interpreter (all 0x110000 code points), as a compact
  list of inclusive code-point ranges plus `isSpace : Char -> Bool` testing membership;
* shape checks on src/clikit/args/token_parser.py with `ast` (no import): TokenParser still has
  the methods the hand-written model mirrors, still tests whitespace with `<x>.isspace()` in
  `_parse` and `_parse_token`, still compares with the three literals  \\  '  "  and nothing else,
  and the RawArgs implementations still compute option_tokens with `itertools.takewhile(... != "--")`.
  The option-token separator found is emitted as a constant.
"""
import ast
import sys


METHODS = ["parse", "_parse", "_is_valid", "_next", "_parse_token", "_parse_quoted_string",
           "_parse_escape_sequence"]


def _space_ranges():
    ranges = []
    start = None
    for cp in range(sys.maxunicode + 1):
        sp = chr(cp).isspace()
        if sp and start is None:
            start = cp
        elif not sp and start is not None:
            ranges.append((start, cp - 1))
            start = None
    if start is not None:
        ranges.append((start, sys.maxunicode))
    return ranges


def _methods(tree, cls, rel, P):
    for node in tree.body:
        if isinstance(node, ast.ClassDef) and node.name == cls:
            return {n.name: n for n in node.body if isinstance(n, ast.FunctionDef)}
    raise P.Untranslatable("%s: class %s not found" % (rel, cls))


def _isspace_calls(fn):
    """`self._current.isspace()` calls used as an `if` test inside fn"""
    hits = 0
    for node in ast.walk(fn):
        if isinstance(node, ast.If):
            t = node.test
            if (isinstance(t, ast.Call) and isinstance(t.func, ast.Attribute) and t.func.attr == "isspace"
                    and not t.args and isinstance(t.func.value, ast.Attribute)
                    and t.func.value.attr == "_current"):
                hits += 1
    return hits


def _str_literals(fn):
    out = set()
    for node in ast.walk(fn):
        if isinstance(node, ast.Constant) and isinstance(node.value, str):
            out.add(node.value)
    return out


def _calls(fn):
    out = []
    for node in ast.walk(fn):
        if (isinstance(node, ast.Call) and isinstance(node.func, ast.Attribute)
                and isinstance(node.func.value, ast.Name) and node.func.value.id == "self"):
            out.append(node.func.attr)
    return out


def _check_token_parser(api):
    P = api.P
    tree, rel = api.parse("args/token_parser.py")
    ms = _methods(tree, "TokenParser", rel, P)
    for m in METHODS:
        if m not in ms:
            raise P.Untranslatable("%s: TokenParser.%s not found (the tokenizer model mirrors it)" % (rel, m))
    for m in ("_parse", "_parse_token"):
        if _isspace_calls(ms[m]) != 1:
            raise P.Untranslatable("%s: TokenParser.%s no longer tests whitespace with self._current.isspace()" % (rel, m))
    for m in ("_parse_quoted_string", "_parse_escape_sequence"):
        if _isspace_calls(ms[m]) != 0:
            raise P.Untranslatable("%s: TokenParser.%s tests whitespace (the model does not)" % (rel, m))
    # literals the scanner compares with / emits
    want = {
        "_parse_token": {"", "\\", "'", '"'},
        "_parse_quoted_string": {"", "\\", "'", '"', '"{}"', "'{}'"},
        "_parse_escape_sequence": {"\\", "'", '"'},
    }
    for m, lits in want.items():
        got = _str_literals(ms[m])
        doc = ast.get_docstring(ms[m])
        if doc:
            got.discard(doc)
        if got != lits:
            raise P.Untranslatable("%s: TokenParser.%s uses the string literals %s, the model expects %s"
                                   % (rel, m, sorted(got), sorted(lits)))
    # call structure (who advances, who recurses)
    shape = {
        "_parse": ["_is_valid", "_next", "_is_valid", "_parse_token"],
        "_parse_token": ["_is_valid", "_next", "_parse_escape_sequence", "_parse_quoted_string", "_next"],
        "_parse_quoted_string": ["_next", "_is_valid", "_next", "_parse_escape_sequence",
                                 "_parse_quoted_string", "_parse_quoted_string", "_next"],
        "_parse_escape_sequence": ["_next", "_next"],
    }
    for m, calls in shape.items():
        got = _calls(ms[m])
        if sorted(got) != sorted(calls):
            raise P.Untranslatable("%s: TokenParser.%s calls %s, the model expects %s" % (rel, m, got, calls))


def _check_option_tokens(api):
    """option_tokens = list(itertools.takewhile(lambda arg: arg != "--", self.tokens)) in both raw-args kinds"""
    P = api.P
    seps = set()
    for relpath, cls in (("args/string_args.py", "StringArgs"), ("args/argv_args.py", "ArgvArgs")):
        tree, rel = api.parse(relpath)
        ms = _methods(tree, cls, rel, P)
        if "__init__" not in ms or "option_tokens" not in ms or "tokens" not in ms:
            raise P.Untranslatable("%s: %s lacks __init__/tokens/option_tokens" % (rel, cls))
        found = False
        for node in ast.walk(ms["__init__"]):
            if not (isinstance(node, ast.Assign) and len(node.targets) == 1
                    and isinstance(node.targets[0], ast.Attribute) and node.targets[0].attr == "_option_tokens"):
                continue
            v = node.value
            ok = (isinstance(v, ast.Call) and isinstance(v.func, ast.Name) and v.func.id == "list" and len(v.args) == 1)
            tw = v.args[0] if ok else None
            ok = ok and (isinstance(tw, ast.Call) and isinstance(tw.func, ast.Attribute) and tw.func.attr == "takewhile"
                         and len(tw.args) == 2 and isinstance(tw.args[0], ast.Lambda))
            if ok:
                lam = tw.args[0]
                b = lam.body
                ok = (isinstance(b, ast.Compare) and len(b.ops) == 1 and isinstance(b.ops[0], ast.NotEq)
                      and isinstance(b.left, ast.Name) and b.left.id == lam.args.args[0].arg
                      and isinstance(b.comparators[0], ast.Constant) and isinstance(b.comparators[0].value, str))
                src = tw.args[1]
                ok = ok and isinstance(src, ast.Attribute) and src.attr in ("tokens", "_tokens")
            if not ok:
                raise P.Untranslatable("%s: %s._option_tokens is no longer list(itertools.takewhile(lambda a: a != <sep>, self.tokens))"
                                       % (rel, cls))
            seps.add(b.comparators[0].value)
            found = True
        if not found:
            raise P.Untranslatable("%s: %s.__init__ does not assign _option_tokens" % (rel, cls))
        # the property returns the stored list
        ret = [n for n in ast.walk(ms["option_tokens"]) if isinstance(n, ast.Return)]
        if not (len(ret) == 1 and isinstance(ret[0].value, ast.Attribute) and ret[0].value.attr == "_option_tokens"):
            raise P.Untranslatable("%s: %s.option_tokens no longer returns self._option_tokens" % (rel, cls))
    if len(seps) != 1:
        raise P.Untranslatable("StringArgs and ArgvArgs cut option tokens at different separators: %s" % sorted(seps))
    return seps.pop()


def _lean_char(ch):
    if ch == "'":
        return "'\\''"
    if ch == "\\":
        return "'\\\\'"
    if ch == '"':
        return "'\"'"
    return "'%s'" % ch


def generate(api):
    _check_token_parser(api)
    sep = _check_option_tokens(api)
    ranges = _space_ranges()
    n = sum(hi - lo + 1 for lo, hi in ranges)
    lines = [api.HEADER.rstrip("\n"),
             "-- tools/genparts/c08.py: `str.isspace` of the running interpreter (all code points)",
             "-- and the literals of src/clikit/args/token_parser.py / string_args.py / argv_args.py.",
             "namespace Clikit.Gen.C08", "",
             "/-- inclusive code-point ranges on which `str.isspace()` is true (%d code points) -/" % n,
             "def spaceRanges : List (Nat × Nat) :=",
             "  [" + ", ".join("(0x%X, 0x%X)" % r for r in ranges) + "]", "",
             "/-- `c.isspace()` for a one-character string -/",
             "def isSpace (c : Char) : Bool :=",
             "  spaceRanges.any (fun r => r.1 ≤ c.toNat && c.toNat ≤ r.2)", "",
             "/-- the token after which nothing counts as an option token (StringArgs and ArgvArgs) -/",
             "def optionsEnd : List Char := [%s]" % ", ".join(_lean_char(c) for c in sep), "",
             "end Clikit.Gen.C08", ""]
    return {"C08.lean": "\n".join(lines)}
