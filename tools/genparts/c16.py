"""C16: the tables and defaults of the progress bar, read with `ast` from the CURRENT source:

  ui/components/progress_bar.py   ProgressBar.formats, bar_width, bar_char, empty_bar_char,
                                  progress_char, redraw_freq, the constructor's defaults
                                  (min_seconds_between_redraws=…, self._min/_max_seconds_between_redraws = …)
  utils/time.py                   _TIME_FORMATS

Strings are emitted as explicit `List Char` literals so that `decide` can look at them."""
import ast
import textwrap
from fractions import Fraction


def _chars(s):
    def one(ch):
        o = ord(ch)
        if ch == "\\":
            return "'\\\\'"
        if ch == "'":
            return "'\\''"
        if ch == "\n":
            return "'\\n'"
        if ch == "\r":
            return "'\\r'"
        if ch == "\t":
            return "'\\t'"
        if o < 32 or o == 127:
            return "'\\x%02x'" % o
        return "'%s'" % ch
    return "[" + ", ".join(one(c) for c in s) + "]"


def _const(node, types, what, U):
    if isinstance(node, ast.Constant) and (node.value is None and type(None) in types or
                                           isinstance(node.value, tuple(t for t in types if t is not type(None)))
                                           and not isinstance(node.value, bool)):
        return node.value
    raise U("%s: literal of type %s expected" % (what, "/".join(t.__name__ for t in types)))


def generate(api):
    U = api.P.Untranslatable
    tree, rel = api.parse("ui/components/progress_bar.py")
    P = api.P
    cls = P.find_class(tree, "ProgressBar", rel)
    attrs = {}
    for n in ("bar_width", "bar_char", "empty_bar_char", "progress_char", "redraw_freq", "formats"):
        # the one binding of the name in the class body (a second assignment, `formats.update(...)` in the class body
        # or a conditional redefinition would make the literal a half-read)
        sts = [st for st in cls.body if isinstance(st, ast.Assign) and len(st.targets) == 1
               and isinstance(st.targets[0], ast.Name) and st.targets[0].id == n]
        if len(sts) != 1 or P._other_bindings(cls.body, n, sts[0]):
            raise U("%s: class attribute ProgressBar.%s is not bound exactly once" % (rel, n))
        if any(isinstance(x, ast.Name) and x.id == n and isinstance(x.ctx, ast.Load)
               for st in cls.body if not isinstance(st, (ast.FunctionDef, ast.ClassDef)) for x in ast.walk(st)):
            raise U("%s: ProgressBar.%s is used again in the class body" % (rel, n))
        attrs[n] = sts[0].value
    for x in ast.walk(tree):
        # the table of formats is never written to
        if isinstance(x, ast.Attribute) and x.attr == "formats" and (isinstance(x.ctx, (ast.Store, ast.Del))):
            raise U("%s:%d: ProgressBar.formats is rebound" % (rel, x.lineno))
        if isinstance(x, ast.Subscript) and isinstance(x.ctx, (ast.Store, ast.Del)) and isinstance(x.value, ast.Attribute) \
                and x.value.attr == "formats":
            raise U("%s:%d: an entry of ProgressBar.formats is assigned" % (rel, x.lineno))
        if isinstance(x, ast.Attribute) and isinstance(x.value, ast.Attribute) and x.value.attr == "formats" \
                and x.attr not in ("get", "keys", "values", "items", "copy"):
            raise U("%s:%d: ProgressBar.formats.%s: the table may be changed at run time" % (rel, x.lineno, x.attr))
    bar_width = _const(attrs["bar_width"], (int,), rel + ": bar_width", U)
    bar_char = _const(attrs["bar_char"], (str, type(None)), rel + ": bar_char", U)
    empty_char = _const(attrs["empty_bar_char"], (str,), rel + ": empty_bar_char", U)
    progress_char = _const(attrs["progress_char"], (str,), rel + ": progress_char", U)
    redraw_freq = _const(attrs["redraw_freq"], (int, type(None)), rel + ": redraw_freq", U)
    if bar_width < 0 or (redraw_freq is not None and redraw_freq < 1):
        raise U("%s: bar_width / redraw_freq outside the modelled range" % rel)
    fm = attrs["formats"]
    if not isinstance(fm, ast.Dict):
        raise U("%s: ProgressBar.formats is not a dict literal" % rel)
    formats = []
    for k, v in zip(fm.keys, fm.values):
        formats.append((_const(k, (str,), rel + ": formats key", U), _const(v, (str,), rel + ": formats value", U)))
    if len(set(k for k, _ in formats)) != len(formats):
        raise U("%s: duplicate key in ProgressBar.formats" % rel)
    # a dictionary: the order of the entries means nothing; the known names come first in a fixed order
    KNOWN_FORMATS = ["normal", "normal_nomax", "verbose", "verbose_nomax", "very_verbose", "very_verbose_nomax",
                     "debug", "debug_nomax"]
    formats.sort(key=lambda kv: KNOWN_FORMATS.index(kv[0]) if kv[0] in KNOWN_FORMATS else len(KNOWN_FORMATS))

    init = P.find_function(tree, "ProgressBar", "__init__", rel, decorators=())
    names = [a.arg for a in init.args.args]
    defaults = dict(zip(names[len(names) - len(init.args.defaults):], init.args.defaults))
    if names != ["self", "io", "max", "min_seconds_between_redraws"] or set(defaults) != {"max", "min_seconds_between_redraws"} \
            or init.args.vararg or init.args.kwarg or init.args.kwonlyargs:
        raise U("%s: ProgressBar.__init__ signature changed: %s" % (rel, names))
    dmax = _const(defaults["max"], (int,), rel + ": default max", U)
    dmin = _const(defaults["min_seconds_between_redraws"], (int, float), rel + ": default min_seconds_between_redraws", U)
    # every statement of __init__ that concerns the redraw bookkeeping is accounted for: the literal initial values
    # (each once, at top level), then the two conditional overrides the hand-written model knows, `self._set_max_steps(max)`;
    # statements that mention none of these attributes / parameters are not concerned
    BOOK = ("_min_seconds_between_redraws", "_max_seconds_between_redraws", "_last_write_time", "_write_count",
            "_last_messages_length", "_should_overwrite")
    KNOWN = {
        "if min_seconds_between_redraws > 0:\n    self.redraw_freq = None\n"
        "    self._min_seconds_between_redraws = min_seconds_between_redraws": ("_min_seconds_between_redraws",),
        "if not self._io.supports_ansi():\n    self._should_overwrite = False\n    self.redraw_freq = None": ("_should_overwrite",),
    }
    selfset, seen_known = {}, set()
    for st in P.strip_doc(init.body):
        if not P.mentions(st, names=("max", "min_seconds_between_redraws"), attrs=BOOK + ("redraw_freq",)) and not P.exits(st):
            continue
        text = ast.unparse(st)
        if (isinstance(st, ast.Assign) and len(st.targets) == 1 and isinstance(st.targets[0], ast.Attribute)
                and isinstance(st.targets[0].value, ast.Name) and st.targets[0].value.id == "self"
                and st.targets[0].attr in BOOK and isinstance(st.value, ast.Constant)
                and st.targets[0].attr not in selfset
                and not any(st.targets[0].attr in KNOWN[k] for k in seen_known)):
            selfset[st.targets[0].attr] = st.value.value
        elif text in KNOWN and text not in seen_known and all(a in selfset for a in KNOWN[text]):
            seen_known.add(text)
        elif text == "self._set_max_steps(max)":
            pass
        else:
            raise U("%s:%d: ProgressBar.__init__: statement about the redraw bookkeeping not understood: `%s`"
                    % (rel, st.lineno, text.split("\n")[0][:80]))
    if seen_known != set(KNOWN):
        raise U("%s: ProgressBar.__init__ no longer has the two modelled overrides (min_seconds_between_redraws > 0, no ANSI)" % rel)
    for n in BOOK:
        if n not in selfset:
            raise U("%s: __init__ no longer initialises self.%s with a literal" % (rel, n))
    tick = 64
    max_ticks = Fraction(selfset["_max_seconds_between_redraws"]) * tick
    min_ticks = Fraction(selfset["_min_seconds_between_redraws"]) * tick
    if max_ticks.denominator != 1 or min_ticks.denominator != 1:
        raise U("%s: default redraw intervals are not multiples of 1/64 s" % rel)
    if selfset["_last_write_time"] != 0 or selfset["_write_count"] != 0 or selfset["_last_messages_length"] != 0 \
            or selfset["_should_overwrite"] is not True:
        raise U("%s: initial values of the redraw bookkeeping changed" % rel)
    dmin_milli = Fraction(str(dmin)) * 1000
    if dmin_milli.denominator != 1:
        raise U("%s: default min_seconds_between_redraws is not a whole number of ms" % rel)

    # D18b repair: finish() compares the maximum of the frame on the line (`_displayed_max`) too
    fin = P.find_function(tree, "ProgressBar", "finish", rel, decorators=())
    ovw = P.find_function(tree, "ProgressBar", "_overwrite", rel, decorators=())
    bf = P.Template("""
        if not self._max:
            self._max = self._step
        if HOLE_guard:
            return
        self.set_progress(self._max)
    """).match(fin.body, rel, "ProgressBar.finish")
    guard = ast.unparse(bf["guard"])
    base = "self._step == self._max and (not self._should_overwrite) and (self._displayed_step == self._step)"
    if guard == base:
        compares_max = False
    elif guard == base + " and (self._displayed_max == self._max)":
        compares_max = True
    else:
        raise U("%s:%d: finish() no longer has the modelled skip-the-redraw guard: %s" % (rel, bf["guard"].lineno, guard))

    # start(max=None): EVERY explicit maximum - 0 included - replaces the one the bar has; only an omitted one keeps it
    sta = P.find_function(tree, "ProgressBar", "start", rel, decorators=())
    bs = P.Template("""
        self._start_time = time.time()
        self._step = 0
        self._percent = 0.0
        if HOLE_given:
            self._set_max_steps(max)
        self.display()
    """).match(sta.body, rel, "ProgressBar.start")
    sargs = sta.args
    if [a.arg for a in sargs.args] != ["self", "max"] or sargs.vararg or sargs.kwarg or sargs.kwonlyargs \
            or len(sargs.defaults) != 1 or not (isinstance(sargs.defaults[0], ast.Constant) and sargs.defaults[0].value is None):
        raise U("%s:%d: start() no longer has the signature (self, max=None)" % (rel, sta.lineno))
    if ast.unparse(bs["given"]) != "max is not None":
        raise U("%s:%d: start() takes the new maximum under the condition `%s`, the model knows `max is not None` "
                "(every explicit maximum, 0 included)" % (rel, bs["given"].lineno, ast.unparse(bs["given"])))

    # `_overwrite` records what is on the line: as top-level statements, and these attributes are written nowhere else
    # (but for the `= None` of __init__)
    def records(attr, value):
        top = [st for st in P.strip_doc(ovw.body) if ast.unparse(st) == "self.%s = self.%s" % (attr, value)]
        stores = [x for x in ast.walk(cls) if isinstance(x, ast.Attribute) and x.attr == attr
                  and isinstance(x.ctx, (ast.Store, ast.Del))]
        inits = [st for st in P.strip_doc(init.body) if ast.unparse(st) == "self.%s = None" % attr]
        if len(top) > 1 or len(inits) > 1 or len(stores) != len(top) + len(inits) or (top and exits_before(top[0])):
            raise U("%s: self.%s is written in a way the model does not know" % (rel, attr))
        return bool(top)

    def exits_before(st):
        body = P.strip_doc(ovw.body)
        return P.exits(body[:body.index(st)])
    if not records("_displayed_step", "_step"):
        raise U("%s: _overwrite() no longer records the displayed step" % rel)
    records_max = records("_displayed_max", "_max")
    if compares_max != records_max:
        raise U("%s: finish() compares _displayed_max (%s) but _overwrite() records it (%s)" % (rel, compares_max, records_max))

    # D39 repair: `_overwrite` moves back by the line count of the frame STANDING on the output (`_displayed_line_count`,
    # recorded at the end of every `_overwrite`; the current format's before the first write) and erases below the cursor
    # when the new format has another line count.  Both shapes of the cursor/clear block are read strictly.
    records_lc = records("_displayed_line_count", "_format_line_count")
    blocks = [st for st in P.strip_doc(ovw.body) if isinstance(st, ast.If) and ast.unparse(st.test) == "self._should_overwrite"]
    if len(blocks) != 1:
        raise U("%s: _overwrite() has no single `if self._should_overwrite:` block" % rel)

    def norm(src):
        return ast.unparse(ast.parse(textwrap.dedent(src)))
    tail = r"""
        elif self._write_count > 0:
            self._io.write_line('')
    """
    old_block = norm(r"""
        if self._should_overwrite:
            if isinstance(self._io, SectionOutput):
                lines_to_clear = int(math.floor(len(lines) / self._terminal.width)) + self._format_line_count + 1
                self._io.clear(lines_to_clear)
            else:
                self._io.write('\r')
                if self._format_line_count:
                    self._io.write('\x1b[{}A'.format(self._format_line_count))
    """ + tail)
    new_block = norm(r"""
        if self._should_overwrite:
            if isinstance(self._io, SectionOutput):
                lines_to_clear = int(math.floor(len(lines) / self._terminal.width)) + line_count + 1
                self._io.clear(lines_to_clear)
            else:
                self._io.write('\r')
                if line_count:
                    self._io.write('\x1b[{}A'.format(line_count))
                if line_count != self._format_line_count:
                    self._io.write('\x1b[0J')
    """ + tail)
    got = ast.unparse(blocks[0])
    body_src = [ast.unparse(st) for st in P.strip_doc(ovw.body)]
    pick = ["line_count = self._displayed_line_count",
            "if line_count is None:\n    line_count = self._format_line_count"]
    uses_local = [x for x in ast.walk(ovw) if isinstance(x, ast.Name) and x.id == "line_count"]
    if got == new_block and records_lc:
        i = body_src.index(pick[0]) if pick[0] in body_src else -1
        if i < 0 or body_src[i + 1:i + 2] != [pick[1]] or i + 2 > body_src.index(got) \
                or sum(1 for x in uses_local if isinstance(x.ctx, ast.Store)) != 2:
            raise U("%s: _overwrite() does not take line_count from _displayed_line_count in the modelled way" % rel)
        by_displayed = True
    elif got == old_block and not records_lc and not uses_local:
        by_displayed = False
    else:
        raise U("%s: the cursor movement / section clearing of _overwrite() has a shape the model does not know "
                "(records _displayed_line_count: %s)" % (rel, records_lc))

    ttree, trel = api.parse("utils/time.py")
    tfs = [st for st in ttree.body if isinstance(st, ast.Assign) and len(st.targets) == 1
           and getattr(st.targets[0], "id", None) == "_TIME_FORMATS"]
    if len(tfs) != 1 or P._other_bindings(ttree.body, "_TIME_FORMATS", tfs[0]) or not isinstance(tfs[0].value, ast.List):
        raise U("%s: _TIME_FORMATS list literal not found (or bound more than once)" % trel)
    tf = tfs[0].value
    uses = [x for x in ast.walk(ttree) if isinstance(x, ast.Name) and x.id == "_TIME_FORMATS" and isinstance(x.ctx, ast.Load)]
    rows = []
    for el in tf.elts:
        if not isinstance(el, ast.Tuple) or len(el.elts) not in (2, 3):
            raise U("%s: _TIME_FORMATS entry is not a 2- or 3-tuple" % trel)
        lim = _const(el.elts[0], (int,), trel + ": limit", U)
        txt = _const(el.elts[1], (str,), trel + ": text", U)
        div = _const(el.elts[2], (int,), trel + ": divisor", U) if len(el.elts) == 3 else None
        if lim < 0 or (div is not None and div < 1):
            raise U("%s: _TIME_FORMATS entry outside the modelled range" % trel)
        rows.append((lim, txt, div))
    # format_time itself, strictly: first row whose limit is not exceeded; two-element rows are the text, three-element
    # rows `ceil(secs / divisor) text`
    ft = P.find_function(ttree, None, "format_time", trel, decorators=())
    P.plain_import(ttree, "math", trel)
    bt = P.Template("""
        def format_time(V_secs):
            for V_fmt in _TIME_FORMATS:
                if V_secs > V_fmt[0]:
                    continue
                if len(V_fmt) == 2:
                    return V_fmt[1]
                return "{} {}".format(math.ceil(V_secs / V_fmt[2]), V_fmt[1])
    """)
    try:
        bt.match([ft], trel, "format_time")
    except U as e:
        raise U("%s: format_time no longer has the modelled shape (%s)" % (trel, e))
    if len(uses) != 1:
        raise U("%s: _TIME_FORMATS is used outside format_time's loop" % trel)
    P.imported_as(tree, "format_time", ("clikit.utils.time",), rel)

    out = [api.HEADER + "namespace Clikit.Gen.C16\n"]
    out.append("/-- `ProgressBar.formats` (name, template), in source order -/")  # (the order of the unchanged source)
    out.append("def formats : List (List Char × List Char) := [")
    out.append(",\n".join("  (%s,\n   %s)" % (_chars(k), _chars(v)) for k, v in formats))
    out.append("]\n")
    out.append("def defaultBarWidth : Nat := %d" % bar_width)
    out.append("def defaultBarChar : Option (List Char) := %s" % ("none" if bar_char is None else "some " + _chars(bar_char)))
    out.append("def defaultEmptyBarChar : List Char := %s" % _chars(empty_char))
    out.append("def defaultProgressChar : List Char := %s" % _chars(progress_char))
    out.append("def defaultRedrawFreq : Option Nat := %s" % ("none" if redraw_freq is None else "some %d" % redraw_freq))
    out.append("/-- constructor default `max=` -/")
    out.append("def defaultMax : Nat := %d" % max(0, dmax))
    out.append("/-- constructor default `min_seconds_between_redraws=` in milliseconds -/")
    out.append("def defaultMinSecondsMilli : Nat := %d" % int(dmin_milli))
    out.append("/-- ticks per second of the virtual clock -/")
    out.append("def ticksPerSecond : Nat := %d" % tick)
    out.append("/-- `self._min_seconds_between_redraws = …` / `self._max_seconds_between_redraws = …` of `__init__`, in ticks -/")
    out.append("def initMinIntervalTicks : Nat := %d" % int(min_ticks))
    out.append("def initMaxIntervalTicks : Nat := %d" % int(max_ticks))
    out.append("/-- `start(max)` hands every maximum that is not `None` to `_set_max_steps` (`if max is not None:`) -/")
    out.append("def startTakesEveryExplicitMax : Bool := true")
    out.append("/-- `finish()` skips the redraw only when the frame on the line also shows the present maximum\n"
               "(`and self._displayed_max == self._max`, repair of D18b) -/")
    out.append("def finishComparesDisplayedMax : Bool := %s" % ("true" if compares_max else "false"))
    out.append("/-- `_overwrite()` moves the cursor / clears the section by the line count of the frame standing on the output\n"
               "(`_displayed_line_count`) and erases below the cursor when the new format has another one (repair of D39) -/")
    out.append("def overwriteMovesByDisplayedLineCount : Bool := %s" % ("true" if by_displayed else "false"))
    out.append("\n/-- `_TIME_FORMATS` of utils/time.py: (limit in seconds, text, divisor) -/")
    out.append("def timeFormats : List (Nat × List Char × Option Nat) := [")
    out.append(",\n".join("  (%d, %s, %s)" % (l, _chars(t), "none" if d is None else "some %d" % d) for l, t, d in rows))
    out.append("]\n\nend Clikit.Gen.C16\n")
    return {"C16.lean": "\n".join(out)}
