"""C16: the tables and defaults of the progress bar, read with `ast` from the CURRENT source:

  ui/components/progress_bar.py   ProgressBar.formats, bar_width, bar_char, empty_bar_char,
                                  progress_char, redraw_freq, the constructor's defaults
                                  (min_seconds_between_redraws=…, self._min/_max_seconds_between_redraws = …)
  utils/time.py                   _TIME_FORMATS

Strings are emitted as explicit `List Char` literals so that `decide` can look at them."""
import ast
from fractions import Fraction


def _chars(s):
    def one(ch):
        o = ord(ch)
        if ch == "\\":
            return "'\\\\'"
        if ch == "'":
            return "'\\''"
        if ch == "\n":
            return "'\\n'"
        if ch == "\r":
            return "'\\r'"
        if ch == "\t":
            return "'\\t'"
        if o < 32 or o == 127:
            return "'\\x%02x'" % o
        return "'%s'" % ch
    return "[" + ", ".join(one(c) for c in s) + "]"


def _const(node, types, what, U):
    if isinstance(node, ast.Constant) and (node.value is None and type(None) in types or
                                           isinstance(node.value, tuple(t for t in types if t is not type(None)))
                                           and not isinstance(node.value, bool)):
        return node.value
    raise U("%s: literal of type %s expected" % (what, "/".join(t.__name__ for t in types)))


def generate(api):
    U = api.P.Untranslatable
    tree, rel = api.parse("ui/components/progress_bar.py")
    cls = [n for n in tree.body if isinstance(n, ast.ClassDef) and n.name == "ProgressBar"]
    if len(cls) != 1:
        raise U("%s: class ProgressBar not found" % rel)
    cls = cls[0]
    attrs = {}
    for st in cls.body:
        if isinstance(st, ast.Assign) and len(st.targets) == 1 and isinstance(st.targets[0], ast.Name):
            attrs[st.targets[0].id] = st.value
    for n in ("bar_width", "bar_char", "empty_bar_char", "progress_char", "redraw_freq", "formats"):
        if n not in attrs:
            raise U("%s: class attribute ProgressBar.%s not found" % (rel, n))
    bar_width = _const(attrs["bar_width"], (int,), rel + ": bar_width", U)
    bar_char = _const(attrs["bar_char"], (str, type(None)), rel + ": bar_char", U)
    empty_char = _const(attrs["empty_bar_char"], (str,), rel + ": empty_bar_char", U)
    progress_char = _const(attrs["progress_char"], (str,), rel + ": progress_char", U)
    redraw_freq = _const(attrs["redraw_freq"], (int, type(None)), rel + ": redraw_freq", U)
    if bar_width < 0 or (redraw_freq is not None and redraw_freq < 1):
        raise U("%s: bar_width / redraw_freq outside the modelled range" % rel)
    fm = attrs["formats"]
    if not isinstance(fm, ast.Dict):
        raise U("%s: ProgressBar.formats is not a dict literal" % rel)
    formats = []
    for k, v in zip(fm.keys, fm.values):
        formats.append((_const(k, (str,), rel + ": formats key", U), _const(v, (str,), rel + ": formats value", U)))
    if len(set(k for k, _ in formats)) != len(formats):
        raise U("%s: duplicate key in ProgressBar.formats" % rel)

    init = api.P.find_function(tree, "ProgressBar", "__init__", rel)
    names = [a.arg for a in init.args.args]
    defaults = dict(zip(names[len(names) - len(init.args.defaults):], init.args.defaults))
    if names[:4] != ["self", "io", "max", "min_seconds_between_redraws"] or set(defaults) != {"max", "min_seconds_between_redraws"}:
        raise U("%s: ProgressBar.__init__ signature changed: %s" % (rel, names))
    dmax = _const(defaults["max"], (int,), rel + ": default max", U)
    dmin = _const(defaults["min_seconds_between_redraws"], (int, float), rel + ": default min_seconds_between_redraws", U)
    selfset = {}
    for st in init.body:
        if (isinstance(st, ast.Assign) and len(st.targets) == 1 and isinstance(st.targets[0], ast.Attribute)
                and isinstance(st.targets[0].value, ast.Name) and st.targets[0].value.id == "self"
                and isinstance(st.value, ast.Constant)):
            selfset[st.targets[0].attr] = st.value.value
    for n in ("_min_seconds_between_redraws", "_max_seconds_between_redraws", "_last_write_time", "_write_count",
              "_last_messages_length", "_should_overwrite"):
        if n not in selfset:
            raise U("%s: __init__ no longer initialises self.%s with a literal" % (rel, n))
    tick = 64
    max_ticks = Fraction(selfset["_max_seconds_between_redraws"]) * tick
    min_ticks = Fraction(selfset["_min_seconds_between_redraws"]) * tick
    if max_ticks.denominator != 1 or min_ticks.denominator != 1:
        raise U("%s: default redraw intervals are not multiples of 1/64 s" % rel)
    if selfset["_last_write_time"] != 0 or selfset["_write_count"] != 0 or selfset["_last_messages_length"] != 0 \
            or selfset["_should_overwrite"] is not True:
        raise U("%s: initial values of the redraw bookkeeping changed" % rel)
    dmin_milli = Fraction(str(dmin)) * 1000
    if dmin_milli.denominator != 1:
        raise U("%s: default min_seconds_between_redraws is not a whole number of ms" % rel)

    # D18b repair: finish() compares the maximum of the frame on the line (`_displayed_max`) too
    fin = api.P.find_function(tree, "ProgressBar", "finish", rel)
    ovw = api.P.find_function(tree, "ProgressBar", "_overwrite", rel)
    guard = [st for st in fin.body if isinstance(st, ast.If) and "_should_overwrite" in ast.dump(st.test)]
    if len(guard) != 1 or "_displayed_step" not in ast.dump(guard[0].test):
        raise U("%s: finish() no longer has the modelled skip-the-redraw guard" % rel)
    compares_max = "_displayed_max" in ast.dump(guard[0].test)

    def assigns(fn, attr, value_attr):
        for st in ast.walk(fn):
            if (isinstance(st, ast.Assign) and len(st.targets) == 1 and isinstance(st.targets[0], ast.Attribute)
                    and st.targets[0].attr == attr and isinstance(st.value, ast.Attribute) and st.value.attr == value_attr):
                return True
        return False
    if not assigns(ovw, "_displayed_step", "_step"):
        raise U("%s: _overwrite() no longer records the displayed step" % rel)
    records_max = assigns(ovw, "_displayed_max", "_max")
    if compares_max != records_max:
        raise U("%s: finish() compares _displayed_max (%s) but _overwrite() records it (%s)" % (rel, compares_max, records_max))

    ttree, trel = api.parse("utils/time.py")
    tf = None
    for st in ttree.body:
        if isinstance(st, ast.Assign) and len(st.targets) == 1 and getattr(st.targets[0], "id", None) == "_TIME_FORMATS":
            tf = st.value
    if not isinstance(tf, ast.List):
        raise U("%s: _TIME_FORMATS list literal not found" % trel)
    rows = []
    for el in tf.elts:
        if not isinstance(el, ast.Tuple) or len(el.elts) not in (2, 3):
            raise U("%s: _TIME_FORMATS entry is not a 2- or 3-tuple" % trel)
        lim = _const(el.elts[0], (int,), trel + ": limit", U)
        txt = _const(el.elts[1], (str,), trel + ": text", U)
        div = _const(el.elts[2], (int,), trel + ": divisor", U) if len(el.elts) == 3 else None
        if lim < 0 or (div is not None and div < 1):
            raise U("%s: _TIME_FORMATS entry outside the modelled range" % trel)
        rows.append((lim, txt, div))
    # format_time itself: for/if-continue/len==2/ceil(secs / fmt[2]) - a light shape check
    ft = api.P.find_function(ttree, None, "format_time", trel)
    src = ast.dump(ft)
    for needle in ("ceil", "Gt()", "Continue()"):
        if needle not in src:
            raise U("%s: format_time no longer has the modelled shape (%s missing)" % (trel, needle))

    out = [api.HEADER + "namespace Clikit.Gen.C16\n"]
    out.append("/-- `ProgressBar.formats` (name, template), in source order -/")
    out.append("def formats : List (List Char × List Char) := [")
    out.append(",\n".join("  (%s,\n   %s)" % (_chars(k), _chars(v)) for k, v in formats))
    out.append("]\n")
    out.append("def defaultBarWidth : Nat := %d" % bar_width)
    out.append("def defaultBarChar : Option (List Char) := %s" % ("none" if bar_char is None else "some " + _chars(bar_char)))
    out.append("def defaultEmptyBarChar : List Char := %s" % _chars(empty_char))
    out.append("def defaultProgressChar : List Char := %s" % _chars(progress_char))
    out.append("def defaultRedrawFreq : Option Nat := %s" % ("none" if redraw_freq is None else "some %d" % redraw_freq))
    out.append("/-- constructor default `max=` -/")
    out.append("def defaultMax : Nat := %d" % max(0, dmax))
    out.append("/-- constructor default `min_seconds_between_redraws=` in milliseconds -/")
    out.append("def defaultMinSecondsMilli : Nat := %d" % int(dmin_milli))
    out.append("/-- ticks per second of the virtual clock -/")
    out.append("def ticksPerSecond : Nat := %d" % tick)
    out.append("/-- `self._min_seconds_between_redraws = …` / `self._max_seconds_between_redraws = …` of `__init__`, in ticks -/")
    out.append("def initMinIntervalTicks : Nat := %d" % int(min_ticks))
    out.append("def initMaxIntervalTicks : Nat := %d" % int(max_ticks))
    out.append("/-- `finish()` skips the redraw only when the frame on the line also shows the present maximum\n"
               "(`and self._displayed_max == self._max`, repair of D18b) -/")
    out.append("def finishComparesDisplayedMax : Bool := %s" % ("true" if compares_max else "false"))
    out.append("\n/-- `_TIME_FORMATS` of utils/time.py: (limit in seconds, text, divisor) -/")
    out.append("def timeFormats : List (Nat × List Char × Option Nat) := [")
    out.append(",\n".join("  (%d, %s, %s)" % (l, _chars(t), "none" if d is None else "some %d" % d) for l, t, d in rows))
    out.append("]\n\nend Clikit.Gen.C16\n")
    return {"C16.lean": "\n".join(out)}
