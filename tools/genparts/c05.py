"""C05: which of the parser object's scratch dictionaries `DefaultArgsParser.parse` re-initialises
before it does anything else (read from the source with `ast`)."""
import ast


def generate(api):
    tree, rel = api.parse("args/default_args_parser.py")
    fn = api.P.find_function(tree, "DefaultArgsParser", "parse", rel)
    reset = {"_arguments": False, "_options": False}
    for st in fn.body:
        # only the leading statements count: a reset after the first use would be too late
        if isinstance(st, ast.Expr) and isinstance(st.value, ast.Constant):
            continue
        if (isinstance(st, ast.Assign) and len(st.targets) == 1 and isinstance(st.targets[0], ast.Attribute)
                and isinstance(st.targets[0].value, ast.Name) and st.targets[0].value.id == "self"
                and st.targets[0].attr in reset and isinstance(st.value, ast.Call) and not st.value.args
                and getattr(st.value.func, "id", None) in ("OrderedDict", "dict")):
            reset[st.targets[0].attr] = True
            continue
        break
    # every other attribute of self assigned anywhere in the class is hidden state the model must know about
    cls = [n for n in tree.body if isinstance(n, ast.ClassDef) and n.name == "DefaultArgsParser"][0]
    attrs = set()
    for n in ast.walk(cls):
        if isinstance(n, ast.Attribute) and isinstance(n.value, ast.Name) and n.value.id == "self" and isinstance(n.ctx, ast.Store):
            attrs.add(n.attr)
    extra = sorted(attrs - set(reset))
    if extra:
        raise api.P.Untranslatable("%s: DefaultArgsParser keeps state the model does not know: %s" % (rel, extra))
    text = (api.HEADER + "namespace Clikit.Gen.C05\n\n"
            "/-- `parse()` starts with `self._arguments = OrderedDict()` -/\n"
            "def resetsArguments : Bool := %s\n"
            "/-- `parse()` starts with `self._options = OrderedDict()` -/\n"
            "def resetsOptions : Bool := %s\n\nend Clikit.Gen.C05\n"
            % ("true" if reset["_arguments"] else "false", "true" if reset["_options"] else "false"))
    return {"C05.lean": text}
