"""C05: which of the parser object's scratch dictionaries `DefaultArgsParser.parse` re-initialises
before it does anything else, and which leniency mode `Command.parse(args, lenient=None)` hands to the
args parser (both read from the source with `ast`)."""
import ast


def _command_mode(api):
    """`Command.parse`: the mode given to the parser as a function of the optional `lenient` parameter and of what the
    command's config answers.  The one shape understood:

        if lenient is None:
            lenient = self._config.is_lenient_args_parsing_enabled()
        return self._config.args_parser.parse(args, self._args_format, lenient)
    """
    tree, rel = api.parse("api/command/command.py")
    fn = api.P.find_function(tree, "Command", "parse", rel)
    a = fn.args
    names = [x.arg for x in a.args]
    if (names != ["self", "args", "lenient"] or a.vararg or a.kwarg or a.kwonlyargs or len(a.defaults) != 1
            or not (isinstance(a.defaults[0], ast.Constant) and a.defaults[0].value is None)):
        raise api.P.Untranslatable("%s:%d: Command.parse is no longer parse(self, args, lenient=None)" % (rel, fn.lineno))
    body = [st for st in fn.body if not (isinstance(st, ast.Expr) and isinstance(st.value, ast.Constant))]

    def cfg_call(e, method):
        # self._config.<method>()
        return (isinstance(e, ast.Call) and not e.args and not e.keywords and isinstance(e.func, ast.Attribute)
                and e.func.attr == method and cfg(e.func.value))

    def cfg(e):
        return (isinstance(e, ast.Attribute) and e.attr in ("_config", "config") and isinstance(e.value, ast.Name)
                and e.value.id == "self")

    def name(e, n):
        return isinstance(e, ast.Name) and e.id == n

    ok = len(body) == 2
    if ok:
        g, r = body
        ok = (isinstance(g, ast.If) and not g.orelse and isinstance(g.test, ast.Compare) and name(g.test.left, "lenient")
              and len(g.test.ops) == 1 and isinstance(g.test.ops[0], ast.Is) and isinstance(g.test.comparators[0], ast.Constant)
              and g.test.comparators[0].value is None and len(g.body) == 1 and isinstance(g.body[0], ast.Assign)
              and len(g.body[0].targets) == 1 and name(g.body[0].targets[0], "lenient")
              and cfg_call(g.body[0].value, "is_lenient_args_parsing_enabled"))
        ok = ok and (isinstance(r, ast.Return) and isinstance(r.value, ast.Call) and not r.value.keywords
                     and isinstance(r.value.func, ast.Attribute) and r.value.func.attr == "parse"
                     and isinstance(r.value.func.value, ast.Attribute) and r.value.func.value.attr == "args_parser"
                     and cfg(r.value.func.value.value) and len(r.value.args) == 3 and name(r.value.args[0], "args")
                     and isinstance(r.value.args[1], ast.Attribute) and r.value.args[1].attr in ("_args_format", "args_format")
                     and name(r.value.args[2], "lenient"))
    if not ok:
        raise api.P.Untranslatable("%s:%d: Command.parse does not decide the leniency mode the way the model reads it "
                                   "(`if lenient is None: lenient = <config setting>`, then the parser call)" % (rel, fn.lineno))
    return ("/-- `Command.parse(args, lenient=None)`: the mode handed to the args parser - the explicit one when given,\n"
            "what the command's config answers (`is_lenient_args_parsing_enabled()`) when omitted -/\n"
            "def commandMode (explicit : Option Bool) (configured : Bool) : Bool :=\n"
            "  match explicit with\n  | none => configured\n  | some b => b\n")


def generate(api):
    tree, rel = api.parse("args/default_args_parser.py")
    fn = api.P.find_function(tree, "DefaultArgsParser", "parse", rel)
    reset = {"_arguments": False, "_options": False}
    cls = api.P.find_class(tree, "DefaultArgsParser", rel)
    methods = {}
    for n in cls.body:
        if isinstance(n, ast.FunctionDef):
            if n.name in methods:
                raise api.P.Untranslatable("%s:%d: DefaultArgsParser.%s is defined twice" % (rel, n.lineno, n.name))
            methods[n.name] = n
    a = fn.args
    if not a.args or a.args[0].arg != "self" or any(x.arg == "self" for x in a.args[1:] + a.kwonlyargs):
        raise api.P.Untranslatable("%s:%d: parse() is not a method with a `self`" % (rel, fn.lineno))

    def is_reset(st):
        return (isinstance(st, ast.Assign) and len(st.targets) == 1 and isinstance(st.targets[0], ast.Attribute)
                and isinstance(st.targets[0].value, ast.Name) and st.targets[0].value.id == "self"
                and st.targets[0].attr in reset and isinstance(st.value, ast.Call) and not st.value.args
                and not st.value.keywords and getattr(st.value.func, "id", None) in ("OrderedDict", "dict"))

    def is_clear(st):
        """`self._x.clear()` empties the same dictionary (the values were copied into the Args object)"""
        return (isinstance(st, ast.Expr) and isinstance(st.value, ast.Call) and not st.value.args and not st.value.keywords
                and isinstance(st.value.func, ast.Attribute) and st.value.func.attr == "clear"
                and isinstance(st.value.func.value, ast.Attribute) and st.value.func.value.attr in reset
                and isinstance(st.value.func.value.value, ast.Name) and st.value.func.value.value.id == "self")

    def reset_attr(st):
        if is_reset(st):
            return st.targets[0].attr
        if is_clear(st):
            return st.value.func.value.attr
        return None

    def mentions_self(st):
        return any(isinstance(n, ast.Name) and n.id == "self" for n in ast.walk(st))

    def docstring(st):
        return isinstance(st, ast.Expr) and isinstance(st.value, ast.Constant)

    leading = []
    for st in fn.body:
        # only the statements before the first use of the parser's state count: a reset after it would be too late
        if docstring(st) or not mentions_self(st):
            continue
        if reset_attr(st) is not None:
            reset[reset_attr(st)] = True
            leading.append(st)
            continue
        # a helper `self._x()` whose whole body is such resets is read through (one level)
        if (isinstance(st, ast.Expr) and isinstance(st.value, ast.Call) and not st.value.args and not st.value.keywords
                and isinstance(st.value.func, ast.Attribute) and isinstance(st.value.func.value, ast.Name)
                and st.value.func.value.id == "self"):
            helper = methods.get(st.value.func.attr)
            body = [x for x in helper.body if not docstring(x)] if helper is not None else None
            if body and all(reset_attr(x) is not None for x in body) and not helper.decorator_list:
                for x in body:
                    reset[reset_attr(x)] = True
                    leading.append(x)
                continue
            raise api.P.Untranslatable("%s:%d: parse() starts by calling self.%s(), whose effect on the collected "
                                       "values is not read" % (rel, st.lineno, st.value.func.attr))
        break
    # "does not reset" is only said when nothing else in the class could be the reset: a dictionary that is not
    # re-initialised by the leading statements but is rebound / cleared somewhere else (at the start of `_parse`, at
    # the end of `parse`, in a helper called later ...) is a shape this reader does not follow
    init = methods.get("__init__")
    init_nodes = set(id(n) for n in ast.walk(init)) if init is not None else set()
    lead_nodes = set(id(n) for st in leading for n in ast.walk(st))
    for n in ast.walk(cls):
        if id(n) in init_nodes or id(n) in lead_nodes:
            continue
        attr = None
        if (isinstance(n, ast.Attribute) and n.attr in reset and isinstance(n.ctx, (ast.Store, ast.Del))):
            attr = n.attr
        elif (isinstance(n, ast.Call) and isinstance(n.func, ast.Attribute) and n.func.attr == "clear"
              and isinstance(n.func.value, ast.Attribute) and n.func.value.attr in reset):
            attr = n.func.value.attr
        elif isinstance(n, ast.Constant) and n.value in reset:
            attr = n.value  # setattr(self, "_options", ...) / self.__dict__["_options"]
        if attr is not None and not reset[attr]:
            raise api.P.Untranslatable("%s:%d: self.%s is not re-initialised by the first statements of parse() but is "
                                       "reset elsewhere in the class; when that happens is not read"
                                       % (rel, getattr(n, "lineno", fn.lineno), attr))
    # every other attribute of self assigned anywhere in the class is hidden state the model must know about
    attrs = set()
    for n in ast.walk(cls):
        if isinstance(n, ast.Attribute) and isinstance(n.value, ast.Name) and n.value.id == "self" and isinstance(n.ctx, ast.Store):
            attrs.add(n.attr)
    extra = sorted(attrs - set(reset))
    if extra:
        raise api.P.Untranslatable("%s: DefaultArgsParser keeps state the model does not know: %s" % (rel, extra))
    text = (api.HEADER + "namespace Clikit.Gen.C05\n\n"
            "/-- `parse()` starts with `self._arguments = OrderedDict()` -/\n"
            "def resetsArguments : Bool := %s\n"
            "/-- `parse()` starts with `self._options = OrderedDict()` -/\n"
            "def resetsOptions : Bool := %s\n\n%s\nend Clikit.Gen.C05\n"
            % ("true" if reset["_arguments"] else "false", "true" if reset["_options"] else "false", _command_mode(api)))
    return {"C05.lean": text}
