"""C05: which of the parser object's scratch dictionaries `DefaultArgsParser.parse` re-initialises
before it does anything else (read from the source with `ast`)."""
import ast


def generate(api):
    tree, rel = api.parse("args/default_args_parser.py")
    fn = api.P.find_function(tree, "DefaultArgsParser", "parse", rel)
    reset = {"_arguments": False, "_options": False}
    cls = api.P.find_class(tree, "DefaultArgsParser", rel)
    methods = {}
    for n in cls.body:
        if isinstance(n, ast.FunctionDef):
            if n.name in methods:
                raise api.P.Untranslatable("%s:%d: DefaultArgsParser.%s is defined twice" % (rel, n.lineno, n.name))
            methods[n.name] = n
    a = fn.args
    if not a.args or a.args[0].arg != "self" or any(x.arg == "self" for x in a.args[1:] + a.kwonlyargs):
        raise api.P.Untranslatable("%s:%d: parse() is not a method with a `self`" % (rel, fn.lineno))

    def is_reset(st):
        return (isinstance(st, ast.Assign) and len(st.targets) == 1 and isinstance(st.targets[0], ast.Attribute)
                and isinstance(st.targets[0].value, ast.Name) and st.targets[0].value.id == "self"
                and st.targets[0].attr in reset and isinstance(st.value, ast.Call) and not st.value.args
                and not st.value.keywords and getattr(st.value.func, "id", None) in ("OrderedDict", "dict"))

    def is_clear(st):
        """`self._x.clear()` empties the same dictionary (the values were copied into the Args object)"""
        return (isinstance(st, ast.Expr) and isinstance(st.value, ast.Call) and not st.value.args and not st.value.keywords
                and isinstance(st.value.func, ast.Attribute) and st.value.func.attr == "clear"
                and isinstance(st.value.func.value, ast.Attribute) and st.value.func.value.attr in reset
                and isinstance(st.value.func.value.value, ast.Name) and st.value.func.value.value.id == "self")

    def reset_attr(st):
        if is_reset(st):
            return st.targets[0].attr
        if is_clear(st):
            return st.value.func.value.attr
        return None

    def mentions_self(st):
        return any(isinstance(n, ast.Name) and n.id == "self" for n in ast.walk(st))

    def docstring(st):
        return isinstance(st, ast.Expr) and isinstance(st.value, ast.Constant)

    leading = []
    for st in fn.body:
        # only the statements before the first use of the parser's state count: a reset after it would be too late
        if docstring(st) or not mentions_self(st):
            continue
        if reset_attr(st) is not None:
            reset[reset_attr(st)] = True
            leading.append(st)
            continue
        # a helper `self._x()` whose whole body is such resets is read through (one level)
        if (isinstance(st, ast.Expr) and isinstance(st.value, ast.Call) and not st.value.args and not st.value.keywords
                and isinstance(st.value.func, ast.Attribute) and isinstance(st.value.func.value, ast.Name)
                and st.value.func.value.id == "self"):
            helper = methods.get(st.value.func.attr)
            body = [x for x in helper.body if not docstring(x)] if helper is not None else None
            if body and all(reset_attr(x) is not None for x in body) and not helper.decorator_list:
                for x in body:
                    reset[reset_attr(x)] = True
                    leading.append(x)
                continue
            raise api.P.Untranslatable("%s:%d: parse() starts by calling self.%s(), whose effect on the collected "
                                       "values is not read" % (rel, st.lineno, st.value.func.attr))
        break
    # "does not reset" is only said when nothing else in the class could be the reset: a dictionary that is not
    # re-initialised by the leading statements but is rebound / cleared somewhere else (at the start of `_parse`, at
    # the end of `parse`, in a helper called later ...) is a shape this reader does not follow
    init = methods.get("__init__")
    init_nodes = set(id(n) for n in ast.walk(init)) if init is not None else set()
    lead_nodes = set(id(n) for st in leading for n in ast.walk(st))
    for n in ast.walk(cls):
        if id(n) in init_nodes or id(n) in lead_nodes:
            continue
        attr = None
        if (isinstance(n, ast.Attribute) and n.attr in reset and isinstance(n.ctx, (ast.Store, ast.Del))):
            attr = n.attr
        elif (isinstance(n, ast.Call) and isinstance(n.func, ast.Attribute) and n.func.attr == "clear"
              and isinstance(n.func.value, ast.Attribute) and n.func.value.attr in reset):
            attr = n.func.value.attr
        elif isinstance(n, ast.Constant) and n.value in reset:
            attr = n.value  # setattr(self, "_options", ...) / self.__dict__["_options"]
        if attr is not None and not reset[attr]:
            raise api.P.Untranslatable("%s:%d: self.%s is not re-initialised by the first statements of parse() but is "
                                       "reset elsewhere in the class; when that happens is not read"
                                       % (rel, getattr(n, "lineno", fn.lineno), attr))
    # every other attribute of self assigned anywhere in the class is hidden state the model must know about
    attrs = set()
    for n in ast.walk(cls):
        if isinstance(n, ast.Attribute) and isinstance(n.value, ast.Name) and n.value.id == "self" and isinstance(n.ctx, ast.Store):
            attrs.add(n.attr)
    extra = sorted(attrs - set(reset))
    if extra:
        raise api.P.Untranslatable("%s: DefaultArgsParser keeps state the model does not know: %s" % (rel, extra))
    text = (api.HEADER + "namespace Clikit.Gen.C05\n\n"
            "/-- `parse()` starts with `self._arguments = OrderedDict()` -/\n"
            "def resetsArguments : Bool := %s\n"
            "/-- `parse()` starts with `self._options = OrderedDict()` -/\n"
            "def resetsOptions : Bool := %s\n\nend Clikit.Gen.C05\n"
            % ("true" if reset["_arguments"] else "false", "true" if reset["_options"] else "false"))
    return {"C05.lean": text}
