"""C05: which of the parser object's scratch dictionaries `DefaultArgsParser.parse` re-initialises
before it does anything else (read from the source with `ast`)."""
import ast


def generate(api):
    tree, rel = api.parse("args/default_args_parser.py")
    fn = api.P.find_function(tree, "DefaultArgsParser", "parse", rel)
    reset = {"_arguments": False, "_options": False}
    cls = [n for n in tree.body if isinstance(n, ast.ClassDef) and n.name == "DefaultArgsParser"][0]
    methods = {n.name: n for n in cls.body if isinstance(n, ast.FunctionDef)}

    def is_reset(st):
        return (isinstance(st, ast.Assign) and len(st.targets) == 1 and isinstance(st.targets[0], ast.Attribute)
                and isinstance(st.targets[0].value, ast.Name) and st.targets[0].value.id == "self"
                and st.targets[0].attr in reset and isinstance(st.value, ast.Call) and not st.value.args
                and not st.value.keywords and getattr(st.value.func, "id", None) in ("OrderedDict", "dict"))

    def mentions_self(st):
        return any(isinstance(n, ast.Name) and n.id == "self" for n in ast.walk(st))

    def docstring(st):
        return isinstance(st, ast.Expr) and isinstance(st.value, ast.Constant)

    for st in fn.body:
        # only the statements before the first use of the parser's state count: a reset after it would be too late
        if docstring(st) or not mentions_self(st):
            continue
        if is_reset(st):
            reset[st.targets[0].attr] = True
            continue
        # a helper `self._x()` whose whole body is such resets is read through (one level)
        if (isinstance(st, ast.Expr) and isinstance(st.value, ast.Call) and not st.value.args and not st.value.keywords
                and isinstance(st.value.func, ast.Attribute) and isinstance(st.value.func.value, ast.Name)
                and st.value.func.value.id == "self"):
            helper = methods.get(st.value.func.attr)
            body = [x for x in helper.body if not docstring(x)] if helper is not None else None
            if body and all(is_reset(x) for x in body):
                for x in body:
                    reset[x.targets[0].attr] = True
                continue
            raise api.P.Untranslatable("%s:%d: parse() starts by calling self.%s(), whose effect on the collected "
                                       "values is not read" % (rel, st.lineno, st.value.func.attr))
        break
    # every other attribute of self assigned anywhere in the class is hidden state the model must know about
    attrs = set()
    for n in ast.walk(cls):
        if isinstance(n, ast.Attribute) and isinstance(n.value, ast.Name) and n.value.id == "self" and isinstance(n.ctx, ast.Store):
            attrs.add(n.attr)
    extra = sorted(attrs - set(reset))
    if extra:
        raise api.P.Untranslatable("%s: DefaultArgsParser keeps state the model does not know: %s" % (rel, extra))
    text = (api.HEADER + "namespace Clikit.Gen.C05\n\n"
            "/-- `parse()` starts with `self._arguments = OrderedDict()` -/\n"
            "def resetsArguments : Bool := %s\n"
            "/-- `parse()` starts with `self._options = OrderedDict()` -/\n"
            "def resetsOptions : Bool := %s\n\nend Clikit.Gen.C05\n"
            % ("true" if reset["_arguments"] else "false", "true" if reset["_options"] else "false"))
    return {"C05.lean": text}
