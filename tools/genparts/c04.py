"""C04: the status normalisation of `Command.handle`, read from the current source with `ast`:
the statement `return min(max(int(status_code), 1), 255)` becomes a Lean function of the integer
`int(status_code)`, and the guard before it (`if not status_code: return 0`) is checked to be there.

Strict: the whole body must be `try: <var> = <call> except ...`, the guard, the return - or the guard and the
return in a helper method called as `return self.<helper>(<var>)`; named module/class constants are read
through.  Anything else between the handler call and the return is not read (Untranslatable)."""
import ast


def _minmax(api, e, var, rel):
    """translate nested min/max over `int(var)` and integer literals"""
    if isinstance(e, ast.Constant) and isinstance(e.value, int) and not isinstance(e.value, bool):
        return "(%d : Int)" % e.value
    if isinstance(e, ast.Call) and isinstance(e.func, ast.Name) and e.func.id == "int" and len(e.args) == 1 \
            and not e.keywords and isinstance(e.args[0], ast.Name) and e.args[0].id == var:
        return "n"
    if isinstance(e, ast.Call) and isinstance(e.func, ast.Name) and e.func.id in ("min", "max") and len(e.args) == 2 \
            and not e.keywords:
        return "(%s %s %s)" % (e.func.id, _minmax(api, e.args[0], var, rel), _minmax(api, e.args[1], var, rel))
    if isinstance(e, ast.BinOp) and isinstance(e.op, ast.Mod):
        return "(%s %% %s)" % (_minmax(api, e.left, var, rel), _minmax(api, e.right, var, rel))
    raise api.P.Untranslatable("%s:%s: status expression outside the translated subset: %s"
                               % (rel, getattr(e, "lineno", "?"), ast.dump(e)[:150]))


def _is_zero_guard(st, var):
    """`if not <var>: return 0`"""
    return (isinstance(st, ast.If) and isinstance(st.test, ast.UnaryOp) and isinstance(st.test.op, ast.Not)
            and isinstance(st.test.operand, ast.Name) and st.test.operand.id == var and len(st.body) == 1
            and isinstance(st.body[0], ast.Return) and isinstance(st.body[0].value, ast.Constant)
            and st.body[0].value.value == 0 and not isinstance(st.body[0].value.value, bool) and not st.orelse)


def _tail(api, stmts, var, rel, where):
    """the statements after the handler result is in `var`: exactly the guard and the final return"""
    if not (len(stmts) == 2 and _is_zero_guard(stmts[0], var) and isinstance(stmts[1], ast.Return)
            and stmts[1].value is not None):
        st = stmts[0] if stmts else None
        raise api.P.Untranslatable("%s:%s: %s: expected exactly `if not %s: return 0` and `return <status expression>` "
                                   "after the handler call" % (rel, getattr(st, "lineno", "?"), where, var))
    return stmts[1]


def generate(api):
    P = api.P
    tree, rel = api.parse("api/command/command.py")
    fn = P.inline_literals(P.find_function(tree, "Command", "handle", rel), tree, "Command")
    body = P.strip_doc(fn.body)
    # strict shape: `try: <var> = <call>` (its handlers only run when there is no handler result), then either the
    # guard and the final return, or `return self.<helper>(<var>)` whose whole body is the guard and the return
    # (one level of read-through).  Nothing else may stand between the call and the return.
    first = body[0] if body else None
    ok = (isinstance(first, ast.Try) and not first.orelse and not first.finalbody and len(first.body) == 1
          and isinstance(first.body[0], ast.Assign) and len(first.body[0].targets) == 1
          and isinstance(first.body[0].targets[0], ast.Name) and isinstance(first.body[0].value, ast.Call))
    if not ok:
        raise P.Untranslatable("%s:%d: Command.handle does not start with `try: <var> = <handler call>` / except ..."
                               % (rel, getattr(first, "lineno", fn.lineno)))
    var = first.body[0].targets[0].id
    rest = body[1:]
    ret = None
    if len(rest) == 1 and isinstance(rest[0], ast.Return) and isinstance(rest[0].value, ast.Call):
        call = rest[0].value
        f = call.func
        if (isinstance(f, ast.Attribute) and isinstance(f.value, ast.Name) and f.value.id in ("self", "Command")
                and len(call.args) == 1 and not call.keywords and isinstance(call.args[0], ast.Name)
                and call.args[0].id == var):
            helper = P.inline_literals(P.find_function(tree, "Command", f.attr, rel), tree, "Command")
            static = any(isinstance(d, ast.Name) and d.id == "staticmethod" for d in helper.decorator_list)
            params = [a.arg for a in helper.args.args]
            a = helper.args
            if (a.vararg or a.kwarg or a.kwonlyargs or a.posonlyargs or len(params) != (1 if static else 2)
                    or (f.value.id == "Command" and not static)):
                raise P.Untranslatable("%s:%d: Command.%s: unexpected parameters" % (rel, helper.lineno, f.attr))
            var = params[-1]
            ret = _tail(api, P.strip_doc(helper.body), var, rel, "Command.%s" % f.attr)
    if ret is None:
        ret = _tail(api, rest, var, rel, "Command.handle")
    expr = _minmax(api, ret.value, var, rel)
    text = (api.HEADER + "namespace Clikit.Gen.C04\n\n"
            "/-- `Command.handle`, last statement: the status for a truthy handler result whose `int()` is `n`\n"
            "(line %d of %s) -/\n"
            "def clampStatus (n : Int) : Int := %s\n\nend Clikit.Gen.C04\n" % (ret.lineno, rel, expr))
    return {"C04.lean": text}
