"""C04: the status normalisation of `Command.handle`, read from the current source with `ast`:
the statement `return min(max(int(status_code), 1), 255)` becomes a Lean function of the integer
`int(status_code)`, and the guard before it (`if not status_code: return 0`) is checked to be there."""
import ast


def _minmax(api, e, var, rel):
    """translate nested min/max over `int(var)` and integer literals"""
    if isinstance(e, ast.Constant) and isinstance(e.value, int) and not isinstance(e.value, bool):
        return "(%d : Int)" % e.value
    if isinstance(e, ast.Call) and isinstance(e.func, ast.Name) and e.func.id == "int" and len(e.args) == 1 \
            and isinstance(e.args[0], ast.Name) and e.args[0].id == var:
        return "n"
    if isinstance(e, ast.Call) and isinstance(e.func, ast.Name) and e.func.id in ("min", "max") and len(e.args) == 2:
        return "(%s %s %s)" % (e.func.id, _minmax(api, e.args[0], var, rel), _minmax(api, e.args[1], var, rel))
    if isinstance(e, ast.BinOp) and isinstance(e.op, ast.Mod):
        return "(%s %% %s)" % (_minmax(api, e.left, var, rel), _minmax(api, e.right, var, rel))
    raise api.P.Untranslatable("%s:%s: status expression outside the translated subset: %s"
                               % (rel, getattr(e, "lineno", "?"), ast.dump(e)[:150]))


def generate(api):
    tree, rel = api.parse("api/command/command.py")
    fn = api.P.find_function(tree, "Command", "handle", rel)
    body = [s for s in fn.body if not (isinstance(s, ast.Expr) and isinstance(s.value, ast.Constant))]
    if len(body) < 3 or not isinstance(body[-1], ast.Return):
        raise api.P.Untranslatable("%s: Command.handle does not end in a return" % rel)
    guard = body[-2]
    ok = (isinstance(guard, ast.If) and isinstance(guard.test, ast.UnaryOp) and isinstance(guard.test.op, ast.Not)
          and isinstance(guard.test.operand, ast.Name) and len(guard.body) == 1 and isinstance(guard.body[0], ast.Return)
          and isinstance(guard.body[0].value, ast.Constant) and guard.body[0].value.value == 0 and not guard.orelse)
    if not ok:
        raise api.P.Untranslatable("%s:%s: expected `if not status_code: return 0` before the final return"
                                   % (rel, guard.lineno))
    var = guard.test.operand.id
    expr = _minmax(api, body[-1].value, var, rel)
    text = (api.HEADER + "namespace Clikit.Gen.C04\n\n"
            "/-- `Command.handle`, last statement: the status for a truthy handler result whose `int()` is `n`\n"
            "(line %d of %s) -/\n"
            "def clampStatus (n : Int) : Int := %s\n\nend Clikit.Gen.C04\n" % (body[-1].lineno, rel, expr))
    return {"C04.lean": text}
