"""C17: the two places where hidden state could survive a call, read from the current source:
(a) how `HelpResolver.create_resolved_command` restores the leniency setting it switches on;
(b) how the predefined `TableStyle` factories obtain and customise their border style."""
import ast


def _help(api):
    tree, rel = api.parse("resolver/help_resolver.py")
    fn = api.P.find_function(tree, "HelpResolver", "create_resolved_command", rel)
    src = ast.dump(fn)
    if "enable_lenient_args_parsing" not in src:
        raise api.P.Untranslatable("%s: create_resolved_command no longer enables lenient parsing" % rel)
    saved_var = None
    for st in fn.body:
        if (isinstance(st, ast.Assign) and isinstance(st.value, ast.Attribute) and st.value.attr == "_lenient_args_parsing"
                and isinstance(st.targets[0], ast.Name)):
            saved_var = st.targets[0].id
    restores_finally = False
    restores_after = False
    saves_previous = False

    def is_restore(s):
        nonlocal saves_previous
        if (isinstance(s, ast.Assign) and isinstance(s.targets[0], ast.Attribute)
                and s.targets[0].attr == "_lenient_args_parsing"):
            if isinstance(s.value, ast.Name) and s.value.id == saved_var:
                saves_previous = True
            return True
        if isinstance(s, ast.Expr) and isinstance(s.value, ast.Call) and isinstance(s.value.func, ast.Attribute) \
                and s.value.func.attr == "disable_lenient_args_parsing":
            return True
        return False

    for st in fn.body:
        if isinstance(st, ast.Try):
            if any(is_restore(s) for s in st.finalbody):
                restores_finally = True
        elif is_restore(st):
            restores_after = True
    return restores_finally, restores_after, saves_previous


FIELDS = ["line_ht_char", "line_hc_char", "line_hb_char", "line_vl_char", "line_vc_char", "line_vr_char",
          "corner_tl_char", "corner_tr_char", "corner_bl_char", "corner_br_char", "crossing_c_char", "crossing_l_char",
          "crossing_t_char", "crossing_r_char", "crossing_b_char"]


def _styles(api):
    tree, rel = api.parse("ui/style/table_style.py")
    out = []
    for name in ("borderless", "compact", "ascii", "solid"):
        fn = api.P.find_function(tree, "TableStyle", name, rel)
        base, copies, sets = None, False, []
        for st in fn.body:
            if not isinstance(st, ast.Assign) or not isinstance(st.targets[0], ast.Attribute):
                continue
            t = st.targets[0]
            if t.attr == "border_style" and isinstance(t.value, ast.Name):
                v = st.value
                if isinstance(v, ast.Call) and isinstance(v.func, ast.Attribute) and getattr(v.func.value, "id", None) == "copy" \
                        and v.func.attr in ("copy", "deepcopy") and len(v.args) == 1:
                    copies, v = True, v.args[0]
                if isinstance(v, ast.Call) and isinstance(v.func, ast.Attribute) and getattr(v.func.value, "id", None) == "BorderStyle":
                    base = v.func.attr
                else:
                    raise api.P.Untranslatable("%s:%d: border style of TableStyle.%s is not BorderStyle.<factory>()" % (rel, st.lineno, name))
            elif isinstance(t.value, ast.Attribute) and t.value.attr == "border_style":
                if t.attr not in FIELDS or not (isinstance(st.value, ast.Constant) and isinstance(st.value.value, str)):
                    raise api.P.Untranslatable("%s:%d: unexpected border customisation" % (rel, st.lineno))
                sets.append((FIELDS.index(t.attr), st.value.value))
        if base is None:
            raise api.P.Untranslatable("%s: TableStyle.%s does not set a border style" % (rel, name))
        out.append((name, base, copies, sets))
    # the cached border styles
    treeb, relb = api.parse("ui/style/border_style.py")
    bases = {}
    init = api.P.find_function(treeb, "BorderStyle", "__init__", relb)
    default = {}
    for st in init.body:
        if isinstance(st, ast.Assign) and isinstance(st.targets[0], ast.Attribute) and st.targets[0].attr in FIELDS:
            default[st.targets[0].attr] = st.value.value
    for bname in ("none", "ascii", "solid"):
        fn = api.P.find_function(treeb, "BorderStyle", bname, relb)
        vals = dict(default)
        slot = "cls._%s" % bname
        # strict shape: `if cls._x is None: style = cls(); style.<field> = "<const>" ...; cls._x = style` then
        # `return cls._x`; anything else is not read (a half-read factory would silently give the defaults)
        body = [st for st in fn.body if not (isinstance(st, ast.Expr) and isinstance(st.value, ast.Constant))]
        ok = len(body) == 2 and isinstance(body[0], ast.If) and not body[0].orelse \
            and ast.unparse(body[0].test) == "%s is None" % slot \
            and isinstance(body[1], ast.Return) and ast.unparse(body[1].value) == slot
        if ok:
            inner = body[0].body
            ok = len(inner) >= 2 and ast.unparse(inner[0]) == "style = cls()" and ast.unparse(inner[-1]) == "%s = style" % slot
            for n in inner[1:-1] if ok else []:
                if isinstance(n, ast.Assign) and len(n.targets) == 1 and isinstance(n.targets[0], ast.Attribute) \
                        and ast.unparse(n.targets[0].value) == "style" and n.targets[0].attr in FIELDS \
                        and isinstance(n.value, ast.Constant) and isinstance(n.value.value, str):
                    vals[n.targets[0].attr] = n.value.value
                else:
                    ok = False
        if not ok:
            raise api.P.Untranslatable("%s:%d: BorderStyle.%s is not of the shape `if cls._%s is None: style = cls(); "
                                       "style.<field> = <text>...; cls._%s = style` / `return cls._%s`"
                                       % (relb, fn.lineno, bname, bname, bname, bname))
        cached = True
        if len(vals) != len(FIELDS):
            raise api.P.Untranslatable("%s: BorderStyle fields changed" % relb)
        bases[bname] = (cached, [vals[f] for f in FIELDS])
    return out, bases


def generate(api):
    rf, ra, sp = _help(api)
    styles, bases = _styles(api)
    b = lambda x: "true" if x else "false"  # noqa
    L = [api.HEADER, "namespace Clikit.Gen.C17\n",
         "/-- `HelpResolver.create_resolved_command` restores the leniency setting in a `finally` block -/",
         "def helpRestoresInFinally : Bool := %s" % b(rf),
         "/-- ... or (only) after the call returned normally -/",
         "def helpRestoresAfterReturn : Bool := %s" % b(ra),
         "/-- it restores the value it found (rather than switching leniency off) -/",
         "def helpRestoresPrevious : Bool := %s\n" % b(sp),
         "/-- number of character fields of a border style -/",
         "def borderFieldCount : Nat := %d\n" % len(FIELDS),
         "/-- the cached border styles `BorderStyle.none/ascii/solid()`: (is it a cached shared instance, field values) -/"]
    for k, bname in enumerate(("none", "ascii", "solid")):
        cached, vals = bases[bname]
        L.append("def border_%s : Bool × List String := (%s, [%s])" % (bname, b(cached), ", ".join(api.lean_str(v) for v in vals)))
    L.append("\n/-- the predefined table styles: (name, index of the cached border style it starts from (0 none, 1 ascii, 2 solid),")
    L.append("does it take a COPY of that instance, fields it then assigns) -/")
    L.append("def tableStyles : List (String × Nat × Bool × List (Nat × String)) :=\n  [" + ",\n   ".join(
        "(%s, %d, %s, [%s])" % (api.lean_str(n), ("none", "ascii", "solid").index(base), b(c),
                                 ", ".join("(%d, %s)" % (i, api.lean_str(v)) for i, v in sets))
        for n, base, c, sets in styles) + "]")
    L.append("\nend Clikit.Gen.C17\n")
    return {"C17.lean": "\n".join(L)}
