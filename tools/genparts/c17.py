"""C17: the two places where hidden state could survive a call, read from the current source:
(a) how `HelpResolver.create_resolved_command` restores the leniency setting it switches on;
(b) how the predefined `TableStyle` factories obtain and customise their border style."""
import ast


LENIENCY = ("_lenient_args_parsing", "enable_lenient_args_parsing", "disable_lenient_args_parsing",
            "is_lenient_args_parsing_enabled")


def _help(api):
    """Strict: every statement of create_resolved_command that mentions the leniency setting (or the variables that
    hold the configuration / the saved value) is accounted for:

        [<cfg> = result.command.config]  [<saved> = <cfg>._lenient_args_parsing]  <cfg>.enable_lenient_args_parsing()
        then either   try: <statements not concerned> finally: <restore>          (restores in `finally`)
        or            <statements not concerned, none leaves>  <restore>  <rest>  (restores after a normal return only)
        or            no restore at all
        <restore> is `<cfg>._lenient_args_parsing = <saved>` or `<cfg>.disable_lenient_args_parsing()`

    anything else is not read."""
    P = api.P
    U = P.Untranslatable
    tree, rel = api.parse("resolver/help_resolver.py")
    fn = P.find_function(tree, "HelpResolver", "create_resolved_command", rel, decorators=())
    body = P.strip_doc(fn.body)
    cfg = saved = None
    i = 0

    def concerned(st):
        return P.mentions(st, names=tuple(x for x in (cfg, saved) if x), attrs=LENIENCY)

    def cfg_expr(e):
        return ast.unparse(e) == (cfg or "result.command.config")

    # leading statements
    enabled = False
    while i < len(body) and not enabled:
        st = body[i]
        if (cfg is None and isinstance(st, ast.Assign) and len(st.targets) == 1 and isinstance(st.targets[0], ast.Name)
                and ast.unparse(st.value) == "result.command.config"):
            cfg = st.targets[0].id
        elif (saved is None and isinstance(st, ast.Assign) and len(st.targets) == 1 and isinstance(st.targets[0], ast.Name)
              and isinstance(st.value, ast.Attribute) and st.value.attr == "_lenient_args_parsing" and cfg_expr(st.value.value)):
            saved = st.targets[0].id
        elif (isinstance(st, ast.Expr) and isinstance(st.value, ast.Call) and not st.value.args and not st.value.keywords
              and isinstance(st.value.func, ast.Attribute) and st.value.func.attr == "enable_lenient_args_parsing"
              and cfg_expr(st.value.func.value)):
            enabled = True
        elif concerned(st) or P.exits(st) or P.mentions(st, names=("result",)) and any(
                isinstance(n, ast.Name) and n.id == "result" and isinstance(n.ctx, ast.Store) for n in ast.walk(st)):
            raise U("%s:%d: create_resolved_command: statement before lenient parsing is enabled not understood: `%s`"
                    % (rel, st.lineno, ast.unparse(st).split("\n")[0][:80]))
        i += 1
    if not enabled:
        raise U("%s: create_resolved_command no longer enables lenient parsing" % rel)
    rest = body[i:]
    saves_previous = [False]

    def is_restore(st):
        if (isinstance(st, ast.Assign) and len(st.targets) == 1 and isinstance(st.targets[0], ast.Attribute)
                and st.targets[0].attr == "_lenient_args_parsing" and cfg_expr(st.targets[0].value)
                and saved is not None and isinstance(st.value, ast.Name) and st.value.id == saved):
            saves_previous[0] = True
            return True
        return (isinstance(st, ast.Expr) and isinstance(st.value, ast.Call) and not st.value.args and not st.value.keywords
                and isinstance(st.value.func, ast.Attribute) and st.value.func.attr == "disable_lenient_args_parsing"
                and cfg_expr(st.value.func.value))

    def rebinding(sts):
        return any(isinstance(n, ast.Name) and n.id in (cfg, saved) and isinstance(n.ctx, (ast.Store, ast.Del))
                   for st in sts for n in ast.walk(st))

    hits = [k for k, st in enumerate(rest) if concerned(st)]
    if not hits:
        return False, False, False
    if len(hits) != 1:
        raise U("%s:%d: create_resolved_command touches the leniency setting in more than one later statement"
                % (rel, rest[hits[1]].lineno))
    st = rest[hits[0]]
    before, after = rest[:hits[0]], rest[hits[0] + 1:]
    if isinstance(st, ast.Try):
        fin = P.strip_doc(st.finalbody)
        inner = st.body + st.orelse + [x for h in st.handlers for x in h.body]
        if (len(fin) == 1 and is_restore(fin[0]) and not P.mentions(inner, names=tuple(x for x in (cfg, saved) if x), attrs=LENIENCY)
                and not P.exits(before) and not rebinding(before + inner)):
            return True, False, saves_previous[0]
    elif is_restore(st) and not P.exits(before) and not rebinding(before):
        return False, True, saves_previous[0]
    raise U("%s:%d: create_resolved_command: how the leniency setting is restored is not understood: `%s`"
            % (rel, st.lineno, ast.unparse(st).split("\n")[0][:80]))


FIELDS = ["line_ht_char", "line_hc_char", "line_hb_char", "line_vl_char", "line_vc_char", "line_vr_char",
          "corner_tl_char", "corner_tr_char", "corner_bl_char", "corner_br_char", "crossing_c_char", "crossing_l_char",
          "crossing_t_char", "crossing_r_char", "crossing_b_char"]


def _styles(api):
    tree, rel = api.parse("ui/style/table_style.py")
    out = []
    api.P.plain_import(tree, "copy", rel)
    api.P.imported_as(tree, "BorderStyle", (".border_style", "clikit.ui.style.border_style"), rel)
    for name in ("borderless", "compact", "ascii", "solid"):
        fn = api.P.find_function(tree, "TableStyle", name, rel, decorators=("classmethod",))
        base, copies, sets = None, False, []
        # strict: `style = TableStyle()`, then only assignments to attributes of `style` (the border style itself, its
        # character fields after that, anything else that is not the border), then `return style`
        body = api.P.strip_doc(fn.body)
        if not (len(body) >= 2 and ast.unparse(body[0]) in ("style = TableStyle()", "style = cls()")
                and ast.unparse(body[-1]) == "return style" and len(fn.decorator_list) == 1
                and [a.arg for a in fn.args.args] == ["cls"]):
            raise api.P.Untranslatable("%s:%d: TableStyle.%s is not `style = TableStyle()` ... `return style`" % (rel, fn.lineno, name))
        for st in body[1:-1]:
            if not (isinstance(st, ast.Assign) and len(st.targets) == 1 and isinstance(st.targets[0], ast.Attribute)):
                raise api.P.Untranslatable("%s:%d: TableStyle.%s: statement not understood" % (rel, st.lineno, name))
            t = st.targets[0]
            if t.attr == "border_style" and isinstance(t.value, ast.Name) and t.value.id == "style" and base is None:
                v = st.value
                if isinstance(v, ast.Call) and ast.unparse(v.func) in ("copy.copy", "copy.deepcopy") and len(v.args) == 1 \
                        and not v.keywords:
                    copies, v = True, v.args[0]
                if isinstance(v, ast.Call) and isinstance(v.func, ast.Attribute) and getattr(v.func.value, "id", None) == "BorderStyle" \
                        and not v.args and not v.keywords:
                    base = v.func.attr
                else:
                    raise api.P.Untranslatable("%s:%d: border style of TableStyle.%s is not BorderStyle.<factory>()" % (rel, st.lineno, name))
            elif ast.unparse(t.value) == "style.border_style" and base is not None:
                if t.attr not in FIELDS or not (isinstance(st.value, ast.Constant) and isinstance(st.value.value, str)):
                    raise api.P.Untranslatable("%s:%d: unexpected border customisation" % (rel, st.lineno))
                sets.append((FIELDS.index(t.attr), st.value.value))
            elif isinstance(t.value, ast.Name) and t.value.id == "style" and t.attr != "border_style" \
                    and not api.P.mentions(st.value, names=("style", "BorderStyle"), attrs=("border_style",)):
                pass  # another attribute of the fresh table style: no border state involved
            else:
                raise api.P.Untranslatable("%s:%d: TableStyle.%s: statement not understood" % (rel, st.lineno, name))
        if base is None:
            raise api.P.Untranslatable("%s: TableStyle.%s does not set a border style" % (rel, name))
        # the assignments in the order of the fields, a field assigned twice keeps its last value (same end state)
        out.append((name, base, copies, sorted(dict(sets).items())))
    # the cached border styles
    treeb, relb = api.parse("ui/style/border_style.py")
    bases = {}
    init = api.P.find_function(treeb, "BorderStyle", "__init__", relb, decorators=())
    default = {}
    for st in api.P.strip_doc(init.body):
        # only `self.<field> = "<text>"` (each field once) and `self.style = None`
        ok = (isinstance(st, ast.Assign) and len(st.targets) == 1 and isinstance(st.targets[0], ast.Attribute)
              and isinstance(st.targets[0].value, ast.Name) and st.targets[0].value.id == "self"
              and isinstance(st.value, ast.Constant))
        if ok and st.targets[0].attr in FIELDS and st.targets[0].attr not in default and isinstance(st.value.value, str):
            default[st.targets[0].attr] = st.value.value
        elif ok and st.targets[0].attr == "style" and st.value.value is None:
            pass
        else:
            raise api.P.Untranslatable("%s:%d: BorderStyle.__init__: statement not understood" % (relb, st.lineno))
    if [a.arg for a in init.args.args] != ["self"]:
        raise api.P.Untranslatable("%s:%d: BorderStyle.__init__(self) expected" % (relb, init.lineno))
    for bname in ("none", "ascii", "solid"):
        fn = api.P.find_function(treeb, "BorderStyle", bname, relb, decorators=("classmethod",))
        if len(fn.decorator_list) != 1 or [a.arg for a in fn.args.args] != ["cls"]:
            raise api.P.Untranslatable("%s:%d: BorderStyle.%s is not a plain classmethod" % (relb, fn.lineno, bname))
        api.P.class_slot_is_none(treeb, "BorderStyle", "_" + bname, relb)
        if len([x for x in ast.walk(treeb) if isinstance(x, ast.Attribute) and x.attr == "_" + bname
                and isinstance(x.ctx, (ast.Store, ast.Del))]) != 1:
            raise api.P.Untranslatable("%s: BorderStyle._%s is assigned in more than one place" % (relb, bname))
        vals = dict(default)
        slot = "cls._%s" % bname
        # strict shape: `if cls._x is None: style = cls(); style.<field> = "<const>" ...; cls._x = style` then
        # `return cls._x`; anything else is not read (a half-read factory would silently give the defaults)
        body = [st for st in fn.body if not (isinstance(st, ast.Expr) and isinstance(st.value, ast.Constant))]
        ok = len(body) == 2 and isinstance(body[0], ast.If) and not body[0].orelse \
            and ast.unparse(body[0].test) == "%s is None" % slot \
            and isinstance(body[1], ast.Return) and ast.unparse(body[1].value) == slot
        if ok:
            inner = body[0].body
            ok = len(inner) >= 2 and ast.unparse(inner[0]) == "style = cls()" and ast.unparse(inner[-1]) == "%s = style" % slot
            for n in inner[1:-1] if ok else []:
                if isinstance(n, ast.Assign) and len(n.targets) == 1 and isinstance(n.targets[0], ast.Attribute) \
                        and ast.unparse(n.targets[0].value) == "style" and n.targets[0].attr in FIELDS \
                        and isinstance(n.value, ast.Constant) and isinstance(n.value.value, str):
                    vals[n.targets[0].attr] = n.value.value
                else:
                    ok = False
        if not ok:
            raise api.P.Untranslatable("%s:%d: BorderStyle.%s is not of the shape `if cls._%s is None: style = cls(); "
                                       "style.<field> = <text>...; cls._%s = style` / `return cls._%s`"
                                       % (relb, fn.lineno, bname, bname, bname, bname))
        cached = True
        if len(vals) != len(FIELDS):
            raise api.P.Untranslatable("%s: BorderStyle fields changed" % relb)
        bases[bname] = (cached, [vals[f] for f in FIELDS])
    return out, bases


def generate(api):
    rf, ra, sp = _help(api)
    styles, bases = _styles(api)
    b = lambda x: "true" if x else "false"  # noqa
    L = [api.HEADER, "namespace Clikit.Gen.C17\n",
         "/-- `HelpResolver.create_resolved_command` restores the leniency setting in a `finally` block -/",
         "def helpRestoresInFinally : Bool := %s" % b(rf),
         "/-- ... or (only) after the call returned normally -/",
         "def helpRestoresAfterReturn : Bool := %s" % b(ra),
         "/-- it restores the value it found (rather than switching leniency off) -/",
         "def helpRestoresPrevious : Bool := %s\n" % b(sp),
         "/-- number of character fields of a border style -/",
         "def borderFieldCount : Nat := %d\n" % len(FIELDS),
         "/-- the cached border styles `BorderStyle.none/ascii/solid()`: (is it a cached shared instance, field values) -/"]
    for k, bname in enumerate(("none", "ascii", "solid")):
        cached, vals = bases[bname]
        L.append("def border_%s : Bool × List String := (%s, [%s])" % (bname, b(cached), ", ".join(api.lean_str(v) for v in vals)))
    L.append("\n/-- the predefined table styles: (name, index of the cached border style it starts from (0 none, 1 ascii, 2 solid),")
    L.append("does it take a COPY of that instance, fields it then assigns) -/")
    L.append("def tableStyles : List (String × Nat × Bool × List (Nat × String)) :=\n  [" + ",\n   ".join(
        "(%s, %d, %s, [%s])" % (api.lean_str(n), ("none", "ascii", "solid").index(base), b(c),
                                 ", ".join("(%d, %s)" % (i, api.lean_str(v)) for i, v in sets))
        for n, base, c, sets in styles) + "]")
    L.append("\nend Clikit.Gen.C17\n")
    return {"C17.lean": "\n".join(L)}
