"""C09: the decision structure of `DefaultApplicationConfig.create_io`, `resolve_help_command` and
`print_version`, read from the current source with `ast` and emitted as Lean functions of
`has : Str -> Bool` (= `args.has_option_token`) and the config's debug flag."""
import ast


def _cond(api, e, rel):
    """a test made of `args.has_option_token("...")`, `self.is_debug()`, `or`"""
    if isinstance(e, ast.BoolOp) and isinstance(e.op, ast.Or):
        return "(" + " || ".join(_cond(api, v, rel) for v in e.values) + ")"
    if isinstance(e, ast.Call) and isinstance(e.func, ast.Attribute):
        f = e.func
        if isinstance(f.value, ast.Name) and f.value.id == "args":
            if f.attr != "has_option_token":
                raise api.P.Untranslatable("%s:%d: switch looked up with args.%s, not has_option_token" % (rel, e.lineno, f.attr))
            if len(e.args) == 1 and isinstance(e.args[0], ast.Constant) and isinstance(e.args[0].value, str):
                return "has %s.toList" % api.lean_str(e.args[0].value)
        if isinstance(f.value, ast.Name) and f.value.id == "self" and f.attr == "is_debug" and not e.args:
            return "debug"
    raise api.P.Untranslatable("%s:%s: test outside the translated subset: %s" % (rel, getattr(e, "lineno", "?"), ast.dump(e)[:120]))


def _chain(node):
    """flatten if/elif/else: [(test, body)...], else_body"""
    out = []
    while True:
        out.append((node.test, node.body))
        if len(node.orelse) == 1 and isinstance(node.orelse[0], ast.If):
            node = node.orelse[0]
        else:
            return out, node.orelse


def _is_call_on(stmt, obj, meth):
    return (isinstance(stmt, ast.Expr) and isinstance(stmt.value, ast.Call) and isinstance(stmt.value.func, ast.Attribute)
            and isinstance(stmt.value.func.value, ast.Name) and stmt.value.func.value.id == obj
            and stmt.value.func.attr == meth)


def generate(api):
    tree, rel = api.parse("config/default_application_config.py")
    fn = api.P.find_function(tree, "DefaultApplicationConfig", "create_io", rel)
    ansi = verb = quiet = inter = None
    for st in fn.body:
        if not isinstance(st, ast.If):
            continue
        chain, els = _chain(st)
        src = ast.dump(st)
        if "PlainFormatter" in src and "AnsiFormatter" in src:
            # formatter selection: which branch builds a plain / a forced ANSI formatter
            parts = []
            for test, body in chain:
                b = ast.dump(ast.Module(body=body, type_ignores=[]))
                if "AnsiFormatter" in b and "Constant(value=True)" in b and "PlainFormatter" not in b:
                    mode = ".forced"
                elif "PlainFormatter" in b and "AnsiFormatter" not in b:
                    mode = ".off"
                else:
                    raise api.P.Untranslatable("%s:%d: formatter branch not understood" % (rel, test.lineno))
                parts.append("if %s then %s" % (_cond(api, test, rel), mode))
            e = ast.dump(ast.Module(body=els, type_ignores=[]))
            if not ("supports_ansi" in e and "AnsiFormatter" in e and "PlainFormatter" in e):
                raise api.P.Untranslatable("%s: the default formatter branch does not follow the stream capability" % rel)
            ansi = " else ".join(parts) + " else .auto"
        elif all(len(b) == 1 and _is_call_on(b[0], "io", "set_verbosity") for _, b in chain) and not els:
            parts = []
            for test, body in chain:
                lvl = body[0].value.args[0]
                if not isinstance(lvl, ast.Name):
                    raise api.P.Untranslatable("%s:%d: verbosity level is not a named constant" % (rel, test.lineno))
                parts.append("if %s then IOFlags.%s" % (_cond(api, test, rel), lvl.id))
            verb = " else ".join(parts) + " else IOFlags.NORMAL"
        elif len(chain) == 1 and not els and len(st.body) == 1 and _is_call_on(st.body[0], "io", "set_quiet"):
            arg = st.body[0].value.args[0]
            if not (isinstance(arg, ast.Constant) and arg.value is True):
                raise api.P.Untranslatable("%s: set_quiet argument" % rel)
            quiet = _cond(api, st.test, rel)
        elif len(chain) == 1 and not els and len(st.body) == 1 and _is_call_on(st.body[0], "io", "set_interactive"):
            arg = st.body[0].value.args[0]
            if not (isinstance(arg, ast.Constant) and arg.value is False):
                raise api.P.Untranslatable("%s: set_interactive argument" % rel)
            inter = _cond(api, st.test, rel)
    if None in (ansi, verb, quiet, inter):
        raise api.P.Untranslatable("%s: create_io no longer has the four switch decisions (ansi=%s verbosity=%s quiet=%s interaction=%s)"
                                   % (rel, ansi is not None, verb is not None, quiet is not None, inter is not None))
    # help listener
    fh = api.P.find_function(tree, "DefaultApplicationConfig", "resolve_help_command", rel)
    help_if = [s for s in fh.body if isinstance(s, ast.If)]
    if len(help_if) != 1 or "set_resolved_command" not in ast.dump(help_if[0]) or "stop_propagation" not in ast.dump(help_if[0]):
        raise api.P.Untranslatable("%s: resolve_help_command changed shape" % rel)
    help_c = _cond(api, help_if[0].test, rel)
    # version listener: event.args.is_option_set("version")
    fv = api.P.find_function(tree, "DefaultApplicationConfig", "print_version", rel)
    v_if = [s for s in fv.body if isinstance(s, ast.If)]
    ok = (len(v_if) == 1 and isinstance(v_if[0].test, ast.Call) and isinstance(v_if[0].test.func, ast.Attribute)
          and v_if[0].test.func.attr == "is_option_set" and len(v_if[0].test.args) == 1
          and isinstance(v_if[0].test.args[0], ast.Constant) and "handled" in ast.dump(v_if[0]))
    if not ok:
        raise api.P.Untranslatable("%s: print_version changed shape" % rel)
    version_opt = v_if[0].test.args[0].value
    text = (api.HEADER + "import Clikit.Gen.Consts\nnamespace Clikit.Gen.C09\n\n"
            "inductive AnsiMode where\n  | off | forced | auto\n  deriving DecidableEq, Repr, Inhabited\n\n"
            "/-- formatter selection of `create_io` -/\n"
            "def ansiMode (has : List Char → Bool) : AnsiMode :=\n  %s\n\n"
            "/-- verbosity selection of `create_io` -/\n"
            "def verbosity (has : List Char → Bool) (debug : Bool) : Nat :=\n  %s\n\n"
            "def quiet (has : List Char → Bool) : Bool :=\n  %s\n\n"
            "/-- `io.set_interactive(False)` -/\n"
            "def interactionOff (has : List Char → Bool) : Bool :=\n  %s\n\n"
            "/-- the PRE_RESOLVE listener replaces the resolution by the help command -/\n"
            "def helpRequested (has : List Char → Bool) : Bool :=\n  %s\n\n"
            "/-- the option whose presence in the parsed args makes the PRE_HANDLE listener print the version -/\n"
            "def versionOption : List Char := %s.toList\n\nend Clikit.Gen.C09\n"
            % (ansi, verb, quiet, inter, help_c, api.lean_str(version_opt)))
    return {"C09.lean": text}
