"""C09: the decision structure of `DefaultApplicationConfig.create_io`, `resolve_help_command` and
`print_version`, read from the current source with `ast` and emitted as Lean functions of
`has : Str -> Bool` (= `args.has_option_token`) and the config's debug flag."""
import ast


def _cond(api, e, rel):
    """a test made of `args.has_option_token("...")`, `self.is_debug()`, `or`"""
    if isinstance(e, ast.BoolOp) and isinstance(e.op, ast.Or):
        return "(" + " || ".join(_cond(api, v, rel) for v in e.values) + ")"
    if isinstance(e, ast.Call) and isinstance(e.func, ast.Attribute):
        f = e.func
        if isinstance(f.value, ast.Name) and f.value.id == "args":
            if f.attr != "has_option_token":
                raise api.P.Untranslatable("%s:%d: switch looked up with args.%s, not has_option_token" % (rel, e.lineno, f.attr))
            if len(e.args) == 1 and not e.keywords and isinstance(e.args[0], ast.Constant) and isinstance(e.args[0].value, str):
                return "has %s.toList" % api.lean_str(e.args[0].value)
        if isinstance(f.value, ast.Name) and f.value.id == "self" and f.attr == "is_debug" and not e.args and not e.keywords:
            return "debug"
    raise api.P.Untranslatable("%s:%s: test outside the translated subset: %s" % (rel, getattr(e, "lineno", "?"), ast.dump(e)[:120]))


def _chain(node):
    """flatten if/elif/else: [(test, body)...], else_body"""
    out = []
    while True:
        out.append((node.test, node.body))
        if len(node.orelse) == 1 and isinstance(node.orelse[0], ast.If):
            node = node.orelse[0]
        else:
            return out, node.orelse


def _is_call_on(stmt, obj, meth):
    return (isinstance(stmt, ast.Expr) and isinstance(stmt.value, ast.Call) and isinstance(stmt.value.func, ast.Attribute)
            and isinstance(stmt.value.func.value, ast.Name) and stmt.value.func.value.id == obj
            and stmt.value.func.attr == meth)


CONCERNED = ("args", "io", "self", "output_formatter", "error_formatter", "AnsiFormatter", "PlainFormatter")


def _switch(api, st, rel, obj, meth, want):
    """`if <cond>: <obj>.<meth>(<want>)` with nothing else -> the condition"""
    ok = (not st.orelse and len(st.body) == 1 and _is_call_on(st.body[0], obj, meth)
          and len(st.body[0].value.args) == 1 and not st.body[0].value.keywords
          and isinstance(st.body[0].value.args[0], ast.Constant) and st.body[0].value.args[0].value is want)
    if not ok:
        raise api.P.Untranslatable("%s:%d: expected `if <switches>: %s.%s(%s)` and nothing else" % (rel, st.lineno, obj, meth, want))
    return _cond(api, st.test, rel)


def _create_io(api, tree, rel):
    """Every statement of create_io is accounted for: statements that mention none of `args`, `io`, `self`, the
    formatter variables and classes (and do not leave the function) are not concerned; the others must be, in this
    order, the formatter selection, the construction of `io`, then each of the three switch decisions exactly once,
    then `return io`."""
    P = api.P
    U = P.Untranslatable
    fn = P.inline_literals(P.find_function(tree, "DefaultApplicationConfig", "create_io", rel), tree, "DefaultApplicationConfig")
    params = [a.arg for a in fn.args.args]
    if params[:3] != ["self", "application", "args"] or fn.args.vararg or fn.args.kwarg:
        raise U("%s:%d: create_io(self, application, args, ...) expected" % (rel, fn.lineno))
    ansi = verb = quiet = inter = None
    stage = 0  # 0: before the formatter selection, 1: before `io = ...`, 2: switches, 3: after `return io`
    for st in P.strip_doc(fn.body):
        if not P.mentions(st, names=CONCERNED) and not P.exits(st):
            continue
        if stage == 0 and isinstance(st, ast.If):
            chain, els = _chain(st)
            parts = []
            for test, body in chain:
                text = ast.unparse(ast.Module(body=body, type_ignores=[]))
                if text == "output_formatter = error_formatter = PlainFormatter(style_set)":
                    mode = ".off"
                elif text == "output_formatter = error_formatter = AnsiFormatter(style_set, True)":
                    mode = ".forced"
                else:
                    raise U("%s:%d: formatter branch not understood: expected both formatters = PlainFormatter(style_set) "
                            "or AnsiFormatter(style_set, True)" % (rel, test.lineno))
                parts.append("if %s then %s" % (_cond(api, test, rel), mode))
            want = "\n".join("if %s_stream.supports_ansi():\n    %s_formatter = AnsiFormatter(style_set)\n"
                             "else:\n    %s_formatter = PlainFormatter(style_set)" % (x, x, x) for x in ("output", "error"))
            if ast.unparse(ast.Module(body=els, type_ignores=[])) != ast.unparse(ast.parse(want)):
                raise U("%s:%d: the default formatter branch does not follow the stream capability in the modelled way"
                        % (rel, st.lineno))
            ansi = " else ".join(parts) + " else .auto"
            stage = 1
        elif stage == 1 and ast.unparse(st) == ("io = self.io_class(Input(input_stream), Output(output_stream, output_formatter), "
                                                "Output(error_stream, error_formatter))"):
            stage = 2
        elif stage == 2 and isinstance(st, ast.If) and st.body and _is_call_on(st.body[0], "io", "set_verbosity") and verb is None:
            chain, els = _chain(st)
            parts = []
            for test, body in chain:
                ok = (len(body) == 1 and _is_call_on(body[0], "io", "set_verbosity") and len(body[0].value.args) == 1
                      and not body[0].value.keywords)
                lvl = body[0].value.args[0] if ok else None
                # the level is a flag constant imported from clikit.api.io.flags (read through to its number by the
                # module-literal pass only if it were defined here; as an import it stays a name)
                if not (ok and isinstance(lvl, ast.Name)):
                    raise U("%s:%d: expected `io.set_verbosity(<named level>)` and nothing else" % (rel, test.lineno))
                P.imported_as(tree, lvl.id, ("clikit.api.io.flags", "clikit.api.io"), rel)
                parts.append("if %s then IOFlags.%s" % (_cond(api, test, rel), lvl.id))
            if els:
                raise U("%s:%d: the verbosity chain has an else branch" % (rel, st.lineno))
            verb = " else ".join(parts) + " else IOFlags.NORMAL"
        elif stage == 2 and isinstance(st, ast.If) and st.body and _is_call_on(st.body[0], "io", "set_quiet") and quiet is None:
            quiet = _switch(api, st, rel, "io", "set_quiet", True)
        elif stage == 2 and isinstance(st, ast.If) and st.body and _is_call_on(st.body[0], "io", "set_interactive") and inter is None:
            inter = _switch(api, st, rel, "io", "set_interactive", False)
        elif stage == 2 and ast.unparse(st) == "return io" and None not in (verb, quiet, inter):
            stage = 3
        else:
            raise U("%s:%d: create_io: statement not understood here: `%s`" % (rel, st.lineno, ast.unparse(st).split("\n")[0][:80]))
    if stage != 3:
        raise U("%s: create_io no longer has the four switch decisions followed by `return io` (ansi=%s verbosity=%s quiet=%s interaction=%s)"
                % (rel, ansi is not None, verb is not None, quiet is not None, inter is not None))
    for name in ("AnsiFormatter", "PlainFormatter"):
        P.imported_as(tree, name, ("clikit.formatter",), rel)
    return ansi, verb, quiet, inter


def generate(api):
    P = api.P
    tree, rel = api.parse("config/default_application_config.py")
    ansi, verb, quiet, inter = _create_io(api, tree, rel)
    # help listener: `args = event.raw_args`, then one `if <switches>:` that sets the resolved command and stops
    fh = P.inline_literals(P.find_function(tree, "DefaultApplicationConfig", "resolve_help_command", rel), tree,
                           "DefaultApplicationConfig")
    if [a.arg for a in fh.args.args][:2] != ["self", "event"]:
        raise P.Untranslatable("%s:%d: resolve_help_command(self, event, ...) expected" % (rel, fh.lineno))
    th = P.Template("""
        STMTS_pre
        args = event.raw_args
        STMTS_mid
        if HOLE_test:
            STMTS_a
            event.set_resolved_command(HOLE_resolved)
            STMTS_b
            event.stop_propagation()
    """)

    def aside(st):
        # not concerned: does not touch `args` / `self`, does not leave, and reads at most a plain attribute of the event
        if P.mentions(st, names=("args", "self")) or P.exits(st):
            return False
        return not P.mentions(st, names=("event",)) or (
            isinstance(st, ast.Assign) and len(st.targets) == 1 and isinstance(st.targets[0], ast.Name)
            and st.targets[0].id != "event" and isinstance(st.value, ast.Attribute)
            and isinstance(st.value.value, ast.Name) and st.value.value.id == "event")
    th.preds["pre"] = th.preds["mid"] = aside
    # inside the branch the resolved command is built from `args`; only `event` must not be touched
    th.preds["a"] = th.preds["b"] = lambda st: not P.mentions(st, names=("event",)) and not P.exits(st)
    bh = th.match(fh.body, rel, "resolve_help_command")
    help_c = _cond(api, bh["test"], rel)
    # version listener: event.args.is_option_set("version")
    fv = P.inline_literals(P.find_function(tree, "DefaultApplicationConfig", "print_version", rel), tree,
                           "DefaultApplicationConfig")
    if [a.arg for a in fv.args.args][:2] != ["self", "event"]:
        raise P.Untranslatable("%s:%d: print_version(self, event, ...) expected" % (rel, fv.lineno))
    tv = P.Template("""
        if event.args.is_option_set(CONST_opt):
            STMTS_a
            event.handled(True)
    """, preds={"a": lambda st: not P.exits(st) and not any(
        isinstance(n, ast.Attribute) and n.attr in ("handled", "args", "stop_propagation") for n in ast.walk(st))})
    try:
        bv = tv.match(fv.body, rel, "print_version")
    except P.Untranslatable as e:
        raise P.Untranslatable("%s: print_version changed shape (%s)" % (rel, e))
    version_opt = bv["opt"].value
    if not isinstance(version_opt, str):
        raise P.Untranslatable("%s: print_version: option name is not a string" % rel)
    text = (api.HEADER + "import Clikit.Gen.Consts\nnamespace Clikit.Gen.C09\n\n"
            "inductive AnsiMode where\n  | off | forced | auto\n  deriving DecidableEq, Repr, Inhabited\n\n"
            "/-- formatter selection of `create_io` -/\n"
            "def ansiMode (has : List Char → Bool) : AnsiMode :=\n  %s\n\n"
            "/-- verbosity selection of `create_io` -/\n"
            "def verbosity (has : List Char → Bool) (debug : Bool) : Nat :=\n  %s\n\n"
            "def quiet (has : List Char → Bool) : Bool :=\n  %s\n\n"
            "/-- `io.set_interactive(False)` -/\n"
            "def interactionOff (has : List Char → Bool) : Bool :=\n  %s\n\n"
            "/-- the PRE_RESOLVE listener replaces the resolution by the help command -/\n"
            "def helpRequested (has : List Char → Bool) : Bool :=\n  %s\n\n"
            "/-- the option whose presence in the parsed args makes the PRE_HANDLE listener print the version -/\n"
            "def versionOption : List Char := %s.toList\n\nend Clikit.Gen.C09\n"
            % (ansi, verb, quiet, inter, help_c, api.lean_str(version_opt)))
    return {"C09.lean": text}
