"""
Tie A for C12: read from the current event_dispatcher.py

  * the key function of the `sorted(...)` call in `EventDispatcher._sort_listeners`
    (`key=lambda t: -t[0]`)  ->  `Clikit.Gen.C12.sortKey (p : Int) : Int`
  * the default priority of `add_listener`  ->  `Clikit.Gen.C12.defaultPriority : Int`

`Model/Dispatcher.lean` sorts the priority buckets by `sortKey`, so the refinement proof is
re-checked against the key the code uses now.  Anything but the expected shape
(`for … in sorted(self._listeners[event_name].items(), key=lambda t: <int expr over t[0]>)`,
no `reverse=`) is reported as a broken tie.
"""
import ast


def _key_expr(e, arg, P, where):
    """integer expression over t[0] -> Lean term over `p`"""
    if isinstance(e, ast.Subscript) and isinstance(e.value, ast.Name) and e.value.id == arg:
        idx = e.slice
        if isinstance(idx, ast.Constant) and idx.value == 0:
            return "p"
        raise P.Untranslatable("%s: the sort key reads %s[%s], expected %s[0] (the priority)"
                               % (where, arg, ast.dump(idx), arg))
    if isinstance(e, ast.UnaryOp) and isinstance(e.op, ast.USub):
        return "(-%s)" % _key_expr(e.operand, arg, P, where)
    if isinstance(e, ast.UnaryOp) and isinstance(e.op, ast.UAdd):
        return _key_expr(e.operand, arg, P, where)
    if isinstance(e, ast.Constant) and isinstance(e.value, int) and not isinstance(e.value, bool):
        return "(%d : Int)" % e.value
    if isinstance(e, ast.BinOp) and isinstance(e.op, (ast.Add, ast.Sub, ast.Mult)):
        op = {ast.Add: "+", ast.Sub: "-", ast.Mult: "*"}[type(e.op)]
        return "(%s %s %s)" % (_key_expr(e.left, arg, P, where), op, _key_expr(e.right, arg, P, where))
    if (isinstance(e, ast.Call) and isinstance(e.func, ast.Name) and e.func.id == "abs"
            and len(e.args) == 1 and not e.keywords):
        return "(Int.ofNat (Int.natAbs %s))" % _key_expr(e.args[0], arg, P, where)
    raise P.Untranslatable("%s: sort key expression not understood: %s" % (where, ast.dump(e)))


def generate(api):
    P = api.P
    tree, rel = api.parse("api/event/event_dispatcher.py")
    fn = P.find_function(tree, "EventDispatcher", "_sort_listeners", rel, decorators=())
    # strict: the whole method is `self._sorted[e] = []` and the two nested loops that append every listener of every
    # bucket in the order `sorted` gives (an `insert(0, ..)`, a `reversed(..)` or a second pass would change the order
    # without changing the key)
    if [a.arg for a in fn.args.args] != ["self", "event_name"]:
        raise P.Untranslatable("%s:%d: _sort_listeners(self, event_name) expected" % (rel, fn.lineno))
    b = P.Template("""
        self._sorted[event_name] = []
        for V_priority, V_listeners in HOLE_sorted:
            for V_listener in V_listeners:
                self._sorted[event_name].append(V_listener)
    """).match(fn.body, rel, "_sort_listeners")
    call = b["sorted"]
    if not (isinstance(call, ast.Call) and isinstance(call.func, ast.Name) and call.func.id == "sorted"):
        raise P.Untranslatable("%s:%d: _sort_listeners: expected exactly one sorted(...) call, found %s"
                               % (rel, call.lineno, ast.unparse(call)[:60]))
    kw = {k.arg: k.value for k in call.keywords}
    if set(kw) != {"key"} or len(call.args) != 1:
        raise P.Untranslatable("%s: _sort_listeners: expected sorted(<items>, key=<lambda>), got keywords %s"
                               % (rel, sorted(str(k) for k in kw)))
    if ast.unparse(call.args[0]) != "self._listeners[event_name].items()":
        raise P.Untranslatable("%s: _sort_listeners sorts %s, expected self._listeners[event_name].items()"
                               % (rel, ast.unparse(call.args[0])))
    lam = kw["key"]
    if not (isinstance(lam, ast.Lambda) and len(lam.args.args) == 1 and not lam.args.defaults
            and not lam.args.vararg and not lam.args.kwarg and not lam.args.kwonlyargs and not lam.args.posonlyargs):
        raise P.Untranslatable("%s: _sort_listeners: key is not a one-argument lambda" % rel)
    key = _key_expr(lam.body, lam.args.args[0].arg, P, rel)
    # the comment quotes the key with its parameter called `t`, whatever the source calls it
    import copy
    lam = copy.deepcopy(lam)
    old = lam.args.args[0].arg
    if old != "t" and any(isinstance(n, ast.Name) and n.id == "t" for n in ast.walk(lam.body)):
        raise P.Untranslatable("%s: _sort_listeners: the key uses a variable `t` that is not its parameter" % rel)
    for n in ast.walk(lam):
        if isinstance(n, ast.Name) and n.id == old:
            n.id = "t"
    lam.args.args[0].arg = "t"

    # add_listener: the default of `priority` is the priority a listener is filed under - the body must use the
    # parameter as it is (strict: the whole body is the modelled bucket insertion)
    add = P.find_function(tree, "EventDispatcher", "add_listener", rel, decorators=())
    names = [a.arg for a in add.args.args]
    if names != ["self", "event_name", "listener", "priority"] or len(add.args.defaults) != 1 \
            or add.args.vararg or add.args.kwarg or add.args.kwonlyargs:
        raise P.Untranslatable("%s: add_listener: expected (self, event_name, listener, priority=<int>)" % rel)
    P.Template("""
        if event_name not in self._listeners:
            self._listeners[event_name] = {}
        if priority not in self._listeners[event_name]:
            self._listeners[event_name][priority] = []
        self._listeners[event_name][priority].append(listener)
        if event_name in self._sorted:
            del self._sorted[event_name]
    """).match(add.body, rel, "add_listener")
    d = add.args.defaults[0]
    if isinstance(d, ast.UnaryOp) and isinstance(d.op, ast.USub) and isinstance(d.operand, ast.Constant):
        dv = -d.operand.value
    elif isinstance(d, ast.Constant):
        dv = d.value
    else:
        dv = None
    if not isinstance(dv, int) or isinstance(dv, bool):
        raise P.Untranslatable("%s: add_listener: the default priority is not an integer literal" % rel)

    text = (api.HEADER +
            "namespace Clikit.Gen.C12\n\n"
            "-- %s  EventDispatcher._sort_listeners (line %d): sorted(..., key=%s)\n"
            "/-- the sort key applied to a priority -/\n"
            "def sortKey (p : Int) : Int := %s\n\n"
            "-- %s  EventDispatcher.add_listener (line %d)\n"
            "def defaultPriority : Int := %d\n\n"
            "end Clikit.Gen.C12\n" % (rel, call.lineno, ast.unparse(lam), key, rel, add.lineno, dv))
    return {"C12.lean": text}
