"""
C15 (tie A): the control codes `SectionOutput._pop_stream_content_until_current_section` writes,
read from the current source with `ast`.  `Props/C15.lean` proves that the byte emitter of the
model (`Term.emitCmd`) produces exactly these codes, so changing a code in the source breaks a
proof obligation (and the byte-exact correspondence).
"""
import ast

REL = "api/io/section_output.py"
FUNC = "_pop_stream_content_until_current_section"


def _chars(api, s):
    def one(ch):
        o = ord(ch)
        if ch == "'":
            return "'\\''"
        if ch == "\\":
            return "'\\\\'"
        if o < 32 or o == 127:
            return "'\\x%02x'" % o
        return "'%s'" % ch
    return "[" + ", ".join(one(c) for c in s) + "]"


def generate(api):
    tree, rel = api.parse(REL)
    fn = None
    for node in ast.walk(tree):
        if isinstance(node, ast.FunctionDef) and node.name == FUNC:
            fn = node
    if fn is None:
        raise api.P.Untranslatable("%s: no function %s" % (REL, FUNC))
    # ast.walk is breadth-first; order the literals by position in the source
    pos = sorted((n.lineno, n.col_offset, n.value) for n in ast.walk(fn)
                 if isinstance(n, ast.Constant) and isinstance(n.value, str) and "\x1b" in n.value)
    codes = [v for _, _, v in pos]
    if len(codes) != 2 or codes[0].count("{}") != 1 or "{" in codes[1]:
        raise api.P.Untranslatable("%s:%s: expected a cursor-up format with one {} and one erase code, found %r"
                                   % (REL, FUNC, codes))
    pre, suf = codes[0].split("{}")
    text = api.HEADER + "\n".join([
        "import Clikit.Base",
        "namespace Clikit.Gen.C15",
        "",
        "/-- `%s`: the text before and after the row count -/" % codes[0].replace("\x1b", "ESC"),
        "def cursorUpPrefix : List Char := %s" % _chars(api, pre),
        "def cursorUpSuffix : List Char := %s" % _chars(api, suf),
        "/-- `%s` -/" % codes[1].replace("\x1b", "ESC"),
        "def eraseCode : List Char := %s" % _chars(api, codes[1]),
        "",
        "end Clikit.Gen.C15",
        ""])
    return {"C15.lean": text}
