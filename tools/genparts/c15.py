"""
C15 (tie A): the control codes `SectionOutput._pop_stream_content_until_current_section` writes,
read from the current source with `ast`.  `Props/C15.lean` proves that the byte emitter of the
model (`Term.emitCmd`) produces exactly these codes, so changing a code in the source breaks a
proof obligation (and the byte-exact correspondence).
"""
import ast

REL = "api/io/section_output.py"
FUNC = "_pop_stream_content_until_current_section"


def _chars(api, s):
    def one(ch):
        o = ord(ch)
        if ch == "'":
            return "'\\''"
        if ch == "\\":
            return "'\\\\'"
        if o < 32 or o == 127:
            return "'\\x%02x'" % o
        return "'%s'" % ch
    return "[" + ", ".join(one(c) for c in s) + "]"


def generate(api):
    P = api.P
    tree, rel = api.parse(REL)
    # strict: the whole method has the modelled shape (collect the sections above this one, and when there are rows to
    # clear write the cursor-up code with the row count and then the erase code, return the collected content); named
    # module / class constants are read through; only the two codes themselves are holes
    fn = P.inline_literals(P.find_function(tree, "SectionOutput", FUNC, rel, decorators=()), tree, "SectionOutput")
    a = fn.args
    if len(a.args) != 2 or a.args[0].arg != "self" or a.vararg or a.kwarg or a.kwonlyargs or \
            [ast.unparse(d) for d in a.defaults] != ["0"]:
        raise P.Untranslatable("%s:%d: %s(self, lines_to_clear_count=0) expected" % (REL, fn.lineno, FUNC))
    P.check_bases(tree, "SectionOutput", ["Output"], rel)
    b = P.Template("""
        def f(self, V_count=0):
            V_erased = []
            for V_section in self._sections:
                if V_section is self:
                    break
                V_count += V_section.lines
                V_erased.append(V_section.content)
            if V_count > 0:
                super(SectionOutput, self).write(CONST_up.format(V_count), with_indent=False)
                super(SectionOutput, self).write(CONST_erase, with_indent=False)
            return "".join(reversed(V_erased))
    """)
    f2 = ast.FunctionDef(name="f", args=fn.args, body=fn.body, decorator_list=[], returns=None, type_comment=None,
                         lineno=fn.lineno, col_offset=0)
    if hasattr(ast, "TypeAlias"):
        f2.type_params = []
    b = b.match([f2], REL, FUNC)
    codes = [b["up"].value, b["erase"].value]
    if not all(isinstance(c, str) and "\x1b" in c for c in codes) or codes[0].count("{}") != 1 \
            or "{" in codes[0].replace("{}", "") or "}" in codes[0].replace("{}", ""):
        raise api.P.Untranslatable("%s:%s: expected a cursor-up format with one {} and one erase code, found %r"
                                   % (REL, FUNC, codes))
    pre, suf = codes[0].split("{}")
    text = api.HEADER + "\n".join([
        "import Clikit.Base",
        "namespace Clikit.Gen.C15",
        "",
        "/-- `%s`: the text before and after the row count -/" % codes[0].replace("\x1b", "ESC"),
        "def cursorUpPrefix : List Char := %s" % _chars(api, pre),
        "def cursorUpSuffix : List Char := %s" % _chars(api, suf),
        "/-- `%s` -/" % codes[1].replace("\x1b", "ESC"),
        "def eraseCode : List Char := %s" % _chars(api, codes[1]),
        "",
        "end Clikit.Gen.C15",
        ""])
    return {"C15.lean": text}
