"""C19: the facts about `ProgressIndicator` that the hand-written spinner model hard-codes, read from the
current source with `ast`: which exceptions `auto()` catches and in which order its exception path and
`finish()` stop the spinner, how many stream writes a frame is, the throttle comparison of `advance`, the
spinner's sleep period and the constructor defaults."""
import ast

REL = "ui/components/progress_indicator.py"


def _tokens(stmts, vocab, U, rel, where, helper=None, depth=0):
    """every statement must be one of the known statements (compared as text); the result is their names in order.
    A call `self._x()` of a plain method without parameters whose whole body is again such statements is read through
    (one level)."""
    out = []
    for st in stmts:
        text = ast.unparse(st)
        if (text not in vocab and helper is not None and depth == 0 and isinstance(st, ast.Expr)
                and isinstance(st.value, ast.Call) and not st.value.args and not st.value.keywords
                and isinstance(st.value.func, ast.Attribute) and isinstance(st.value.func.value, ast.Name)
                and st.value.func.value.id == "self"):
            h = helper(st.value.func.attr)
            if h is not None:
                out.extend(_tokens([x for x in h.body if not (isinstance(x, ast.Expr) and isinstance(x.value, ast.Constant))],
                                   vocab, U, rel, where + " -> " + st.value.func.attr + "()", None, 1))
                continue
        if text not in vocab:
            raise U("%s:%d: %s: statement not understood: `%s`" % (rel, st.lineno, where, text.split("\n")[0][:80]))
        out.append(vocab[text])
    return out


STOP = {"self._auto_running.set()": "set", "self._auto_thread.join()": "join"}
EXC = dict(STOP, **{"self._io.write_line('')": "write_line", "raise": "raise"})
TAIL = {"self._message = message": "message", "if reset_indicator:\n    self._current = 0": "reset",
        "self._display()": "_display", "self._io.write_line('')": "write_line", "self._started = False": "stopped"}


def generate(api):
    P = api.P
    U = P.Untranslatable
    tree, rel = api.parse(REL)
    cls = P.find_class(tree, "ProgressIndicator", rel)
    P.plain_import(tree, "time", rel)
    P.plain_import(tree, "threading", rel)

    def fn(name, params, decorators=()):
        f = P.inline_literals(P.find_function(tree, "ProgressIndicator", name, rel, decorators=decorators), tree, "ProgressIndicator")
        a = f.args
        if [x.arg for x in a.args] != params or a.vararg or a.kwarg or a.kwonlyargs or len(f.decorator_list) != len(decorators):
            raise U("%s:%d: ProgressIndicator.%s(%s) expected" % (rel, f.lineno, name, ", ".join(params)))
        return f

    def always(st):
        return True

    def helper(name):
        try:
            f = P.find_function(tree, "ProgressIndicator", name, rel, decorators=())
        except U:
            return None
        a = f.args
        if [x.arg for x in a.args] != ["self"] or a.vararg or a.kwarg or a.kwonlyargs:
            return None
        return f

    # --- auto(): every statement is matched; the handler body and the exit call are read
    auto = fn("auto", ["self", "start_message", "end_message"], ("contextmanager",))
    P.imported_as(tree, "contextmanager", ("contextlib",), rel)
    AUTO = """
        self._auto_running = threading.Event()
        self._auto_thread = threading.Thread(target=self._spin)
        self.start(start_message)
        self._auto_thread.start()
        try:
            yield self
        except%s:
            STMTS_exc
        HOLE_exit
    """
    b = P.Template(AUTO % " HOLE_caught", {"exc": always}).try_match(auto.body)
    if b is None:
        b = P.Template(AUTO % "", {"exc": always}).try_match(auto.body)
        if b is None:
            try:
                P.Template(AUTO % " HOLE_caught", {"exc": always}).match(auto.body, rel, "auto()")
            except U as e:
                raise U("%s: auto() is no longer `try: yield / except <classes>: ...` followed by finish() (%s)" % (rel, e))
        caught = ["BaseException"]
    else:
        h = b["caught"]
        if isinstance(h, ast.Name):
            caught = [h.id]
        elif isinstance(h, ast.Tuple) and all(isinstance(e, ast.Name) for e in h.elts):
            caught = [e.id for e in h.elts]
        else:
            raise U("%s: auto(): exception classes not understood" % rel)
    exc_order = _tokens(b["exc"], EXC, U, rel, "auto(): except clause", helper)
    fin_call = b["exit"]
    if not (isinstance(fin_call, ast.Call) and ast.unparse(fin_call.func) == "self.finish"
            and [ast.unparse(x) for x in fin_call.args] == ["end_message"]
            and all(k.arg == "reset_indicator" and isinstance(k.value, ast.Constant) and isinstance(k.value.value, bool)
                    for k in fin_call.keywords) and len(fin_call.keywords) <= 1):
        raise U("%s: auto(): the normal exit is no longer a single finish(end_message[, reset_indicator=<bool>]) call" % rel)
    reset = bool(fin_call.keywords and fin_call.keywords[0].value.value is True)

    # --- finish(): stop and join before the last frame
    finish = fn("finish", ["self", "message", "reset_indicator"])
    if [ast.unparse(d) for d in finish.args.defaults] != ["False"]:
        raise U("%s: finish(self, message, reset_indicator=False) expected" % rel)
    try:
        b = P.Template("""
            if not self._started:
                raise RuntimeError(HOLE_text)
            if self._auto_thread is not None:
                STMTS_stop
            STMTS_tail
        """, {"stop": always, "tail": always}).match(finish.body, rel, "finish()")
    except U as e:
        raise U("%s: finish(): `if self._auto_thread is not None:` not found (%s)" % (rel, e))
    fin_order = _tokens(b["stop"], STOP, U, rel, "finish(): with a spinner thread", helper)
    fin_tail = _tokens(b["tail"], TAIL, U, rel, "finish()")

    # --- _overwrite(): stream writes per frame
    ow = fn("_overwrite", ["self", "message"])

    def is_write(st):
        return (isinstance(st, ast.Expr) and isinstance(st.value, ast.Call) and ast.unparse(st.value.func) == "self._io.write"
                and len(st.value.args) == 1 and not st.value.keywords)
    try:
        b = P.Template("""
            if self._io.supports_ansi():
                STMTS_ansi
            else:
                self._io.write_line(message)
        """, {"ansi": is_write}).match(ow.body, rel, "_overwrite()")
    except U as e:
        raise U("%s: _overwrite(): `if self._io.supports_ansi():` not found / writes not understood (%s)" % (rel, e))
    ansi_writes = b["ansi"]
    if not ansi_writes:
        raise U("%s: _overwrite(): no write on an ANSI output" % rel)
    first = ansi_writes[0].value.args[0]
    lit = first.left if isinstance(first, ast.BinOp) and isinstance(first.op, ast.Add) else first
    if not (isinstance(lit, ast.Constant) and lit.value == "\x0d\x1b[2K"):
        raise U("%s: _overwrite(): the first write does not begin with CR + erase-line" % rel)
    written = "".join(ast.unparse(w.value.args[0]) + " + " for w in ansi_writes)
    if written.count("message") != 1 or any(isinstance(n, (ast.Call, ast.Attribute, ast.Subscript))
                                            for w in ansi_writes for n in ast.walk(w.value.args[0])):
        raise U("%s: _overwrite(): the frame is not written as <codes> + message" % rel)

    # --- advance(): throttle comparison
    adv = fn("advance", ["self"])
    b = P.Template("""
        if not self._started:
            raise RuntimeError(HOLE_text)
        if not self._io.supports_ansi():
            return
        V_now = self._get_current_time_in_milliseconds()
        if HOLE_cmp:
            return
        self._update_time = V_now + self._interval
        self._current += 1
        self._display()
    """).match(adv.body, rel, "advance()")
    c = b["cmp"]
    if not (isinstance(c, ast.Compare) and len(c.ops) == 1 and ast.unparse(c.left) == b["V:now"]
            and ast.unparse(c.comparators[0]) == "self._update_time"):
        raise U("%s: advance(): throttle test `current_time < self._update_time` not found" % rel)
    op = type(c.ops[0]).__name__
    if op not in ("Lt", "LtE"):
        raise U("%s: advance(): throttle comparison %s not understood" % (rel, op))

    # --- _spin(): loop and period
    spin = fn("_spin", ["self"])
    try:
        b = P.Template("""
            while not self._auto_running.is_set():
                self.advance()
                time.sleep(CONST_period)
        """).match(spin.body, rel, "_spin()")
    except U as e:
        raise U("%s: _spin(): `while not self._auto_running.is_set(): advance(); time.sleep(period)` expected (%s)" % (rel, e))
    period = b["period"]
    if not (isinstance(period, ast.Constant) and isinstance(period.value, (int, float)) and not isinstance(period.value, bool)):
        raise U("%s: _spin(): sleep period is not a literal" % rel)
    period_ms = int(round(period.value * 1000))

    # --- constructor defaults, formats
    init = fn("__init__", ["self", "io", "fmt", "interval", "values"])
    names = [a.arg for a in init.args.args]
    defaults = dict(zip(names[len(names) - len(init.args.defaults):], init.args.defaults))
    d = defaults.get("interval")
    if not (isinstance(d, ast.Constant) and isinstance(d.value, int) and not isinstance(d.value, bool)):
        raise U("%s: __init__: default interval not a literal" % rel)
    interval = int(d.value)
    if not (isinstance(defaults.get("values"), ast.Constant) and defaults["values"].value is None):
        raise U("%s: __init__: default of values is not None" % rel)

    def aside(st):
        ok_check = ast.unparse(st).startswith("if len(values) < 2:\n    raise ValueError(") and not st.orelse and len(st.body) == 1
        return ok_check or (not P.mentions(st, names=("interval", "values"), attrs=("_interval", "_values")) and not P.exits(st))
    INIT = """
        STMTS_a
        if values is None:
            values = HOLE_values%s
        STMTS_b
        %s
        STMTS_c
        %s
        STMTS_d
    """
    stores = ("self._interval = interval", "self._values = values")
    # the length check may hang on the default as an `elif` (a default of four characters passes it anyway)
    ELIF = "\n        elif len(values) < 2:\n            raise ValueError(HOLE_text)"
    b = None
    for tail in ("", ELIF):
        for order in (stores, stores[::-1]):
            b = b or P.Template(INIT % ((tail,) + order), dict.fromkeys("abcd", aside)).try_match(init.body)
    if b is None:
        try:
            P.Template(INIT % (("",) + stores), dict.fromkeys("abcd", aside)).match(init.body, rel, "__init__")
        except U as e:
            raise U("%s: __init__: default indicator values not found (%s)" % (rel, e))
    vl = b["values"]
    if (isinstance(vl, ast.Call) and isinstance(vl.func, ast.Name) and vl.func.id == "list" and len(vl.args) == 1
            and not vl.keywords and isinstance(vl.args[0], ast.Constant) and isinstance(vl.args[0].value, str)):
        vl = ast.List(elts=[ast.Constant(value=ch) for ch in vl.args[0].value])  # list("-\\|/")
    if not (isinstance(vl, ast.List) and len(vl.elts) >= 2
            and all(isinstance(e, ast.Constant) and isinstance(e.value, str) for e in vl.elts)):
        raise U("%s: __init__: default indicator values not found" % rel)
    values = [e.value for e in vl.elts]
    for attr in ("_interval", "_values"):
        if len([n for n in ast.walk(cls) if isinstance(n, ast.Attribute) and n.attr == attr
                and isinstance(n.ctx, (ast.Store, ast.Del))]) != 1:
            raise U("%s: self.%s is written outside __init__" % (rel, attr))
    fmts = P.class_literals(tree, "ProgressIndicator", rel)
    for k in ("NORMAL", "NORMAL_NO_ANSI"):
        if not isinstance(fmts.get(k), str):
            raise U("%s: format %s not found" % (rel, k))

    S = api.lean_str
    lst = lambda xs: "[" + ", ".join(S(x) for x in xs) + "]"  # noqa: E731
    text = (api.HEADER + "namespace Clikit.Gen.C19\n\n"
            "/-- exception classes of the `except` clause of `auto()` -/\n"
            "def caught : List String := %s\n"
            "/-- what the `except` clause of `auto()` does, in order -/\n"
            "def excPath : List String := %s\n"
            "/-- `auto()` ends with `self.finish(end_message, reset_indicator=True)` -/\n"
            "def exitResets : Bool := %s\n"
            "/-- `finish()`: what happens when there is a spinner thread, in order -/\n"
            "def finishStop : List String := %s\n"
            "/-- `finish()`: the rest, in order -/\n"
            "def finishTail : List String := %s\n"
            "/-- stream writes of one frame on an ANSI output (`_overwrite`) -/\n"
            "def ansiWritesPerFrame : Nat := %d\n"
            "/-- `advance()` skips the redraw when `current_time < update_time` (strict) -/\n"
            "def throttleStrict : Bool := %s\n"
            "/-- `time.sleep(...)` of `_spin`, in milliseconds -/\n"
            "def spinPeriodMs : Nat := %d\n"
            "def defaultInterval : Nat := %d\n"
            "def defaultValues : List String := %s\n"
            "def NORMAL : String := %s\n"
            "def NORMAL_NO_ANSI : String := %s\n\nend Clikit.Gen.C19\n"
            % (lst(caught), lst(exc_order), "true" if reset else "false", lst(fin_order), lst(fin_tail),
               len(ansi_writes), "true" if op == "Lt" else "false", period_ms, interval, lst(values),
               S(fmts["NORMAL"]), S(fmts["NORMAL_NO_ANSI"])))
    return {"C19.lean": text}
