"""C19: the facts about `ProgressIndicator` that the hand-written spinner model hard-codes, read from the
current source with `ast`: which exceptions `auto()` catches and in which order its exception path and
`finish()` stop the spinner, how many stream writes a frame is, the throttle comparison of `advance`, the
spinner's sleep period and the constructor defaults."""
import ast

REL = "ui/components/progress_indicator.py"


def _is_self_attr(node, *chain):
    """node is self.a.b... (chain = ("a", "b"))"""
    for name in reversed(chain):
        if not (isinstance(node, ast.Attribute) and node.attr == name):
            return False
        node = node.value
    return isinstance(node, ast.Name) and node.id == "self"


def _call_names(stmts):
    """names of the calls / raise made by a statement list, in order (self.x.y(...) -> 'y')"""
    out = []
    for st in stmts:
        if isinstance(st, ast.Expr) and isinstance(st.value, ast.Call) and isinstance(st.value.func, ast.Attribute):
            out.append(st.value.func.attr)
        elif isinstance(st, ast.Raise):
            out.append("raise")
        elif isinstance(st, ast.Expr) and isinstance(st.value, ast.Constant):
            continue
        else:
            out.append("?" + type(st).__name__)
    return out


def generate(api):
    U = api.P.Untranslatable
    tree, rel = api.parse(REL)
    fn = lambda name: api.P.find_function(tree, "ProgressIndicator", name, rel)  # noqa: E731
    cls = [n for n in tree.body if isinstance(n, ast.ClassDef) and n.name == "ProgressIndicator"][0]

    # --- auto(): the exception handler
    auto = fn("auto")
    tries = [n for n in ast.walk(auto) if isinstance(n, ast.Try)]
    if len(tries) != 1 or tries[0].finalbody or tries[0].orelse or len(tries[0].handlers) != 1:
        raise U("%s: auto() is no longer `try: yield / except <classes>: ...` followed by finish()" % rel)
    h = tries[0].handlers[0]
    if h.type is None:
        caught = ["BaseException"]
    elif isinstance(h.type, ast.Name):
        caught = [h.type.id]
    elif isinstance(h.type, ast.Tuple) and all(isinstance(e, ast.Name) for e in h.type.elts):
        caught = [e.id for e in h.type.elts]
    else:
        raise U("%s: auto(): exception classes not understood" % rel)
    exc_order = _call_names(h.body)
    after = auto.body[auto.body.index(tries[0]) + 1:]
    if _call_names(after) != ["finish"]:
        raise U("%s: auto(): the normal exit is no longer a single finish(...) call" % rel)
    fin_call = after[0].value
    reset_kw = [k for k in fin_call.keywords if k.arg == "reset_indicator"]
    reset = bool(reset_kw and isinstance(reset_kw[0].value, ast.Constant) and reset_kw[0].value.value is True)
    before = _call_names([s for s in auto.body[:auto.body.index(tries[0])] if not isinstance(s, ast.Assign)])
    if before != ["start", "start"]:
        raise U("%s: auto(): expected self.start(message) then self._auto_thread.start() before the body, got %s" % (rel, before))

    # --- finish(): stop and join before the last frame
    finish = fn("finish")
    stop = [s for s in finish.body if isinstance(s, ast.If) and isinstance(s.test, ast.Compare)
            and _is_self_attr(s.test.left, "_auto_thread")]
    if len(stop) != 1:
        raise U("%s: finish(): `if self._auto_thread is not None:` not found" % rel)
    fin_order = _call_names(stop[0].body)
    rest = finish.body[finish.body.index(stop[0]) + 1:]
    fin_tail = []
    for s in rest:
        if isinstance(s, ast.Assign) and _is_self_attr(s.targets[0], "_message"):
            fin_tail.append("message")
        elif isinstance(s, ast.If) and isinstance(s.test, ast.Name) and s.test.id == "reset_indicator":
            fin_tail.append("reset")
        elif isinstance(s, ast.Assign) and _is_self_attr(s.targets[0], "_started"):
            fin_tail.append("stopped")
        else:
            fin_tail.extend(_call_names([s]))

    # --- _overwrite(): stream writes per frame
    ow = fn("_overwrite")
    ifs = [s for s in ow.body if isinstance(s, ast.If)]
    if len(ifs) != 1 or _call_names([ifs[0].test and ast.Expr(ifs[0].test)]) != ["supports_ansi"]:
        raise U("%s: _overwrite(): `if self._io.supports_ansi():` not found" % rel)
    ansi_writes = _call_names(ifs[0].body)
    plain_writes = _call_names(ifs[0].orelse)
    if set(ansi_writes) != {"write"} or plain_writes != ["write_line"]:
        raise U("%s: _overwrite(): writes not understood: %s / %s" % (rel, ansi_writes, plain_writes))
    first = ifs[0].body[0].value.args[0]
    lit = first.left if isinstance(first, ast.BinOp) else first
    if not (isinstance(lit, ast.Constant) and lit.value == "\x0d\x1b[2K"):
        raise U("%s: _overwrite(): the first write does not begin with CR + erase-line" % rel)

    # --- advance(): throttle comparison
    adv = fn("advance")
    cmpn = [s.test for s in adv.body if isinstance(s, ast.If) and isinstance(s.test, ast.Compare)
            and isinstance(s.test.left, ast.Name) and s.test.left.id == "current_time"]
    if len(cmpn) != 1 or not _is_self_attr(cmpn[0].comparators[0], "_update_time"):
        raise U("%s: advance(): throttle test `current_time < self._update_time` not found" % rel)
    op = type(cmpn[0].ops[0]).__name__
    if op not in ("Lt", "LtE"):
        raise U("%s: advance(): throttle comparison %s not understood" % (rel, op))

    # --- _spin(): loop and period
    spin = fn("_spin")
    loops = [s for s in spin.body if isinstance(s, ast.While)]
    if len(loops) != 1 or not (isinstance(loops[0].test, ast.UnaryOp) and isinstance(loops[0].test.op, ast.Not)
                               and _call_names([ast.Expr(loops[0].test.operand)]) == ["is_set"]):
        raise U("%s: _spin(): `while not self._auto_running.is_set():` not found" % rel)
    body = _call_names(loops[0].body)
    if body != ["advance", "sleep"]:
        raise U("%s: _spin(): loop body is %s, expected advance(); time.sleep(period)" % (rel, body))
    period = loops[0].body[-1].value.args[0]
    if not (isinstance(period, ast.Constant) and isinstance(period.value, (int, float))):
        raise U("%s: _spin(): sleep period is not a literal" % rel)
    period_ms = int(round(period.value * 1000))

    # --- constructor defaults, formats
    init = fn("__init__")
    names = [a.arg for a in init.args.args]
    defaults = dict(zip(names[len(names) - len(init.args.defaults):], init.args.defaults))
    if not isinstance(defaults.get("interval"), ast.Constant):
        raise U("%s: __init__: default interval not a literal" % rel)
    interval = int(defaults["interval"].value)
    values = None
    for n in ast.walk(init):
        if isinstance(n, ast.Assign) and isinstance(n.targets[0], ast.Name) and n.targets[0].id == "values" \
                and isinstance(n.value, ast.List):
            values = [e.value for e in n.value.elts]
    if not values or not all(isinstance(v, str) for v in values):
        raise U("%s: __init__: default indicator values not found" % rel)
    fmts = {}
    for st in cls.body:
        if isinstance(st, ast.Assign) and isinstance(st.targets[0], ast.Name) and isinstance(st.value, ast.Constant) \
                and isinstance(st.value.value, str):
            fmts[st.targets[0].id] = st.value.value
    for k in ("NORMAL", "NORMAL_NO_ANSI"):
        if k not in fmts:
            raise U("%s: format %s not found" % (rel, k))

    S = api.lean_str
    lst = lambda xs: "[" + ", ".join(S(x) for x in xs) + "]"  # noqa: E731
    text = (api.HEADER + "namespace Clikit.Gen.C19\n\n"
            "/-- exception classes of the `except` clause of `auto()` -/\n"
            "def caught : List String := %s\n"
            "/-- what the `except` clause of `auto()` does, in order -/\n"
            "def excPath : List String := %s\n"
            "/-- `auto()` ends with `self.finish(end_message, reset_indicator=True)` -/\n"
            "def exitResets : Bool := %s\n"
            "/-- `finish()`: what happens when there is a spinner thread, in order -/\n"
            "def finishStop : List String := %s\n"
            "/-- `finish()`: the rest, in order -/\n"
            "def finishTail : List String := %s\n"
            "/-- stream writes of one frame on an ANSI output (`_overwrite`) -/\n"
            "def ansiWritesPerFrame : Nat := %d\n"
            "/-- `advance()` skips the redraw when `current_time < update_time` (strict) -/\n"
            "def throttleStrict : Bool := %s\n"
            "/-- `time.sleep(...)` of `_spin`, in milliseconds -/\n"
            "def spinPeriodMs : Nat := %d\n"
            "def defaultInterval : Nat := %d\n"
            "def defaultValues : List String := %s\n"
            "def NORMAL : String := %s\n"
            "def NORMAL_NO_ANSI : String := %s\n\nend Clikit.Gen.C19\n"
            % (lst(caught), lst(exc_order), "true" if reset else "false", lst(fin_order), lst(fin_tail),
               len(ansi_writes), "true" if op == "Lt" else "false", period_ms, interval, lst(values),
               S(fmts["NORMAL"]), S(fmts["NORMAL_NO_ANSI"])))
    return {"C19.lean": text}
