"""C11: tables the style/SGR model is built on, read with `ast` from the CURRENT sources:

  * clikit's default style set (tag -> fg, bg, attributes)      formatter/default_style_set.py
  * StyleConverter.convert: Style attribute -> pastel option name, in the order of the appends
                                                                 adapter/style_converter.py
  * pastel's SGR code tables FOREGROUND_COLORS / BACKGROUND_COLORS / OPTIONS
                                                                 <site-packages>/pastel/style.py
"""
import ast
import os

PASTEL_STYLE = "/venv/lib/python3.12/site-packages/pastel/style.py"
ATTRS = ["bold", "italic", "dark", "underlined", "blinking", "inverse", "hidden"]


def chars(s):
    out = []
    for ch in s:
        o = ord(ch)
        if ch == "\\":
            out.append("'\\\\'")
        elif ch == "'":
            out.append("'\\''")
        elif o < 32 or o == 127:
            out.append("'\\x%02x'" % o)
        else:
            out.append("'%s'" % ch)
    return "[" + ", ".join(out) + "]"


def opt_chars(s):
    return "none" if s is None else "some " + chars(s)


def generate(api):
    U = api.P.Untranslatable

    # ---- default style set ----------------------------------------------------------
    # strict: __init__ is exactly `styles = [...]` and `super(DefaultStyleSet, self).__init__(styles)`
    tree, rel = api.parse("formatter/default_style_set.py")
    init = api.P.find_function(tree, "DefaultStyleSet", "__init__", rel, decorators=())
    bs = api.P.Template("""
        V_styles = HOLE_list
        super(DefaultStyleSet, self).__init__(V_styles)
    """).match(init.body, rel, "DefaultStyleSet.__init__")
    if [a.arg for a in init.args.args] != ["self"] or not isinstance(bs["list"], ast.List):
        raise U("%s: expected exactly one `styles = [...]` in DefaultStyleSet.__init__(self)" % rel)
    api.P.check_bases(tree, "DefaultStyleSet", ["StyleSet"], rel)
    api.P.imported_as(tree, "Style", ("clikit.api.formatter", "clikit.api.formatter.style"), rel)
    lists = [bs["list"]]
    styles = []
    for e in lists[0].elts:
        chain = []
        node = e
        while isinstance(node, ast.Call) and isinstance(node.func, ast.Attribute):
            chain.append((node.func.attr, node.args, node.keywords))
            node = node.func.value
        if not (isinstance(node, ast.Call) and isinstance(node.func, ast.Name) and node.func.id == "Style"
                and len(node.args) == 1 and not node.keywords and isinstance(node.args[0], ast.Constant)
                and isinstance(node.args[0].value, str)):
            raise U("%s: style entry is not Style(\"tag\").<builder calls>: %s" % (rel, ast.dump(e)[:120]))
        tag, fg, bg, on = node.args[0].value, None, None, {}
        for name, args, kw in reversed(chain):
            if kw:
                raise U("%s: keyword argument in a style builder call" % rel)
            if name in ("fg", "bg"):
                if not (len(args) == 1 and isinstance(args[0], ast.Constant) and isinstance(args[0].value, str)):
                    raise U("%s: %s() without a constant colour name" % (rel, name))
                if name == "fg":
                    fg = args[0].value
                else:
                    bg = args[0].value
            elif name in ATTRS:
                if not args:
                    on[name] = True
                elif len(args) == 1 and isinstance(args[0], ast.Constant) and isinstance(args[0].value, bool):
                    on[name] = args[0].value
                else:
                    raise U("%s: %s() with a non-constant argument" % (rel, name))
            else:
                raise U("%s: unknown style builder method %s" % (rel, name))
        styles.append((tag, fg, bg, [a for a in ATTRS if on.get(a)]))
    if not styles:
        raise U("%s: empty default style set" % rel)

    # ---- converter ------------------------------------------------------------------
    tree, rel2 = api.parse("adapter/style_converter.py")
    conv = api.P.find_function(tree, "StyleConverter", "convert", rel2, decorators=("classmethod",))
    if [a.arg for a in conv.args.args] != ["cls", "style"] or len(conv.decorator_list) != 1:
        raise U("%s:%d: @classmethod convert(cls, style) expected" % (rel2, conv.lineno))
    pimp = [(st, al) for st in tree.body if isinstance(st, ast.ImportFrom) for al in st.names if (al.asname or al.name) == "PastelStyle"]
    if not (len(pimp) == 1 and pimp[0][0].module in ("pastel.style", "pastel") and pimp[0][1].name == "Style"
            and not api.P._other_bindings([st for st in tree.body if st is not pimp[0][0]], "PastelStyle", None)):
        raise U("%s: PastelStyle is not pastel's Style" % rel2)
    body = [st for st in conv.body if not (isinstance(st, ast.Expr) and isinstance(st.value, ast.Constant))]
    if len(body) < 3:
        raise U("%s: convert() has an unexpected shape" % rel2)
    first, ifs, last = body[0], body[1:-1], body[-1]
    if not (isinstance(first, ast.Assign) and len(first.targets) == 1 and isinstance(first.targets[0], ast.Name)
            and first.targets[0].id == "options" and isinstance(first.value, ast.List) and not first.value.elts):
        raise U("%s: convert() does not start with `options = []`" % rel2)
    pairs = []
    for st in ifs:
        ok = (isinstance(st, ast.If) and not st.orelse and len(st.body) == 1
              and isinstance(st.test, ast.Call) and isinstance(st.test.func, ast.Attribute)
              and isinstance(st.test.func.value, ast.Name) and st.test.func.value.id == "style"
              and st.test.func.attr.startswith("is_") and not st.test.args and not st.test.keywords)
        if ok:
            call = st.body[0].value if isinstance(st.body[0], ast.Expr) else None
            ok = (isinstance(call, ast.Call) and isinstance(call.func, ast.Attribute) and call.func.attr == "append"
                  and isinstance(call.func.value, ast.Name) and call.func.value.id == "options"
                  and len(call.args) == 1 and not call.keywords
                  and isinstance(call.args[0], ast.Constant) and isinstance(call.args[0].value, str))
        if not ok:
            raise U("%s: statement at line %d is not `if style.is_X(): options.append(\"Y\")`" % (rel2, st.lineno))
        attr = st.test.func.attr[3:]
        if attr not in ATTRS:
            raise U("%s: unknown style attribute is_%s" % (rel2, attr))
        pairs.append((attr, call.args[0].value))
    ok = (isinstance(last, ast.Return) and last.value is not None
          and ast.unparse(last.value) == "PastelStyle(style.foreground_color, style.background_color, options)")
    if not ok:
        raise U("%s: convert() does not end with `return PastelStyle(style.foreground_color, style.background_color, options)`" % rel2)

    # ---- pastel tables --------------------------------------------------------------
    if not os.path.exists(PASTEL_STYLE):
        raise U("pastel is not installed at %s" % PASTEL_STYLE)
    with open(PASTEL_STYLE, encoding="utf-8") as f:
        ptree = ast.parse(f.read(), filename=PASTEL_STYLE)
    cls = [n for n in ptree.body if isinstance(n, ast.ClassDef) and n.name == "Style"]
    if len(cls) != 1:
        raise U("pastel/style.py: class Style not found")
    tables = {}
    for st in cls[0].body:
        if isinstance(st, ast.Assign) and len(st.targets) == 1 and isinstance(st.targets[0], ast.Name) \
                and st.targets[0].id in ("FOREGROUND_COLORS", "BACKGROUND_COLORS", "OPTIONS"):
            d = st.value
            if not isinstance(d, ast.Dict):
                raise U("pastel/style.py: %s is not a dict literal" % st.targets[0].id)
            rows = []
            for k, v in zip(d.keys, d.values):
                if not (isinstance(k, ast.Constant) and isinstance(k.value, str) and isinstance(v, ast.Constant)
                        and isinstance(v.value, int) and not isinstance(v.value, bool) and v.value >= 0):
                    raise U("pastel/style.py: %s has a non-literal entry" % st.targets[0].id)
                rows.append((k.value, v.value))
            if len(set(k for k, _ in rows)) != len(rows):
                raise U("pastel/style.py: %s has a duplicate key" % st.targets[0].id)
            tables[st.targets[0].id] = rows
    for n in ("FOREGROUND_COLORS", "BACKGROUND_COLORS", "OPTIONS"):
        if n not in tables:
            raise U("pastel/style.py: table %s not found" % n)

    def table(name, rows):
        return ("def %s : List (List Char × Nat) :=\n  [" % name
                + ",\n   ".join("(%s, %d)" % (chars(k), v) for k, v in rows) + "]\n")

    out = [api.HEADER, "namespace Clikit.Gen.C11\n",
           "/-- the attributes of `clikit.api.formatter.Style` -/",
           "inductive Attr where\n  | " + " | ".join(ATTRS) + "\n  deriving DecidableEq, Repr\n",
           "/-- pastel `Style.FOREGROUND_COLORS` (%s) -/" % PASTEL_STYLE,
           table("foregroundColors", tables["FOREGROUND_COLORS"]),
           "/-- pastel `Style.BACKGROUND_COLORS` -/",
           table("backgroundColors", tables["BACKGROUND_COLORS"]),
           "/-- pastel `Style.OPTIONS` -/",
           table("options", tables["OPTIONS"]),
           "/-- `StyleConverter.convert` (%s): `if style.is_<attr>(): options.append(<name>)`, in source order -/" % rel2,
           "def converterOptions : List (Attr × List Char) :=\n  ["
           + ",\n   ".join("(Attr.%s, %s)" % (a, chars(n)) for a, n in pairs) + "]\n",
           "/-- `DefaultStyleSet` (%s): tag, foreground, background, attributes switched on -/" % rel,
           "def defaultStyles : List (List Char × Option (List Char) × Option (List Char) × List Attr) :=\n  ["
           + ",\n   ".join("(%s, %s, %s, [%s])" % (chars(t), opt_chars(fg), opt_chars(bg),
                                                  ", ".join("Attr." + a for a in at))
                           for t, fg, bg, at in styles) + "]\n",
           "end Clikit.Gen.C11\n"]
    return {"C11.lean": "\n".join(out)}
