"""C14: the four predefined table styles (border characters, cell formats, padding character,
default alignment) and the alignment constants, read with `ast` from ui/style/table_style.py,
ui/style/border_style.py and ui/style/alignment.py.

Expected shape (anything else is `Untranslatable`, i.e. a broken tie):
  BorderStyle.__init__     : only `self.<attr> = "<str>"` (and `self.style = None`)
  BorderStyle.<factory>()  : `if cls._x is None:  style = cls(); style.<attr> = "<str>" ...; cls._x = style`, `return cls._x`
  TableStyle.__init__      : `self.<attr> = <str | [] | Alignment.X | None>`
  TableStyle.<factory>()   : `style = TableStyle()`, `style.<attr> = "<str>"`,
                             `style.border_style = copy.copy(BorderStyle.<factory>())`,
                             `style.border_style.<attr> = "<str>"`, `return style`
"""
import ast

BORDER_ATTRS = ["line_ht_char", "line_hc_char", "line_hb_char", "line_vl_char", "line_vc_char", "line_vr_char",
                "corner_tl_char", "corner_tr_char", "corner_bl_char", "corner_br_char",
                "crossing_c_char", "crossing_l_char", "crossing_t_char", "crossing_r_char", "crossing_b_char"]
STYLES = ["ascii", "solid", "borderless", "compact"]


def generate(api):
    U = api.P.Untranslatable

    def cls_of(tree, name, rel):
        cls_of.tree = tree
        return api.P.find_class(tree, name, rel)

    def method(cls, name, rel):
        # the one definition of the method; the factories are plain classmethods, __init__ is undecorated
        fn = api.P.find_function(cls_of.tree, cls.name, name, rel,
                                 decorators=() if name == "__init__" else ("classmethod",))
        want = ["self"] if name == "__init__" else ["cls"]
        a = fn.args
        if [x.arg for x in a.args] != want or a.vararg or a.kwarg or a.kwonlyargs or \
                len(fn.decorator_list) != (0 if name == "__init__" else 1):
            raise U("%s:%d: %s.%s(%s) %sexpected" % (rel, fn.lineno, cls.name, name, want[0],
                                                     "" if name == "__init__" else "as a classmethod "))
        return fn

    def is_doc(st):
        return isinstance(st, ast.Expr) and isinstance(st.value, ast.Constant) and isinstance(st.value.value, str)

    def attr_assign(st, base):
        """`<base>.<attr> = value` -> (attr, value node) or None; base is a dotted name like 'style.border_style'"""
        if not (isinstance(st, ast.Assign) and len(st.targets) == 1 and isinstance(st.targets[0], ast.Attribute)):
            return None
        t = st.targets[0]
        parts = []
        v = t.value
        while isinstance(v, ast.Attribute):
            parts.append(v.attr)
            v = v.value
        if not isinstance(v, ast.Name):
            return None
        parts.append(v.id)
        if ".".join(reversed(parts)) != base:
            return None
        return t.attr, st.value

    def strval(node, where):
        if isinstance(node, ast.Constant) and isinstance(node.value, str):
            return node.value
        raise U("%s: string literal expected (%s)" % (where, ast.dump(node)[:80]))

    # ---------------------------------------------------------------- alignment constants
    tree, rel = api.parse("ui/style/alignment.py")
    al = api.P.class_int_consts(tree, "Alignment", rel)
    for k in ("LEFT", "RIGHT", "CENTER"):
        if k not in al:
            raise U("%s: Alignment.%s not found" % (rel, k))
    if len(set(al[k] for k in ("LEFT", "RIGHT", "CENTER"))) != 3:
        raise U("%s: alignment constants collide" % rel)

    # ---------------------------------------------------------------- border styles
    tree, rel = api.parse("ui/style/border_style.py")
    bcls = cls_of(tree, "BorderStyle", rel)
    bdef = {}
    for st in method(bcls, "__init__", rel).body:
        if is_doc(st):
            continue
        a = attr_assign(st, "self")
        if a is None:
            raise U("%s:%d: BorderStyle.__init__: unexpected statement" % (rel, st.lineno))
        name, val = a
        if name == "style":
            if not (isinstance(val, ast.Constant) and val.value is None):
                raise U("%s:%d: BorderStyle.style default is not None" % (rel, st.lineno))
            continue
        bdef[name] = strval(val, "%s:%d" % (rel, st.lineno))
    if sorted(bdef) != sorted(BORDER_ATTRS):
        raise U("%s: BorderStyle attributes changed: %s" % (rel, sorted(set(bdef) ^ set(BORDER_ATTRS))))

    def border_factory(name):
        fn = method(bcls, name, rel)
        body = [s for s in fn.body if not is_doc(s)]
        slot = "cls._%s" % name
        if not (len(body) == 2 and isinstance(body[0], ast.If) and isinstance(body[1], ast.Return)
                and not body[0].orelse and ast.unparse(body[0].test) == "%s is None" % slot
                and body[1].value is not None and ast.unparse(body[1].value) == slot):
            raise U("%s: BorderStyle.%s: unexpected shape" % (rel, name))
        d = dict(bdef)
        inner = [s for s in body[0].body if not is_doc(s)]
        if not (len(inner) >= 2 and ast.unparse(inner[0]) == "style = cls()"):
            raise U("%s: BorderStyle.%s: `style = cls()` expected" % (rel, name))
        for st in inner[1:-1]:
            a = attr_assign(st, "style")
            if a is None or a[0] not in d:
                raise U("%s:%d: BorderStyle.%s: unexpected statement" % (rel, st.lineno, name))
            d[a[0]] = strval(a[1], "%s:%d" % (rel, st.lineno))
        last = inner[-1]
        if ast.unparse(last) != "%s = style" % slot:
            raise U("%s: BorderStyle.%s: cache assignment `%s = style` expected" % (rel, name, slot))
        return d

    borders = {n: border_factory(n) for n in ("none", "ascii", "solid")}
    for n in borders:
        api.P.class_slot_is_none(tree, "BorderStyle", "_" + n, rel)
        # the cache slot is written by its factory only
        slots = [x for x in ast.walk(tree) if isinstance(x, ast.Attribute) and x.attr == "_" + n
                 and isinstance(x.ctx, (ast.Store, ast.Del))]
        if len(slots) != 1:
            raise U("%s: BorderStyle._%s is assigned in %d places" % (rel, n, len(slots)))

    # ---------------------------------------------------------------- table styles
    tree, rel = api.parse("ui/style/table_style.py")
    tcls = cls_of(tree, "TableStyle", rel)
    api.P.plain_import(tree, "copy", rel)
    api.P.imported_as(tree, "Alignment", (".alignment", "clikit.ui.style.alignment"), rel)
    api.P.imported_as(tree, "BorderStyle", (".border_style", "clikit.ui.style.border_style"), rel)
    tdef = {}
    for st in method(tcls, "__init__", rel).body:
        if is_doc(st):
            continue
        a = attr_assign(st, "self")
        if a is None:
            raise U("%s:%d: TableStyle.__init__: unexpected statement" % (rel, st.lineno))
        tdef[a[0]] = a[1]
    need = ["padding_char", "header_cell_format", "cell_format", "column_alignments", "default_column_alignment",
            "border_style", "header_cell_style", "cell_style"]
    if sorted(tdef) != sorted(need):
        raise U("%s: TableStyle attributes changed: %s" % (rel, sorted(set(tdef) ^ set(need))))
    base = {"padding_char": strval(tdef["padding_char"], rel), "header_cell_format": strval(tdef["header_cell_format"], rel),
            "cell_format": strval(tdef["cell_format"], rel)}
    if not (isinstance(tdef["column_alignments"], ast.List) and not tdef["column_alignments"].elts):
        raise U("%s: column_alignments default is not []" % rel)
    dca = tdef["default_column_alignment"]
    if not (isinstance(dca, ast.Attribute) and getattr(dca.value, "id", None) == "Alignment" and dca.attr in al):
        raise U("%s: default_column_alignment is not an Alignment constant" % rel)
    default_alignment = al[dca.attr]
    for k in ("border_style", "header_cell_style", "cell_style"):
        if not (isinstance(tdef[k], ast.Constant) and tdef[k].value is None):
            raise U("%s: TableStyle.%s default is not None (cell/border styles are not modelled)" % (rel, k))

    def table_factory(name):
        fn = method(tcls, name, rel)
        body = [s for s in fn.body if not is_doc(s)]
        d = dict(base)
        border = None
        if not (len(body) >= 2 and ast.unparse(body[0]) in ("style = TableStyle()", "style = cls()")):
            raise U("%s: TableStyle.%s: `style = TableStyle()` expected" % (rel, name))
        if not (isinstance(body[-1], ast.Return) and getattr(body[-1].value, "id", None) == "style"):
            raise U("%s: TableStyle.%s: `return style` expected" % (rel, name))
        for st in body[1:-1]:
            a = attr_assign(st, "style")
            if a is not None:
                if a[0] == "border_style":
                    v = a[1]
                    # copy.copy(BorderStyle.<factory>())
                    ok = (isinstance(v, ast.Call) and ast.unparse(v.func) in ("copy.copy", "copy.deepcopy")
                          and len(v.args) == 1 and not v.keywords and isinstance(v.args[0], ast.Call)
                          and not v.args[0].args and not v.args[0].keywords
                          and isinstance(v.args[0].func, ast.Attribute)
                          and getattr(v.args[0].func.value, "id", None) == "BorderStyle"
                          and v.args[0].func.attr in borders)
                    if not ok:
                        raise U("%s:%d: TableStyle.%s: border_style is not a copy of a BorderStyle factory" % (rel, st.lineno, name))
                    border = dict(borders[v.args[0].func.attr])
                    continue
                if a[0] in d:
                    d[a[0]] = strval(a[1], "%s:%d" % (rel, st.lineno))
                    continue
                raise U("%s:%d: TableStyle.%s sets %s (not modelled)" % (rel, st.lineno, name, a[0]))
            a = attr_assign(st, "style.border_style")
            if a is not None and border is not None and a[0] in border:
                border[a[0]] = strval(a[1], "%s:%d" % (rel, st.lineno))
                continue
            raise U("%s:%d: TableStyle.%s: unexpected statement" % (rel, st.lineno, name))
        if border is None:
            raise U("%s: TableStyle.%s has no border style" % (rel, name))
        return d, border

    def fmt(s, where):
        if s.count("{}") != 1 or s.replace("{}", "").count("{") or s.replace("{}", "").count("}"):
            raise U("%s: cell format %r is not `<text>{}<text>`" % (where, s))
        i = s.index("{}")
        return s[:i], s[i + 2:]

    def chars(s):
        # explicit `List Char` literals (kernel-reducible, unlike `String.toList`)
        def ch(c):
            if c == "'" or c == "\\":
                return "'\\%s'" % c
            if ord(c) < 32 or ord(c) == 127:
                return "(Char.ofNat %d)" % ord(c)
            return "'%s'" % c
        return "[" + ", ".join(ch(c) for c in s) + "]"

    out = [api.HEADER, "namespace Clikit.Gen.C14", "",
           "/-- `Alignment.LEFT/RIGHT/CENTER` -/",
           "def LEFT : Nat := %d" % al["LEFT"], "def RIGHT : Nat := %d" % al["RIGHT"], "def CENTER : Nat := %d" % al["CENTER"],
           "/-- `TableStyle.default_column_alignment` -/", "def defaultAlignment : Nat := %d" % default_alignment, "",
           "/-- the fifteen border characters of a `BorderStyle` (each a string, possibly empty) -/",
           "structure BorderChars where"]
    out += ["  %s : List Char" % a for a in BORDER_ATTRS]
    out += ["", "/-- a `TableStyle`: a cell format `pre{}post` is the pair `(pre, post)` -/",
            "structure TableStyle where", "  padding_char : List Char", "  header_cell_format : List Char × List Char",
            "  cell_format : List Char × List Char", "  border : BorderChars", ""]
    for name in STYLES:
        d, b = table_factory(name)
        h = fmt(d["header_cell_format"], "%s: TableStyle.%s" % (rel, name))
        c = fmt(d["cell_format"], "%s: TableStyle.%s" % (rel, name))
        out.append("/-- `TableStyle.%s()` -/" % name)
        out.append("def %s : TableStyle where" % name)
        out.append("  padding_char := %s" % chars(d["padding_char"]))
        out.append("  header_cell_format := (%s, %s)" % (chars(h[0]), chars(h[1])))
        out.append("  cell_format := (%s, %s)" % (chars(c[0]), chars(c[1])))
        out.append("  border := {")
        out.append(",\n".join("    %s := %s" % (a, chars(b[a])) for a in BORDER_ATTRS) + " }")
        out.append("")
    out.append("def styles : List (String × TableStyle) :=")
    out.append("  [" + ", ".join('("%s", %s)' % (n, n) for n in STYLES) + "]")
    out.append("")
    out.append("end Clikit.Gen.C14")
    return {"C14.lean": "\n".join(out) + "\n"}
