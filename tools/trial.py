#!/usr/bin/env python3
"""Development helper: try a source mutation in a scratch checkout of /repo (never in /repo itself).

  tools/trial.py NAME FILE OLD NEW PROP [PROP...]      (FILE relative to src/clikit; OLD must occur exactly once)
  tools/trial.py --patch NAME PATCHFILE PROP [PROP...]

Runs the repository's test suite against the mutant (PYTHONPATH), then `CLIKIT_REPO=<scratch> ./vcheck PROP`
for every PROP, prints one summary line each, removes the scratch checkout and regenerates lean/Clikit/Gen.
"""
import os
import subprocess
import sys

ROOT = os.path.dirname(os.path.dirname(os.path.abspath(__file__)))


def sh(cmd, **kw):
    return subprocess.run(cmd, shell=True, stdout=subprocess.PIPE, stderr=subprocess.STDOUT, universal_newlines=True, **kw)


def main():
    a = sys.argv[1:]
    patch = None
    if a[0] == "--patch":
        name, patch, props = a[1], os.path.abspath(a[2]), a[3:]
    else:
        name, rel, old, new, props = a[0], a[1], a[2], a[3], a[4:]
    d = "/tmp/rw/trial-%s-%d" % (name, os.getpid())
    os.makedirs("/tmp/rw", exist_ok=True)
    r = sh("git -C /repo worktree add -q %s HEAD" % d)
    if r.returncode:
        print(r.stdout)
        return 2
    try:
        if patch:
            r = sh("git apply %s" % patch, cwd=d)
            if r.returncode:
                print("patch does not apply:\n" + r.stdout)
                return 2
        else:
            p = os.path.join(d, "src", "clikit", rel)
            s = open(p).read()
            old_, new_ = old.encode().decode("unicode_escape"), new.encode().decode("unicode_escape")
            if s.count(old_) != 1:
                print("OLD occurs %d times in %s" % (s.count(old_), rel))
                return 2
            open(p, "w").write(s.replace(old_, new_))
        t = sh("PYTHONPATH=%s/src timeout 900 /venv/bin/python -m pytest -q -p no:cacheprovider -x 2>&1 | tail -1" % d, cwd=d)
        # -x stops at the baseline's always-failing test too; count precisely without -x
        t = sh("PYTHONPATH=%s/src timeout 900 /venv/bin/python -m pytest -q -p no:cacheprovider 2>&1 | tail -1" % d, cwd=d)
        print("MUTANT %s: repo tests: %s" % (name, t.stdout.strip()))
        for p in props:
            env = dict(os.environ)
            env["CLIKIT_REPO"] = d
            r = subprocess.run([os.path.join(ROOT, "vcheck"), p], cwd=ROOT, env=env, stdout=subprocess.PIPE,
                               stderr=subprocess.STDOUT, universal_newlines=True)
            lines = [l for l in r.stdout.splitlines() if l.startswith(("VIOLATION", "OK ", "INFRA", "BROKEN", "KNOWN"))]
            print("MUTANT %s: %s -> rc=%d  %s" % (name, p, r.returncode, " | ".join(lines)[:400]))
    finally:
        sh("git -C /repo worktree remove --force %s" % d)
        sh("python3 %s/tools/gen_lean.py" % ROOT)
    return 0


if __name__ == "__main__":
    sys.exit(main())
