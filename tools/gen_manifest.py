#!/usr/bin/env python3
"""Write MANIFEST.json from the property modules present under harness/props."""
import importlib
import json
import os
import sys

ROOT = os.path.dirname(os.path.dirname(os.path.abspath(__file__)))
sys.path.insert(0, ROOT)

ALL = ["C%02d" % i for i in range(1, 21)]
BASELINE = ("cd /repo && /venv/bin/python -m pytest -ra -q -p no:cacheprovider --timeout=900 "
            "--continue-on-collection-errors")


def main():
    checks, missing = [], []
    for pid in ALL:
        path = os.path.join(ROOT, "harness", "props", pid.lower() + ".py")
        if not os.path.exists(path):
            missing.append(pid)
            continue
        m = importlib.import_module("harness.props." + pid.lower())
        if not getattr(m, "LEVEL_TEXT", ""):
            missing.append(pid)      # module present but the check is not finished
            continue
        checks.append({
            "property_id": pid,
            "quick_cmd": "./vcheck %s --tier quick" % pid,
            "thorough_cmd": "./vcheck %s --tier thorough" % pid,
            "evidence_file": "evidence/%s.json" % pid,
            "replay_cmd_template": "./vcheck %s --replay {path}" % pid,
            "engine": "lean4-proof+correspondence",
            "level_claimed": {"category": "proof", "text": m.LEVEL_TEXT, "design_ref": "DESIGN.md section " + m.DESIGN_REF},
            "level_note": m.LEVEL_NOTE,
            "technique": m.TECHNIQUE,
        })
    man = {
        "version": 1,
        "setup_cmd": "python3 tools/gen_index.py && python3 tools/gen_lean.py && cd lean && lake build Clikit driver Clikit.AuditCmd",
        "hooks": {
            "guard": "CLIKIT_VERIF",
            "enable": "no source hooks: clock, threads, terminal width and stty are substituted from outside "
                      "(module attributes, COLUMNS, PATH); vcheck exports CLIKIT_VERIF=1 for uniformity",
            "baseline_off_cmd": BASELINE,
            "source_commits": [],
            "add_only": True,
        },
        "engines": [{
            "name": "lean4-proof+correspondence", "path": "lean/ harness/ tools/ vcheck",
            "serves_properties": [c["property_id"] for c in checks],
            "kind_free_text": "Lean 4 models and theorems (kernel-checked, axioms audited per theorem), tied to /repo by "
                              "regeneration of constants and decision functions (tools/gen_lean.py, tools/py2lean.py) and by a "
                              "differential correspondence harness driving the real clikit and the compiled model on the same cases",
        }],
        "checks": checks,
        "not_applicable": [{"property_id": p,
                            "reason": "no check registered yet: the model/theorems for this property are not built in the "
                                      "committed state (design in DESIGN.md section 6); the technique applies"} for p in missing],
        "notes": "See DESIGN.md. known_findings.json lists repaired defects (fix: commits in /repo) and recorded findings.",
    }
    with open(os.path.join(ROOT, "MANIFEST.json"), "w") as f:
        json.dump(man, f, indent=1)
    print("MANIFEST checks=%d not_applicable=%d" % (len(checks), len(missing)))


if __name__ == "__main__":
    main()
