"""
Shared by C01 / C02 / C05: building real ArgsFormat objects from a JSON spec, flattening them for
the Lean parser model, running the real DefaultArgsParser, canonical encoding of Python values.
"""
import math

TYPES = ["string", "boolean", "integer", "float"]


# ----------------------------------------------------------------------------- values
def enc(v):
    """Python value -> canonical JSON (same encoding as lean/Clikit/Drv/C01.lean)"""
    if v is None:
        return None
    if isinstance(v, bool):
        return {"b": v}
    if isinstance(v, int):
        return {"i": str(v)}
    if isinstance(v, str):
        return {"s": v}
    if isinstance(v, float):
        return {"f": repr(v)}
    if isinstance(v, list):
        return {"l": [enc(x) for x in v]}
    return {"x": type(v).__name__}


def dec(j):
    if j is None:
        return None
    if "b" in j:
        return j["b"]
    if "i" in j:
        return int(j["i"])
    if "s" in j:
        return j["s"]
    if "f" in j:
        return float(j["f"])
    if "l" in j:
        return [dec(x) for x in j["l"]]
    raise ValueError(j)


# ----------------------------------------------------------------------------- formats
def opt_flags(mode, ty, nullable, prefer=None):
    from clikit.api.args.format.option import Option
    f = {"flag": Option.NO_VALUE, "required": Option.REQUIRED_VALUE, "optional": Option.OPTIONAL_VALUE,
         "multi": Option.MULTI_VALUED}[mode]
    f |= {"string": Option.STRING, "boolean": Option.BOOLEAN, "integer": Option.INTEGER, "float": Option.FLOAT}[ty]
    if nullable:
        f |= Option.NULLABLE
    return f


def arg_flags(mode, ty, nullable):
    from clikit.api.args.format.argument import Argument
    f = {"required": Argument.REQUIRED, "optional": Argument.OPTIONAL,
         "multi": Argument.MULTI_VALUED | Argument.OPTIONAL, "multi_required": Argument.MULTI_VALUED | Argument.REQUIRED}[mode]
    f |= {"string": Argument.STRING, "boolean": Argument.BOOLEAN, "integer": Argument.INTEGER, "float": Argument.FLOAT}[ty]
    if nullable:
        f |= Argument.NULLABLE
    return f


def build_format(spec):
    """spec = {"levels": [level, ...]} innermost base first;
    level = {"cmds":[{"name","aliases"}], "args":[{"name","mode","type","nullable","default"}],
             "opts":[{"long","short","mode","type","nullable","default"}]}"""
    from clikit.api.args.format.args_format_builder import ArgsFormatBuilder
    from clikit.api.args.format.argument import Argument
    from clikit.api.args.format.command_name import CommandName
    from clikit.api.args.format.option import Option
    base = None
    for level in spec["levels"]:
        b = ArgsFormatBuilder(base)
        for c in level.get("cmds", []):
            b.add_command_name(CommandName(c["name"], list(c.get("aliases", []))))
        for a in level.get("args", []):
            b.add_argument(Argument(a["name"], arg_flags(a["mode"], a["type"], a["nullable"]),
                                    default=dec(a.get("default"))))
        for o in level.get("opts", []):
            mode = o["mode"]
            kw = {}
            if mode != "flag":
                kw["default"] = dec(o.get("default"))
            b.add_option(Option(o["long"], o.get("short"), opt_flags(mode, o["type"], o["nullable"]), **kw))
        base = b.format
    return base


def _add_elements(b, level):
    """add the elements of `level` to the builder `b`; an addition the builder rejects is skipped (it leaves the builder
    unchanged: C06) and counted"""
    from clikit.api.args.format.argument import Argument
    from clikit.api.args.format.command_name import CommandName
    from clikit.api.args.format.option import Option
    rejected = 0
    for c in level.get("cmds", []):
        try:
            b.add_command_name(CommandName(c["name"], list(c.get("aliases", []))))
        except Exception:  # noqa
            rejected += 1
    for a in level.get("args", []):
        try:
            b.add_argument(Argument(a["name"], arg_flags(a["mode"], a["type"], a["nullable"]), default=dec(a.get("default"))))
        except Exception:  # noqa
            rejected += 1
    for o in level.get("opts", []):
        kw = {}
        if o["mode"] != "flag":
            kw["default"] = dec(o.get("default"))
        try:
            b.add_option(Option(o["long"], o.get("short"), opt_flags(o["mode"], o["type"], o["nullable"]), **kw))
        except Exception:  # noqa
            rejected += 1
    return rejected


def build_format_reused(spec, ext):
    """the format of `spec`, taken from a builder that is USED FURTHER afterwards: the last level's builder hands out
    the format (`builder.format`), then receives the elements of `ext` (a level dict) and hands out a second, richer
    format - one builder deriving the formats of two commands.  Returns (format, its flattened listing as it was
    when it was taken, the second format, number of rejected additions)."""
    from clikit.api.args.format.args_format_builder import ArgsFormatBuilder
    base = None
    levels = spec["levels"]
    for level in levels[:-1]:
        b = ArgsFormatBuilder(base)
        _add_elements(b, level)
        base = b.format
    b = ArgsFormatBuilder(base)
    _add_elements(b, levels[-1])
    fmt = b.format
    flat_taken = flatten(fmt)
    rejected = _add_elements(b, ext)
    richer = b.format
    return fmt, flat_taken, richer, rejected


EXT_CMDS = [{"name": "server", "aliases": ["srv"]}, {"name": "abc", "aliases": ["x"]}, {"name": "hello", "aliases": []},
            {"name": "copy", "aliases": ["cp", "10", "true"]}, {"name": "zzz", "aliases": ["7", "1.5"]}]


def gen_ext(rng, spec, unknown_names=(("nosuchopt", "Y"), ("unknown", "z"))):
    """elements a builder can still take after the format of `spec` was taken from it (argument rules respected:
    nothing after a multi-valued argument, no required argument after an optional one); the option names include the
    ones the fault generators use as UNKNOWN options of `spec`"""
    cmds, args, opts = spec_flat(spec)
    ext_args = []
    if not (args and args[-1]["mode"].startswith("multi")):
        has_optional = any(a["mode"] == "optional" for a in args)
        for i in range(rng.choice([1, 1, 2])):
            mode = rng.choice(["optional", "multi"] if has_optional else
                              ["required", "required", "optional", "multi", "multi_required"])
            ty = rng.choice(TYPES)
            a = {"name": "x%d" % (i + 1), "mode": mode, "type": ty, "nullable": rng.random() < 0.3}
            if mode in ("optional", "multi"):
                a["default"] = enc(default_for(rng, ty, mode == "multi"))
            ext_args.append(a)
            if mode.startswith("multi"):
                break
            has_optional = has_optional or mode == "optional"
    used_long = set(o["long"] for o in opts)
    used_short = set(o.get("short") for o in opts)
    pool = [(ln, sh) for ln, sh in list(unknown_names) + list(zip(LONGS, SHORTS)) if ln not in used_long]
    ext_opts = []
    for ln, sh in rng.sample(pool, min(len(pool), rng.choice([0, 1, 1, 2]))):
        mode = rng.choice(["flag", "flag", "required", "optional", "multi"])
        ty = rng.choice(TYPES) if mode != "flag" else "string"
        o = {"long": ln, "short": sh if sh not in used_short else None, "mode": mode, "type": ty, "nullable": False}
        used_short.add(sh)
        if mode != "flag":
            o["default"] = enc(default_for(rng, ty, mode == "multi"))
        ext_opts.append(o)
    # command names (with aliases) spelled like words the generated lines use as positionals: a format that picked them up
    # would take such a positional for a command name
    used_names = set()
    for c in cmds:
        used_names.add(c["name"])
        used_names.update(c.get("aliases", []))
    cpool = [c for c in EXT_CMDS if c["name"] not in used_names and not used_names & set(c["aliases"])]
    ext_cmds = [dict(c, aliases=list(c["aliases"])) for c in rng.sample(cpool, min(len(cpool), rng.choice([0, 0, 1, 1, 2])))]
    return {"cmds": ext_cmds, "args": ext_args, "opts": ext_opts}


def _type_of_flags(obj, cls):
    fl = obj.flags
    if fl & cls.BOOLEAN:
        return "boolean"
    if fl & cls.INTEGER:
        return "integer"
    if fl & cls.FLOAT:
        return "float"
    return "string"


def flatten(fmt):
    """the flattened view `parse()` works on, read from the REAL format object"""
    from clikit.api.args.format.argument import Argument
    from clikit.api.args.format.option import Option
    return {
        "cmds": [{"name": c.string, "aliases": list(c.aliases)} for c in fmt.get_command_names()],
        "args": [{"name": a.name, "required": a.is_required(), "multi": a.is_multi_valued(),
                  "type": _type_of_flags(a, Argument), "nullable": bool(a.flags & Argument.NULLABLE),
                  "default": enc(a.default)} for a in fmt.get_arguments().values()],
        "opts": [{"long": o.long_name, "short": o.short_name, "accepts": o.accepts_value(),
                  "required": o.is_value_required(), "optional": o.is_value_optional(),
                  "multi": o.is_multi_valued(), "type": _type_of_flags(o, Option),
                  "nullable": bool(o.flags & Option.NULLABLE), "default": enc(o.default)}
                 for o in fmt.get_options().values()],
    }


def conv_tables(texts):
    ints, floats = [], []
    for t in sorted(set(texts)):
        try:
            ints.append([t, str(int(t))])
        except (ValueError, TypeError):
            ints.append([t, None])
        try:
            floats.append([t, repr(float(t))])
        except (ValueError, TypeError, OverflowError):
            floats.append([t, None])
    return ints, floats


def texts_of(flat, tokens):
    out = set()
    for t in tokens:
        for k in range(len(t) + 1):
            out.add(t[k:])
    for a in flat["args"]:
        _collect(a["default"], out)
    for o in flat["opts"]:
        _collect(o["default"], out)
    return out


def _collect(j, out):
    if isinstance(j, dict):
        if "s" in j:
            out.add(j["s"])
        if "l" in j:
            for x in j["l"]:
                _collect(x, out)


def model_request(flat, tokens, lenient, entry="c01.parse"):
    ints, floats = conv_tables(texts_of(flat, tokens))
    return {"m": entry, "fmt": flat, "tokens": list(tokens), "lenient": lenient, "ints": ints, "floats": floats}


# ----------------------------------------------------------------------------- running the real parser
def observe_args(fmt, args):
    res = {
        "args_set": [[k, enc(v)] for k, v in args.arguments(False).items()],
        "args_all": [[k, enc(v)] for k, v in args.arguments(True).items()],
        "opts_set": sorted([[k, enc(v)] for k, v in args.options(False).items()], key=lambda p: p[0]),
        "opts_all": sorted([[k, enc(v)] for k, v in args.options(True).items()], key=lambda p: p[0]),
        "option_long": [], "option_short": [], "argument_name": [], "argument_index": [],
    }

    def get(fn, *a):
        try:
            return {"v": enc(fn(*a))}
        except Exception as e:  # noqa
            return {"err": type(e).__name__}

    for o in fmt.get_options().values():
        res["option_long"].append([o.long_name, get(args.option, o.long_name)])
        res["option_short"].append([o.short_name, get(args.option, o.short_name)] if o.short_name else None)
    for i, a in enumerate(fmt.get_arguments().values()):
        res["argument_name"].append([a.name, get(args.argument, a.name)])
        res["argument_index"].append(get(args.argument, i))
    return res


def canon_model_answer(ans):
    """bring a model answer into the same shape as observe_args / the error form"""
    if "err" in ans:
        return {"err": ans["err"]}
    o = dict(ans["ok"])
    o["opts_set"] = sorted(o["opts_set"], key=lambda p: p[0])
    o["opts_all"] = sorted(o["opts_all"], key=lambda p: p[0])
    return {"ok": o}


def run_parse(parser, fmt, tokens, lenient, as_string=False, argv=None):
    """`argv`: the caller's own argv LIST object (script name first), e.g. sys.argv used for several parses"""
    from clikit.args.argv_args import ArgvArgs
    try:
        raw = ArgvArgs(argv if argv is not None else ["prog"] + list(tokens))
    except Exception as e:  # noqa - e.g. an argv list that an earlier ArgvArgs emptied
        return {"err": "building the raw args: " + type(e).__name__}
    try:
        args = parser.parse(raw, fmt, lenient)
    except Exception as e:  # noqa
        return {"err": type(e).__name__}
    try:
        return {"ok": observe_args(fmt, args)}
    except Exception as e:  # noqa - reading the result through the listings failed: an observation, not a harness fault
        return {"err": "reading the result: " + type(e).__name__}


def run_reused(fmt, prev, tokens, lenient):
    """the same parse on a parser OBJECT that has parsed another line before (Config.set_args_parser shares one
    object between all parses of an application): the result is a function of the line alone"""
    from clikit.args.default_args_parser import DefaultArgsParser
    parser = DefaultArgsParser()
    run_parse(parser, fmt, prev, lenient)
    return run_parse(parser, fmt, tokens, lenient)


def is_finite_float_text(t):
    try:
        return math.isfinite(float(t))
    except (ValueError, OverflowError):
        return False


# ----------------------------------------------------------------------------- generators (C01/C02/C05)
LONGS = ["foo", "bar", "baz", "opt", "num", "multi", "verbose", "quux"]
SHORTS = "fbzonmvq"
ARGNAMES = ["a1", "a2", "a3", "a4"]
WORDS = ["x", "abc", "hello", "srv1", "a=b", "é", "10", "0", "7", "1.5", "null", "true", "false", "yes", "off", "x y"]


def value_for(rng, ty, nullable, attached=False):
    """a text convertible to `ty` (mostly) - returns text"""
    if ty == "integer":
        v = rng.choice(["0", "7", "42", "10", "007", "+3"] + (["-5", "-12"] if attached else []))
    elif ty == "float":
        v = rng.choice(["1.5", "0.25", "3", "1e3", "10.0"] + (["-2.5"] if attached else []))
    elif ty == "boolean":
        v = rng.choice(["true", "false", "1", "0", "yes", "no", "on", "off"])
    else:
        v = rng.choice(WORDS + (["-dash", "--x"] if attached else []))
    if nullable and rng.random() < 0.15:
        v = "null"
    return v


def default_for(rng, ty, multi):
    def one():
        if ty == "integer":
            return rng.choice([None, 3, "12"])
        if ty == "float":
            return rng.choice([None, 2.5, "0.5"])
        if ty == "boolean":
            return rng.choice([None, True, False, "yes"])
        return rng.choice([None, "dflt", "null"])
    if multi:
        return rng.choice([None, [], [x for x in [one(), one()] if x is not None]])
    return one()


def gen_format(rng, max_opts=5, max_args=4, max_cmds=2, with_base=None):
    n_opts = rng.randint(0, max_opts)
    n_args = rng.randint(0, max_args)
    n_cmds = rng.choice([0, 0, 1, 2][: max_cmds + 2]) if max_cmds else 0
    longs = rng.sample(LONGS, n_opts)
    opts = []
    used_short = set()
    for ln in longs:
        mode = rng.choice(["flag", "flag", "required", "optional", "multi"])
        ty = rng.choice(TYPES) if mode != "flag" else "string"
        nullable = rng.random() < 0.3
        short = None
        if rng.random() < 0.7:
            s = SHORTS[LONGS.index(ln)]
            if s not in used_short:
                short = s
                used_short.add(s)
        o = {"long": ln, "short": short, "mode": mode, "type": ty, "nullable": nullable}
        if mode in ("optional", "required"):
            o["default"] = enc(default_for(rng, ty, False))
        elif mode == "multi":
            o["default"] = enc(default_for(rng, ty, True))
        opts.append(o)
    args = []
    # required* optional* [multi]
    n_req = rng.randint(0, n_args)
    for i in range(n_args):
        ty = rng.choice(TYPES)
        nullable = rng.random() < 0.3
        if i == n_args - 1 and rng.random() < 0.4:
            mode = "multi_required" if i < n_req else "multi"
        else:
            mode = "required" if i < n_req else "optional"
        a = {"name": ARGNAMES[i], "mode": mode, "type": ty, "nullable": nullable}
        if mode == "optional":
            a["default"] = enc(default_for(rng, ty, False))
        elif mode == "multi":
            a["default"] = enc(default_for(rng, ty, True))
        args.append(a)
    cmds = []
    pool = [("server", ["srv"]), ("add", ["a", "plus"]), ("list", [])]
    for k in range(n_cmds):
        nm, al = pool[k]
        cmds.append({"name": nm, "aliases": al if rng.random() < 0.7 else []})
    if with_base is None:
        with_base = rng.random() < 0.35
    if with_base and (opts or args or cmds):
        # split into a base level and an own level (arguments: base gets a prefix)
        ko, ka, kc = rng.randint(0, len(opts)), rng.randint(0, len(args)), rng.randint(0, len(cmds))
        levels = [{"cmds": cmds[:kc], "args": args[:ka], "opts": opts[:ko]},
                  {"cmds": cmds[kc:], "args": args[ka:], "opts": opts[ko:]}]
    else:
        levels = [{"cmds": cmds, "args": args, "opts": opts}]
    return {"levels": levels}


def spec_flat(spec):
    """flattened element lists of a spec (base first), used by the generators only"""
    cmds, args, opts = [], [], []
    for lv in spec["levels"]:
        cmds += lv.get("cmds", [])
        args += lv.get("args", [])
    # get_options(): own first, then base
    for lv in reversed(spec["levels"]):
        opts += lv.get("opts", [])
    return cmds, args, opts


def gen_line(rng, spec, omit_cmd_suffix=False):
    """a well-formed line for the format: returns (tokens, intent)
    intent = {"args": {name: text | [texts]}, "opts": {long: True | text | ["novalue"] | [texts]}}"""
    cmds, args, opts = spec_flat(spec)
    items = []      # (kind, payload) in order; positionals interleaved later
    intent_opts = {}
    for o in opts:
        if rng.random() < 0.45:
            continue
        ln, sh, mode = o["long"], o.get("short"), o["mode"]
        if mode == "flag":
            intent_opts[ln] = True
            items.append(("flag", o))
        elif mode in ("required", "optional"):
            if mode == "optional" and rng.random() < 0.3:
                intent_opts[ln] = ["novalue"]
                items.append(("novalue", o))
            else:
                attached = rng.random() < 0.5
                v = value_for(rng, o["type"], o["nullable"], attached)
                intent_opts[ln] = v
                items.append(("value", o, v, attached))
        else:
            vs = []
            for _ in range(rng.randint(1, 3)):
                attached = rng.random() < 0.5
                v = value_for(rng, o["type"], o["nullable"], attached)
                vs.append(v)
                items.append(("value", o, v, attached))
            intent_opts[ln] = vs
    rng.shuffle(items)
    # multi-valued options must keep their relative order: rebuild intent from item order
    for o in opts:
        if o["mode"] == "multi" and o["long"] in intent_opts:
            intent_opts[o["long"]] = [it[2] for it in items if it[0] == "value" and it[1] is o]
    # positionals
    pos = []
    intent_args = {}
    n_given_cmds = len(cmds)
    if omit_cmd_suffix and cmds:
        n_given_cmds = rng.randint(0, len(cmds) - 1)
    for k in range(n_given_cmds):
        c = cmds[k]
        pos.append(rng.choice([c["name"]] + list(c.get("aliases", []))))
    n_req = len([a for a in args if a["mode"] in ("required", "multi_required")])
    n_single = len([a for a in args if not a["mode"].startswith("multi")])
    count = rng.randint(n_req if not (args and args[-1]["mode"] == "multi_required") else n_req, len(args))
    first_real = True
    for i, a in enumerate(args):
        if i >= count:
            break
        if a["mode"].startswith("multi"):
            k = rng.randint(1, 3)
            vals = []
            for _ in range(k):
                vals.append(_posval(rng, a, cmds, n_given_cmds, first_real and omit_cmd_suffix))
                first_real = False
            intent_args[a["name"]] = vals
            pos += vals
        else:
            v = _posval(rng, a, cmds, n_given_cmds, first_real and omit_cmd_suffix)
            first_real = False
            intent_args[a["name"]] = v
            pos.append(v)
    # where does `--` go?  positionals after it may be anything
    use_dd = rng.random() < 0.35
    n_before = rng.randint(n_given_cmds, len(pos)) if use_dd else len(pos)
    if use_dd:
        for j in range(max(n_before, n_given_cmds), len(pos)):
            if rng.random() < 0.4 and j >= n_given_cmds:
                # exotic values are only safe after `--`
                a = _arg_at(args, j - n_given_cmds)
                if a is not None and a["type"] == "string":
                    newv = rng.choice(["-x", "--foo", "--", "-", ""])
                    _replace_pos(intent_args, args, j - n_given_cmds, newv)
                    pos[j] = newv
    # interleave options among the positionals before `--`
    tokens = []
    slots = [[] for _ in range(n_before + 1)]
    for it in items:
        slots[rng.randint(0, n_before)].append(it)
    rendered = []
    for k in range(n_before + 1):
        for it in slots[k]:
            rendered.append(("opt", it))
        if k < n_before:
            rendered.append(("pos", pos[k]))
    # multi-valued options: the intended order is the command-line order
    for o in opts:
        if o["mode"] == "multi" and o["long"] in intent_opts:
            intent_opts[o["long"]] = [it[2] for (kind, it) in rendered if kind == "opt" and it[0] == "value" and it[1] is o]
    # render options; an optional-value option without value must not be followed by a positional;
    # adjacent short flags (and a final value option) may be grouped: -ab, -abnVALUE, -abn VALUE
    out = []
    sems = []                # the token-free meaning of the line, item by item (Lean: Clikit.Parser.Sem)
    group_open = False       # the last token of `out` is a group of short flags that can be extended
    for idx, (kind, it) in enumerate(rendered):
        if kind == "pos":
            out.append(it)
            sems.append({"pos": it})
            group_open = False
            continue
        sems.append({"opt": it[1]["long"], "v": it[2] if it[0] == "value" and it[2] != "" else None})
        nxt_is_pos = idx + 1 < len(rendered) and rendered[idx + 1][0] == "pos"
        o = it[1]
        sh = o.get("short")
        if group_open and sh and rng.random() < 0.6:
            if it[0] == "flag":
                out[-1] += sh
                continue
            if it[0] == "value" and it[2] != "" and not (it[2].startswith("-") and not it[3]):
                if it[3]:
                    out[-1] += sh + it[2]
                else:
                    out[-1] += sh
                    out.append(it[2])
                group_open = False
                continue
        toks = _render_opt(rng, it, nxt_is_pos, False)
        out += toks
        group_open = (it[0] == "flag" and len(toks) == 1 and toks[0].startswith("-") and not toks[0].startswith("--"))
    if use_dd:
        out.append("--")
        out += pos[n_before:]
        sems += [{"pos": v} for v in pos[n_before:]]
    return out, {"args": intent_args, "opts": intent_opts, "n_given_cmds": n_given_cmds, "sems": sems}


def _arg_at(args, j):
    # argument that receives positional number j (surplus goes to a trailing multi)
    if j < len(args):
        return args[j]
    if args and args[-1]["mode"].startswith("multi"):
        return args[-1]
    return None


def _replace_pos(intent_args, args, j, newv):
    k = 0
    for a in args:
        if a["name"] not in intent_args:
            continue
        v = intent_args[a["name"]]
        if isinstance(v, list):
            if j < k + len(v):
                v[j - k] = newv
                return
            k += len(v)
        else:
            if j == k:
                intent_args[a["name"]] = newv
                return
            k += 1


def _posval(rng, a, cmds, n_given_cmds, avoid_cmd):
    for _ in range(20):
        v = value_for(rng, a["type"], a["nullable"], False)
        if a["type"] == "string" and rng.random() < 0.1:
            v = rng.choice(["", "-"])
        if v.startswith("-") and v != "-":
            continue
        if avoid_cmd and n_given_cmds < len(cmds):
            c = cmds[n_given_cmds]
            if v == c["name"] or v in c.get("aliases", []):
                continue
        return v
    return "x"


def _render_opt(rng, it, next_is_positional, _unused):
    kind, o = it[0], it[1]
    ln, sh = o["long"], o.get("short")
    if kind == "flag":
        if sh and rng.random() < 0.5:
            return ["-" + sh]
        return ["--" + ln]
    if kind == "novalue":
        # `--opt` then a positional would swallow it: spell it so that it cannot (attach nothing, but
        # make sure the next token is not a positional by using the `=`-less form only when safe)
        if next_is_positional:
            return ["--" + ln + "="]           # `--opt=` : explicit "no value"
        if sh and rng.random() < 0.5:
            return ["-" + sh]
        return ["--" + ln]
    v, attached = it[2], it[3]
    if v == "":
        attached = True
    forms = []
    if attached or v.startswith("-"):
        forms.append(["--%s=%s" % (ln, v)])
        if sh and v != "":
            forms.append(["-%s%s" % (sh, v)])
    else:
        forms.append(["--" + ln, v])
        if sh:
            forms.append(["-" + sh, v])
    return rng.choice(forms)
