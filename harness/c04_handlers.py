"""Handlers used by the C04/C09/C17 harnesses.  This file deliberately contains no text that looks like
style markup: the traceback renderer shows lines of the file an exception was raised from."""

CALLS = []


class Coded(Exception):
    code = 3


class CodedText(Exception):
    code = "invalid"


class CodedNone(Exception):
    code = None


def lt():
    return chr(60)


def make_message(kind):
    o, c = lt(), chr(62)
    tag = lambda name, close=False: o + ("/" if close else "") + name + c  # noqa
    return {
        "plain": "boom",
        "multiline": "first line\nsecond line",
        "nonascii": "café ✓ über",
        # a lone surrogate, as os.fsdecode() produces for an undecodable file name: no encoding can write it strictly
        "surrogate": "cannot open caf\udce9.txt",
        "balanced": tag("info") + "a" + tag("info", True),
        "opening": tag("info") + "a",
        "closing": "a" + tag("info", True),
        "mismatched": tag("info") + "a" + tag("b", True),
        "anyclose": "x" + o + "/" + c,
        "lt": "1 " + o + " 2",
        "empty": "",
    }[kind]


def make_exception(spec):
    from clikit.api.args.exceptions import CannotParseArgsException, NoSuchOptionException
    msg = make_message(spec.get("msg", "plain"))
    t = spec["type"]
    if t == "RuntimeError":
        return RuntimeError(msg)
    if t == "ValueError":
        return ValueError(msg)
    if t == "KeyError":
        return KeyError(msg)
    if t == "Coded":
        return Coded(msg)
    if t == "CodedText":
        return CodedText(msg)
    if t == "CodedNone":
        return CodedNone(msg)
    if t == "CannotParse":
        return CannotParseArgsException(msg)
    if t == "NoSuchOption":
        return NoSuchOptionException(msg)
    if t == "KeyboardInterrupt":
        return KeyboardInterrupt()
    raise AssertionError(t)


def raise_it(spec):
    if spec.get("nosource"):
        # code compiled from a string: no readable source file for the failing frame
        ns = {"make_exception": make_exception, "spec": spec}
        exec(compile("def go():\n    raise make_exception(spec)\n", "generated-code-without-file", "exec"), ns)
        ns["go"]()
    if spec.get("cause"):
        try:
            raise ValueError("the cause")
        except ValueError as e:
            raise make_exception(spec) from e
    raise make_exception(spec)


def value_of(spec):
    k = spec["kind"]
    if k == "none":
        return None
    if k == "bool":
        return spec["v"]
    if k == "int":
        return spec["v"]
    if k == "str":
        return spec["v"]
    if k == "float":
        return float(spec["v"])
    if k == "list":
        return list(spec["v"])
    raise AssertionError(k)


class Handler(object):
    def __init__(self, outcome, on_call=None):
        self.outcome = outcome
        self.on_call = on_call

    def handle(self, args, io, command):
        CALLS.append({"command": command.name, "arguments": dict(args.arguments(False)),
                      "options": dict(args.options(False))})
        if self.on_call is not None:
            self.on_call(args, io, command)
        if "raise" in self.outcome:
            if self.outcome["raise"].get("scope"):
                # raised inside one of the library's own context managers (an indentation scope)
                with io.indent(2):
                    io.write_line("inside the scope")
                    raise_it(self.outcome["raise"])
                return 0        # only reached when the scope swallowed the exception
            raise_it(self.outcome["raise"])
        return value_of(self.outcome["ret"])


# ---- the ways a handler can be wired to a command (C04): the same behaviour as `Handler`, given to the configuration
# as an instance, through a lazy factory (function, the class itself, a partial, an object that can be called, a bound
# method), as a plain function behind the method name of calling, or under a custom handler method name
WRONG_CALLS = []      # calls of a method that is NOT the configured handler method
BUILT = []            # one entry per handler object a factory built


def _act(outcome, args, io, command):
    CALLS.append({"command": command.name, "arguments": dict(args.arguments(False)),
                  "options": dict(args.options(False))})
    if "raise" in outcome:
        if outcome["raise"].get("scope"):
            with io.indent(2):
                io.write_line("inside the scope")
                raise_it(outcome["raise"])
            return 0
        raise_it(outcome["raise"])
    return value_of(outcome["ret"])


def handler_type(outcome, method="handle", decoy=False, base_defines=True):
    """a handler CLASS that is built without arguments; its handler method is called `method`.  With `base_defines` the
    method is inherited from a base class (an ordinary class hierarchy); `decoy`: the class also has a method with the
    default name that must never be called when another name is configured."""
    def invoke(self, args, io, command):
        return _act(self.outcome, args, io, command)

    def wrong(self, args, io, command):
        WRONG_CALLS.append(command.name)
        return 0

    def init(self):
        BUILT.append(type(self).__name__)
    ns = {method: invoke}
    if decoy and method != "handle":
        ns["handle"] = wrong
    if base_defines:
        base = type("BaseOfGenerated", (object,), ns)
        return type("GeneratedHandler", (base,), {"outcome": outcome, "__init__": init})
    ns.update({"outcome": outcome, "__init__": init})
    return type("GeneratedHandler", (object,), ns)


class Factory(object):
    """an object that builds the handler when it is called (it is not a handler itself)"""

    def __init__(self, cls, fail=None, nothing=False):
        self.cls, self.fail, self.nothing = cls, fail, nothing

    def __call__(self):
        return self.build()

    def build(self):
        if self.fail is not None:
            raise_it(self.fail)
        if self.nothing:
            return None
        return self.cls()


def function_handler(outcome):
    """a plain function as the handler: reached through the method name of calling"""
    def the_handler(args, io, command):
        return _act(outcome, args, io, command)
    return the_handler
