"""Raises the exceptions whose traces C17 renders.  A file of its own and a small one: ExceptionTrace tokenises the
whole source file of the failing frame on every render."""


def boom(depth, msg):
    if depth > 0:
        return boom(depth - 1, msg)
    raise RuntimeError(msg)


def caught(depth, msg):
    try:
        boom(depth, msg)
    except RuntimeError as e:
        return e
