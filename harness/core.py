"""
Shared pipeline of the clikit verification checks (DESIGN.md section 2.3):

  GEN     regenerate lean/Clikit/Gen/*.lean from /repo's current source      (tie A)
  PROVE   lake build of the property module and of the model driver
  AUDIT   `#print axioms`-style audit of every theorem of the property module, source grep
  CORR    run implementation and Lean model on the same cases and compare     (tie B)
  ORACLE  evaluate the property statement itself on the implementation's behaviour

A broken proof obligation or correspondence is not by itself a violation: the pipeline
searches for a failing input with the oracle; the VIOLATION line ends with
`no-failing-input-found` when there is none.
Exit status: 0 held, 1 violation, 2 infrastructure failure / timeout.
"""
import fcntl
import glob
import hashlib
import importlib
import json
import multiprocessing
import os
import random
import re
import subprocess
import sys
import time
import traceback

ROOT = os.path.dirname(os.path.dirname(os.path.abspath(__file__)))
LEAN = os.path.join(ROOT, "lean")
DRIVER = os.path.join(LEAN, ".lake", "build", "bin", "driver")
REPO = os.environ.get("CLIKIT_REPO", "/repo")
ALLOWED_AXIOMS = {"propext", "Classical.choice", "Quot.sound"}
FORBIDDEN = re.compile(r"\bsorry\b|\badmit\b|^axiom |native_decide|bv_decide|implemented_by|\bunsafe |maxHeartbeats 0")
WORKERS = int(os.environ.get("VERIF_WORKERS", str(min(16, os.cpu_count() or 4))))


class Infra(Exception):
    """infrastructure failure: exit 2, never a verdict"""


def log(msg):
    sys.stdout.write(msg + "\n")
    sys.stdout.flush()


# --------------------------------------------------------------------------- lean side
class LakeLock(object):
    def __enter__(self):
        os.makedirs(os.path.join(LEAN, ".lake"), exist_ok=True)
        self.f = open(os.path.join(LEAN, ".lake", "verif.lock"), "w")
        fcntl.flock(self.f, fcntl.LOCK_EX)
        return self

    def __exit__(self, *a):
        fcntl.flock(self.f, fcntl.LOCK_UN)
        self.f.close()


def run(cmd, cwd=None, timeout=1800, input=None, env=None):
    try:
        p = subprocess.run(cmd, cwd=cwd, timeout=timeout, input=input, env=env,
                           stdout=subprocess.PIPE, stderr=subprocess.STDOUT, universal_newlines=True)
    except subprocess.TimeoutExpired:
        raise Infra("timeout after %ss: %s" % (timeout, " ".join(cmd)))
    except OSError as e:
        raise Infra("cannot run %s: %s" % (cmd[0], e))
    return p.returncode, p.stdout


def gen_lean():
    """tie A.  returns (ok, text)"""
    env = dict(os.environ)
    env["CLIKIT_REPO"] = REPO
    with LakeLock():
        run([sys.executable, os.path.join(ROOT, "tools", "gen_index.py")], env=env, timeout=300)
        rc, out = run([sys.executable, os.path.join(ROOT, "tools", "gen_lean.py")], env=env, timeout=300)
    if rc == 0:
        return True, out.strip()
    if rc == 3:
        return False, out.strip()
    raise Infra("gen_lean.py failed:\n" + out)


def gen_deps(modules):
    """the generated files (Gen/<X>.lean) that the given Lean modules import, directly or not"""
    # the property's theorems and the driver entries of the same property (Clikit.Props.Cxx -> Clikit.Drv.Cxx)
    seen, gen = set(), set()
    todo = list(modules) + [m.replace("Clikit.Props.", "Clikit.Drv.") for m in modules if m.startswith("Clikit.Props.")]
    while todo:
        m = todo.pop()
        if m in seen or not m.startswith("Clikit"):
            continue
        seen.add(m)
        if m.startswith("Clikit.Gen."):
            gen.add(m.split(".")[-1] + ".lean")
        path = os.path.join(LEAN, *m.split(".")) + ".lean"
        try:
            with open(path, encoding="utf-8") as f:
                for line in f:
                    mm = re.match(r"\s*import\s+([\w.]+)", line)
                    if mm:
                        todo.append(mm.group(1))
                    elif line.strip() and not line.startswith(("--", "/-", "import")) and "import" not in line:
                        break
        except OSError:
            pass
    return gen


def lake_build(targets, timeout=3000):
    with LakeLock():
        rc, out = run(["lake", "build"] + list(targets), cwd=LEAN, timeout=timeout)
    return rc == 0, out


def lean_errors(out):
    return [l for l in out.splitlines() if l.startswith("error:") or " error: " in l][:20]


def audit(module):
    """returns list of {"theorem","axioms"} for every theorem declared in `module`"""
    d = os.path.join(LEAN, ".lake", "audit")
    os.makedirs(d, exist_ok=True)
    path = os.path.join(d, module.replace(".", "_") + ".lean")
    with open(path, "w") as f:
        f.write("import %s\nimport Clikit.AuditCmd\n#audit_module %s\n" % (module, module))
    with LakeLock():
        ok, out = True, ""
        rc, out = run(["lake", "build", "Clikit.AuditCmd"], cwd=LEAN, timeout=1200)
        if rc != 0:
            raise Infra("cannot build the audit command:\n" + out)
        rc, out = run(["lake", "env", "lean", path], cwd=LEAN, timeout=1200)
    if rc != 0:
        return None, out
    thms = []
    count = None
    for line in out.splitlines():
        m = re.search(r"AUDIT (\{.*\})\s*$", line)
        if m:
            thms.append(json.loads(m.group(1)))
        m = re.search(r"AUDIT-COUNT (\d+)", line)
        if m:
            count = int(m.group(1))
    if count is None or count != len(thms):
        raise Infra("audit output not understood:\n" + out[-2000:])
    return thms, out


def strip_comments(text):
    # remove /- ... -/ (nested) and -- comments
    out = []
    i, depth, n = 0, 0, len(text)
    while i < n:
        if text.startswith("/-", i):
            depth += 1
            i += 2
        elif depth and text.startswith("-/", i):
            depth -= 1
            i += 2
        elif depth:
            if text[i] == "\n":
                out.append("\n")
            i += 1
        elif text.startswith("--", i):
            while i < n and text[i] != "\n":
                i += 1
        else:
            out.append(text[i])
            i += 1
    return "".join(out)


def forbidden_hits():
    hits = []
    files = glob.glob(os.path.join(LEAN, "Clikit", "**", "*.lean"), recursive=True) + [os.path.join(LEAN, "Main.lean")]
    for p in sorted(files):
        if p.endswith("AuditCmd.lean"):
            continue
        with open(p, encoding="utf-8") as f:
            body = strip_comments(f.read())
        for k, line in enumerate(body.splitlines(), 1):
            if FORBIDDEN.search(line):
                hits.append("%s:%d: %s" % (os.path.relpath(p, ROOT), k, line.strip()[:100]))
    return hits, len(files)


class Driver(object):
    def ask(self, requests, timeout=1800):
        if not requests:
            return []
        if not os.path.exists(DRIVER):
            raise Infra("model driver is not built: " + DRIVER)
        data = "\n".join(json.dumps(r, ensure_ascii=False) for r in requests) + "\n"
        try:
            p = subprocess.run([DRIVER], input=data.encode("utf-8"), stdout=subprocess.PIPE,
                               stderr=subprocess.PIPE, timeout=timeout)
        except subprocess.TimeoutExpired:
            raise Infra("model driver timed out")
        lines = p.stdout.decode("utf-8").split("\n")
        if lines and lines[-1] == "":
            lines.pop()
        if p.returncode != 0 or len(lines) != len(requests):
            raise Infra("model driver: rc=%s, %d answers for %d requests; stderr=%s"
                        % (p.returncode, len(lines), len(requests), p.stderr.decode("utf-8", "replace")[-500:]))
        out = []
        for rq, l in zip(requests, lines):
            j = json.loads(l)
            if isinstance(j, dict) and "bad" in j:
                raise Infra("model driver rejected a request: %s  (request %s)" % (j["bad"], json.dumps(rq)[:300]))
            out.append(j)
        return out


# --------------------------------------------------------------------------- findings
def load_findings(prop_id):
    with open(os.path.join(ROOT, "known_findings.json")) as f:
        data = json.load(f)
    return [x for x in data["findings"] if x["property"] == prop_id]


# --------------------------------------------------------------------------- workers
_MOD = None


def _init_worker(modname):
    global _MOD
    _MOD = importlib.import_module(modname)
    if hasattr(_MOD, "worker_init"):
        _MOD.worker_init()


def _eval_chunk(chunk):
    out = []
    for case in chunk:
        try:
            obs = _MOD.run_impl(case)
            try:
                verdict = _MOD.oracle(case, obs)
            except Exception:
                verdict = "oracle crashed: " + traceback.format_exc()[-1500:]
            out.append((obs, verdict))
        except BaseException:  # harness bug or budget exhaustion in the impl runner
            out.append(({"harness_error": traceback.format_exc()[-1500:]}, None))
    return out


def eval_cases(mod, cases, pool):
    if not cases:
        return []
    if pool is None:
        return _eval_chunk(cases)
    n = max(1, min(500, len(cases) // (WORKERS * 4) or 1))
    chunks = [cases[i:i + n] for i in range(0, len(cases), n)]
    res = []
    for r in pool.imap(_eval_chunk, chunks):
        res.extend(r)
    return res


def canon(x):
    return json.dumps(x, sort_keys=True, ensure_ascii=False)


def exhaustive_only(mod):
    """a generator that enumerates a finite table completely and takes no randomness gains nothing from more rounds"""
    return bool(getattr(mod, "NO_EXTRA_ROUNDS", False))


def changed_sources():
    """files under src/clikit whose content differs from the one recorded when the checks were last validated
    on the unchanged tree (source_fingerprints.json, written by tools/gen_fingerprints.py).  A change is NOT an
    alarm: it only makes the run explore more (further rounds of generated cases), see Check.step_corr."""
    import hashlib
    fp = os.path.join(ROOT, "source_fingerprints.json")
    if not os.path.exists(fp):
        return []
    with open(fp) as f:
        want = json.load(f)["files"]
    base = os.path.join(REPO, "src", "clikit")
    seen, changed = set(), []
    for dp, _dn, fns in os.walk(base):
        for fn in fns:
            if not fn.endswith(".py"):
                continue
            path = os.path.join(dp, fn)
            rel = os.path.relpath(path, base)
            seen.add(rel)
            with open(path, "rb") as f:
                h = hashlib.sha256(f.read()).hexdigest()
            if want.get(rel) != h:
                changed.append(rel)
    changed.extend(sorted(set(want) - seen))
    return sorted(changed)


# --------------------------------------------------------------------------- pipeline
class Check(object):
    def __init__(self, modname, tier, seed):
        self.mod = importlib.import_module(modname)
        self.modname = modname
        self.tier = tier
        self.seed = seed
        self.id = self.mod.ID
        self.t0 = time.time()
        self.broken = []          # names of theorems / correspondences that no longer check
        self.failing = []         # (case, obs, verdict) not covered by a known finding
        self.known_seen = {}      # finding id -> count
        self.disagreements = []   # (case, impl_obs, model_obs)
        self.notes = []
        self.cov = {}

    # ---- steps
    def step_gen(self):
        ok, text = gen_lean()
        self.cov["gen"] = text[:2000]
        if not ok:
            self.broken.append("tie-A translator: " + text)
            return ok
        # Parts of the generated Lean files that could not be read from the current source were filled in from
        # tools/gen_frozen (the definitions generated from the tree the checks were validated on).  That concerns this
        # property only if its theorems or model import such a part; then the theorems are checked against the frozen
        # definitions and the tie to the current code is carried by the correspondence run (the second tie of the
        # method), which explores more because the source differs (see step_corr).
        try:
            summary = json.loads(text[text.index("GEN ") + 4:].splitlines()[0])
        except ValueError:
            summary = {}
        broken_parts = summary.get("broken_parts") or {}
        mine = sorted(set(broken_parts) & gen_deps(self.mod.LEAN_MODULES)) if broken_parts else []
        self.cov["tie_a_frozen_parts"] = {f: broken_parts[f][:300] for f in mine}
        self.cov["tie_a_frozen_parts_elsewhere"] = sorted(set(broken_parts) - set(mine))
        for f in mine:
            self.notes.append("tie A: Gen/%s could not be regenerated from the current source (%s); frozen definitions "
                              "used, the correspondence carries the tie" % (f, broken_parts[f][:200]))
        return ok

    def step_prove(self):
        mods = list(self.mod.LEAN_MODULES)
        ok, out = lake_build(mods + ["driver"])
        self.cov["lake_build_ok"] = ok
        if not ok:
            errs = lean_errors(out)
            self.cov["lake_errors"] = errs
            # which targets fail?  build them one by one to name them
            for m in mods:
                ok1, out1 = lake_build([m])
                if not ok1:
                    names = sorted(set(re.findall(r"(Clikit/[\w/]+\.lean:\d+:\d+)", out1)))[:8]
                    self.broken.append("lean module %s does not check (%s)" % (m, ", ".join(names) or "build error"))
            okd, outd = lake_build(["driver"])
            self.driver_ok = okd
            if not okd and not self.broken:
                self.broken.append("model driver does not build")
            return False
        self.driver_ok = True
        return True

    def step_audit(self):
        obligations, discharged, details = 0, 0, []
        for m in self.mod.LEAN_MODULES:
            thms, out = audit(m)
            if thms is None:
                self.broken.append("audit of %s failed" % m)
                continue
            for t in thms:
                obligations += 1
                bad = [a for a in t["axioms"] if a not in ALLOWED_AXIOMS]
                if bad:
                    self.broken.append("theorem %s depends on axioms %s" % (t["theorem"], bad))
                else:
                    discharged += 1
                details.append(t)
        hits, nfiles = forbidden_hits()
        if hits:
            self.broken.append("forbidden constructs in Lean sources: " + "; ".join(hits[:5]))
        expected = getattr(self.mod, "REQUIRED_THEOREMS", [])
        have = set(t["theorem"] for t in details)
        for name in expected:
            if name not in have:
                self.broken.append("required theorem %s is missing from the property module" % name)
        self.cov["obligations"] = obligations
        self.cov["discharged"] = discharged if not hits else 0
        self.cov["theorems"] = [t["theorem"] for t in details]
        self.cov["axioms_used"] = sorted(set(a for t in details for a in t["axioms"]))
        self.cov["lean_files_scanned"] = nfiles

    def step_leanchecker(self):
        mods = list(self.mod.LEAN_MODULES)
        with LakeLock():
            rc, out = run(["lake", "env", "leanchecker"] + mods, cwd=LEAN, timeout=3000)
        self.cov["leanchecker"] = "ok" if rc == 0 else out[-500:]
        if rc != 0:
            self.broken.append("leanchecker rejects " + " ".join(mods))

    def corpus_cases(self):
        out = []
        for p in sorted(glob.glob(os.path.join(ROOT, "corpus", self.id, "*.json"))):
            with open(p) as f:
                j = json.load(f)
            out.append(j["case"] if isinstance(j, dict) and "case" in j else j)
        return out

    def classify_failure(self, case, obs, verdict):
        kc = getattr(self.mod, "known_class", None)
        fid = kc(case, obs, verdict) if kc else None
        known = set(x["id"] for x in load_findings(self.id) if x["status"] == "known")
        if fid is not None and fid in known:
            self.known_seen[fid] = self.known_seen.get(fid, 0) + 1
            return True
        self.failing.append((case, obs, verdict))
        return False

    def step_corr(self, pool):
        mod = self.mod
        rng = random.Random(self.seed)
        drv = Driver()
        evaluations = 0
        distinct = set()
        buckets = {}
        samples = []
        exhaustive = bool(getattr(mod, "exhaustive", lambda t: False)(self.tier))
        deadline = self.t0 + getattr(mod, "BUDGET_S", {"quick": 75, "thorough": 780})[self.tier]
        batch = []
        truncated = False

        def flush(batch):
            nonlocal evaluations
            res = eval_cases(mod, batch, pool)
            reqs, spans = [], []
            use_model = self.driver_ok and hasattr(mod, "model_requests")
            if use_model:
                for c in batch:
                    r = mod.model_requests(c)
                    spans.append((len(reqs), len(r)))
                    reqs.extend(r)
                answers = drv.ask(reqs)
            for k, (case, (obs, verdict)) in enumerate(zip(batch, res)):
                evaluations += 1
                if isinstance(obs, dict) and "harness_error" in obs:
                    raise Infra("harness error on case %s:\n%s" % (canon(case)[:500], obs["harness_error"]))
                if verdict is not None:
                    self.classify_failure(case, obs, verdict)
                if use_model:
                    a, n = spans[k]
                    mobs = mod.model_obs(case, answers[a:a + n])
                    iobs = mod.impl_view(case, obs) if hasattr(mod, "impl_view") else obs
                    if canon(mobs) != canon(iobs):
                        if len(self.disagreements) < 50:
                            self.disagreements.append((case, iobs, mobs))
                        else:
                            self.cov["more_disagreements"] = True
                key = mod.nontrivial_key(case, obs)
                if key is not None:
                    distinct.add(key if isinstance(key, (str, int, tuple)) else canon(key))
                b = mod.bucket(case, obs)
                buckets[b] = buckets.get(b, 0) + 1
                if len(samples) < 3 or (len(samples) < 6 and rng.random() < 0.001):
                    samples.append({"case": case, "impl": obs})

        corpus = self.corpus_cases()
        self.cov["corpus_cases"] = len(corpus)
        stream = mod.generate(self.tier, rng)
        for case in corpus:
            batch.append(case)
        for case in stream:
            batch.append(case)
            if len(batch) >= getattr(mod, "BATCH", 4000):
                flush(batch)
                batch = []
                if time.time() > deadline:
                    truncated = True
                    break
                # many model/implementation disagreements do not end the run: the oracle keeps judging the rest of
                # the stream (a failing input may lie in a later family of cases); only failing inputs end it early
                if len(self.failing) > 20:
                    break
        if batch:
            flush(batch)
        if truncated:
            exhaustive = False
            self.notes.append("case stream cut at the time budget")
        # The source differs from the tree the checks were validated on: explore further before answering
        # (other seeds, and the deeper generator of the thorough tier for one budget), unless something was found.
        changed = changed_sources()
        self.cov["source_changed_files"] = changed
        rounds = 0
        if changed and not exhaustive_only(mod):
            budget = getattr(mod, "BUDGET_S", {"quick": 75, "thorough": 780})["quick"]
            plan = [(self.tier, self.seed + 7919), ("thorough", self.seed + 2 * 7919)] if self.tier == "quick" else \
                   [(self.tier, self.seed + 7919)]
            for tier2, seed2 in plan:
                if self.failing or self.disagreements:
                    break
                rounds += 1
                end = time.time() + budget
                batch = []
                for case in mod.generate(tier2, random.Random(seed2)):
                    batch.append(case)
                    if len(batch) >= getattr(mod, "BATCH", 4000):
                        flush(batch)
                        batch = []
                        if time.time() > end or self.failing or self.disagreements:
                            break
                if batch:
                    flush(batch)
        self.cov["extra_rounds_after_source_change"] = rounds
        self.cov.update({
            "evaluations": evaluations,
            "distinct_nontrivial": len(distinct),
            "rule": mod.RULE,
            "samples": samples,
            "distribution": dict(sorted(buckets.items())),
            "exhaustive": exhaustive,
            "model_compared": bool(self.driver_ok and hasattr(mod, "model_requests")),
        })

    def step_witnesses(self):
        """replay the witness of every listed known finding on the implementation"""
        mod = self.mod
        wit = getattr(mod, "witnesses", None)
        findings = [x for x in load_findings(self.id) if x["status"] == "known"]
        if not findings:
            return
        cases = wit() if wit else {}
        for f in findings:
            case = cases.get(f["id"])
            if case is None:
                self.notes.append("no witness replay for finding %s" % f["id"])
                continue
            obs = mod.run_impl(case)
            verdict = mod.oracle(case, obs)
            if verdict is not None:
                self.known_seen[f["id"]] = self.known_seen.get(f["id"], 0) + 1
            else:
                self.notes.append("finding %s no longer reproduces on its witness (stale entry?)" % f["id"])

    # ---- search after a break
    def minimise(self, case, still):
        shrink = getattr(self.mod, "shrink", None)
        if shrink is None:
            return case
        cur = case
        budget = 400
        progress = True
        while progress and budget > 0:
            progress = False
            for cand in shrink(cur):
                budget -= 1
                if budget <= 0:
                    break
                try:
                    if still(cand):
                        cur = cand
                        progress = True
                        break
                except Infra:
                    raise
                except Exception:
                    continue
        return cur

    def search_after_disagreement(self):
        mod = self.mod
        drv = Driver()

        def disagrees(c):
            obs = mod.run_impl(c)
            mobs = mod.model_obs(c, drv.ask(mod.model_requests(c)))
            iobs = mod.impl_view(c, obs) if hasattr(mod, "impl_view") else obs
            return canon(mobs) != canon(iobs)

        case, iobs, mobs = self.disagreements[0]
        small = self.minimise(case, disagrees)
        self.min_disagreement = small
        cands = [small] + list(getattr(mod, "neighbours", lambda c: [])(small))[:300]
        for c in cands:
            try:
                obs = mod.run_impl(c)
                v = mod.oracle(c, obs)
            except Exception:
                continue
            if v is not None:
                self.classify_failure(c, obs, v)
        return small

    # ---- reporting
    def write_replay(self, kind, payload):
        os.makedirs(os.path.join(ROOT, "replays"), exist_ok=True)
        h = hashlib.sha1(canon(payload).encode("utf-8")).hexdigest()[:10]
        path = os.path.join(ROOT, "replays", "%s-%s.json" % (self.id, h))
        doc = {"property": self.id, "kind": kind, "tier": self.tier, "seed": self.seed,
               "replay_cmd": "./vcheck %s --replay replays/%s" % (self.id, os.path.basename(path))}
        doc.update(payload)
        with open(path, "w") as f:
            json.dump(doc, f, indent=1, ensure_ascii=False, sort_keys=True)
        return os.path.relpath(path, ROOT)

    def write_evidence(self, violations):
        mod = self.mod
        cov = dict(self.cov)
        cov.setdefault("evaluations", 0)
        cov.setdefault("distinct_nontrivial", 0)
        cov.setdefault("rule", mod.RULE)
        cov.setdefault("samples", [])
        cov.setdefault("obligations", 0)
        cov.setdefault("discharged", 0)
        cov["checker_cmd"] = ("cd lean && lake build %s driver && lake env lean .lake/audit/<module>.lean  "
                              "(#audit_module: Lean.collectAxioms per theorem)%s"
                              % (" ".join(mod.LEAN_MODULES),
                                 " && lake env leanchecker " + " ".join(mod.LEAN_MODULES) if self.tier == "thorough" else ""))
        cov["trusted_base"] = list(mod.TRUSTED_BASE)
        if not cov["obligations"]:
            # the property module did not build: no obligation was discharged in this run
            cov["obligations_note"] = "0 obligations discharged (the Lean module does not check)"
            del cov["obligations"], cov["discharged"]
        cov["disagreements_checked"] = len(self.disagreements)
        cov["known_findings_seen"] = self.known_seen
        cov["broken"] = self.broken
        cov["notes"] = self.notes
        ev = {
            "property_id": self.id, "tier": self.tier, "seed": self.seed, "level": "proof",
            "coverage": cov, "assumptions": list(mod.ASSUMPTIONS),
            "wall_s": round(time.time() - self.t0, 2), "violations": violations,
        }
        # a run against another checkout (mutation trial) must not overwrite the evidence of the real tree
        evdir = os.path.join(ROOT, "replays", "trial-evidence") if os.environ.get("CLIKIT_REPO") else os.path.join(ROOT, "evidence")
        os.makedirs(evdir, exist_ok=True)
        with open(os.path.join(evdir, self.id + ".json"), "w") as f:
            json.dump(ev, f, indent=1, ensure_ascii=False, sort_keys=True, default=str)

    def run(self):
        mod = self.mod
        self.driver_ok = False
        pool = None
        try:
            self.step_gen()
            built = self.step_prove()
            if built:
                self.step_audit()
                if self.tier == "thorough" and not self.broken:
                    self.step_leanchecker()
            ctx = multiprocessing.get_context("fork")
            if WORKERS > 1 and getattr(mod, "PARALLEL", True):
                pool = ctx.Pool(WORKERS, initializer=_init_worker, initargs=(self.modname,))
            else:
                _init_worker(self.modname)
            self.step_corr(pool)
            self.step_witnesses()
            if self.disagreements:
                self.broken.append("correspondence %s: model and implementation differ on %d case(s)"
                                   % (self.id, len(self.disagreements)))
                if not self.failing:
                    self.search_after_disagreement()
        finally:
            if pool is not None:
                pool.terminate()
        for fid, n in sorted(self.known_seen.items()):
            what = [x["what"] for x in load_findings(self.id) if x["id"] == fid][0]
            log("KNOWN-FINDING: property=%s %s: %s (seen %d time(s) in this run)" % (self.id, fid, what, n))
        for n in self.notes:
            log("NOTE: " + n)
        violations = 0
        if self.failing:
            violations = len(self.failing)
            case, obs, verdict = self.failing[0]
            small = case
            if hasattr(mod, "shrink"):
                def still(c):
                    o = mod.run_impl(c)
                    v = mod.oracle(c, o)
                    return v is not None and (getattr(mod, "known_class", lambda *a: None)(c, o, v) is None)
                try:
                    small = self.minimise(case, still)
                    obs = mod.run_impl(small)
                    verdict = mod.oracle(small, obs) or verdict
                except Exception:
                    small = case
            path = self.write_replay("failing-input", {
                "case": small, "observed": obs, "required": verdict, "broken": self.broken,
                "other_failing_cases": [c for c, _, _ in self.failing[1:6]]})
            self.write_evidence(violations)
            log("VIOLATION property=%s replay=%s" % (self.id, path))
            return 1
        if self.broken:
            payload = {"broken": self.broken, "required": "the listed proof obligations / correspondences must check"}
            if self.disagreements:
                c, i, m = self.disagreements[0]
                payload["case"] = getattr(self, "min_disagreement", c)
                payload["first_disagreement"] = {"case": c, "implementation": i, "model": m}
            path = self.write_replay("unverified", payload)
            self.write_evidence(1)
            for b in self.broken:
                log("BROKEN: " + b)
            log("VIOLATION property=%s replay=%s no-failing-input-found" % (self.id, path))
            return 1
        self.write_evidence(0)
        log("OK property=%s tier=%s seed=%d obligations=%d/%d evaluations=%d distinct_nontrivial=%d wall=%.1fs"
            % (self.id, self.tier, self.seed, self.cov.get("discharged", 0), self.cov.get("obligations", 0),
               self.cov.get("evaluations", 0), self.cov.get("distinct_nontrivial", 0), time.time() - self.t0))
        return 0


def replay(modname, path):
    mod = importlib.import_module(modname)
    _init_worker(modname)
    with open(path) as f:
        doc = json.load(f)
    case = doc.get("case")
    if case is None:
        log("replay file names broken obligations only: %s" % doc.get("broken"))
        return 1
    obs = mod.run_impl(case)
    verdict = mod.oracle(case, obs)
    log("case: " + canon(case)[:2000])
    log("implementation: " + canon(obs)[:2000])
    if os.path.exists(DRIVER) and hasattr(mod, "model_requests"):
        try:
            mobs = mod.model_obs(case, Driver().ask(mod.model_requests(case)))
            log("model: " + canon(mobs)[:2000])
        except Infra as e:
            log("model: unavailable (%s)" % e)
    if verdict is not None:
        log("oracle: FAILS - " + verdict)
        log("VIOLATION property=%s replay=%s" % (mod.ID, path))
        return 1
    log("oracle: holds on this case")
    return 0


def main(argv):
    import argparse
    ap = argparse.ArgumentParser()
    ap.add_argument("prop")
    ap.add_argument("--tier", default=os.environ.get("VERIF_TIER", "quick"), choices=["quick", "thorough"])
    ap.add_argument("--replay")
    a = ap.parse_args(argv)
    pid = a.prop.upper()
    modname = "harness.props." + pid.lower()
    seed = int(os.environ.get("VERIF_SEED", "0") or 0)
    try:
        if a.replay:
            return replay(modname, a.replay)
        return Check(modname, a.tier, seed).run()
    except Infra as e:
        log("INFRA-FAILURE property=%s: %s" % (pid, e))
        return 2
    except Exception:
        log("INFRA-FAILURE property=%s: %s" % (pid, traceback.format_exc()))
        return 2
