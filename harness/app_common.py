"""
Shared by C03 / C04 / C09 / C13 / C17: command-tree specs, building real applications from
them, extracting the tree the Lean resolver model works on from the REAL objects.
"""
from harness import parser_common as pc

TOP = ["server", "list", "pkg", "run"]
SUB = ["add", "remove", "show", "ls"]
SUBSUB = ["now", "later", "all"]
ALIASES = {"server": ["srv", "s"], "list": ["ls"], "pkg": ["p"], "run": ["r"], "add": ["a", "plus"],
           "remove": ["rm"], "show": ["sh", "ls"], "ls": ["l"], "now": ["n"], "later": ["lt"], "all": ["a"]}
OPTS_BY_DEPTH = [[("verbose2", "w"), ("force", "f")], [("bar", "b"), ("num", "n")], [("quux", "q"), ("opt", "o")]]


def gen_cmd(rng, name, depth, max_depth, fanout, opts_by_depth=None):
    c = {"name": name, "aliases": [], "default": False, "anonymous": False, "hidden": rng.random() < 0.15,
         "enabled": rng.random() > 0.12, "lenient": rng.random() < 0.1, "args": [], "opts": [], "subs": []}
    if rng.random() < 0.6:
        c["aliases"] = rng.sample(ALIASES.get(name, []), rng.randint(0, len(ALIASES.get(name, []))))
    # options: names unique along every path (one pool per depth)
    for (ln, sh) in (opts_by_depth or OPTS_BY_DEPTH)[depth]:
        if rng.random() < 0.5:
            mode = rng.choice(["flag", "flag", "required", "optional"])
            ty = rng.choice(pc.TYPES) if mode != "flag" else "string"
            o = {"long": ln, "short": sh if rng.random() < 0.7 else None, "mode": mode, "type": ty,
                 "nullable": rng.random() < 0.2}
            if mode != "flag":
                o["default"] = pc.enc(pc.default_for(rng, ty, False))
            c["opts"].append(o)
    n_subs = 0
    if depth + 1 < max_depth:
        n_subs = rng.randint(0, fanout)
    if n_subs:
        pool = SUB if depth == 0 else SUBSUB
        for nm in rng.sample(pool, min(n_subs, len(pool))):
            s = gen_cmd(rng, nm, depth + 1, max_depth, fanout, opts_by_depth)
            r = rng.random()
            if r < 0.25:
                s["default"] = True
            elif r < 0.4:
                s["default"], s["anonymous"] = True, True
            elif r < 0.5:
                s["unmarked"] = True
            c["subs"].append(s)
        # an option of the command named like one of its sub-commands (`--add` next to sub-command `add`):
        # options never name commands, wherever they stand
        for s in c["subs"]:
            if len(s["name"]) >= 2 and rng.random() < 0.3 and not any(o["long"] == s["name"] for o in c["opts"]):
                c["opts"].append({"long": s["name"], "short": None, "mode": "flag", "type": "string", "nullable": False,
                                  "named_like_sub": True})
    else:
        # arguments only on leaves (a parent with optional arguments cannot get children with required ones)
        n_args = rng.randint(0, 2)
        n_req = rng.randint(0, n_args)
        for i in range(n_args):
            ty = rng.choice(["string", "string", "integer"])
            mode = "required" if i < n_req else "optional"
            if i == n_args - 1 and rng.random() < 0.25:
                mode = "multi_required" if i < n_req else "multi"
            a = {"name": pc.ARGNAMES[i], "mode": mode, "type": ty, "nullable": False}
            if mode == "optional":
                a["default"] = pc.enc(pc.default_for(rng, ty, False))
            c["args"].append(a)
    return c


def gen_tree(rng, max_depth=3, fanout=3, opts_by_depth=None):
    """a command tree spec; sibling NAMES are unique, aliases may collide with sibling names/aliases"""
    n = rng.randint(1, min(fanout + 1, len(TOP)))
    cmds = []
    used = set()
    for nm in rng.sample(TOP, n):
        c = gen_cmd(rng, nm, 0, max_depth, fanout, opts_by_depth)
        # the application rejects a top-level name or alias that is already taken
        c["aliases"] = [a for a in c["aliases"] if a not in used and a not in TOP]
        used.add(nm)
        used.update(c["aliases"])
        r = rng.random()
        if r < 0.2:
            c["default"] = True
        elif r < 0.3:
            c["default"], c["anonymous"] = True, True
        elif r < 0.4:
            c["unmarked"] = True
        cmds.append(c)
    return {"commands": cmds, "global_flag": rng.random() < 0.8}


def _alias_ops(cfg, spec, path, shared):
    """aliases configured through the other public setters, with caller-owned list objects (`spec["alias_ops"]`):
      ["add", a]  ["adds", [..]]  ["set", [..]]      add_alias / add_aliases / set_aliases with a fresh list
      ["set_list", key, value]  ["adds_list", key, value]   set_aliases / add_aliases with THE list object `key` the
                                  caller keeps (created with `value` when first used) - the same object may be handed
                                  to several commands
      ["append_list", key, a]   the caller appends to its own list `key` afterwards
      ["set_from", other_path, value]   set_aliases(other.aliases) - the list another command's config hands out
    What a command is configured with is what the calls said at the time they were made (value semantics)."""
    lists, cfgs = shared.setdefault("lists", {}), shared.setdefault("cfgs", {})
    for op in spec["alias_ops"]:
        k = op[0]
        if k == "add":
            cfg.add_alias(op[1])
        elif k == "adds":
            cfg.add_aliases(list(op[1]))
        elif k == "set":
            cfg.set_aliases(list(op[1]))
        elif k == "set_list":
            cfg.set_aliases(lists.setdefault(op[1], list(op[2])))
        elif k == "adds_list":
            cfg.add_aliases(lists.setdefault(op[1], list(op[2])))
        elif k == "append_list":
            if op[1] in lists:
                lists[op[1]].append(op[2])
        elif k == "set_from":
            other = cfgs.get(tuple(op[1]))
            cfg.set_aliases(other.aliases if other is not None else list(op[2]))
        else:
            raise ValueError("alias op %r" % (op,))
    cfgs[tuple(path) + (spec["name"],)] = cfg


def _configure(cfg, spec, handler_for=None, path=(), shared=None):
    from clikit.api.args.format.argument import Argument  # noqa
    if shared is None:
        shared = {}
    if "alias_ops" in spec:
        _alias_ops(cfg, spec, path, shared)
    else:
        for a in spec["aliases"]:
            cfg.add_alias(a)
    if spec["anonymous"]:
        cfg.anonymous()
    elif spec["default"]:
        cfg.default()
    elif spec.get("unmarked"):
        # marked as default and un-marked again (`default(False)`): an ordinary command
        cfg.default()
        cfg.default(False)
    if spec["hidden"]:
        cfg.hide()
    if not spec["enabled"]:
        cfg.disable()
    if spec["lenient"]:
        cfg.enable_lenient_args_parsing()
    if spec.get("description"):
        cfg.set_description(spec["description"])
    for o in spec["opts"]:
        kw = {}
        if o["mode"] != "flag":
            kw["default"] = pc.dec(o.get("default"))
        cfg.add_option(o["long"], o.get("short"), pc.opt_flags(o["mode"], o["type"], o["nullable"]),
                       o.get("description"), **kw)
    for a in spec["args"]:
        cfg.add_argument(a["name"], pc.arg_flags(a["mode"], a["type"], a["nullable"]), a.get("description"),
                         pc.dec(a.get("default")))
    if handler_for is not None:
        cfg.set_handler(handler_for(tuple(path) + (spec["name"],)))
    if spec.get("subs_via") == "bulk":
        # the sub-commands are configured on their own and attached with ONE call of the bulk adder; the list handed
        # over stays the caller's: what is appended to it afterwards is not a sub-command
        from clikit.api.config.command_config import CommandConfig
        mine = []
        for s in spec["subs"]:
            sub = CommandConfig(s["name"])
            _configure(sub, s, handler_for, tuple(path) + (spec["name"],), shared)
            mine.append(sub)
        cfg.add_sub_command_configs(mine)
        mine.append(CommandConfig("decoy"))
        return
    for s in spec["subs"]:
        _configure(cfg.create_sub_command(s["name"]), s, handler_for, tuple(path) + (spec["name"],), shared)


def build_app(tree, config=None, handler=None, handler_for=None, catch=False):
    """a ConsoleApplication on a bare ApplicationConfig (default resolver, no default listeners)"""
    from clikit.api.config.application_config import ApplicationConfig
    from clikit.console_application import ConsoleApplication
    from clikit.formatter.default_style_set import DefaultStyleSet
    from clikit.resolver.default_resolver import DefaultResolver
    if config is None:
        config = ApplicationConfig("app", "1.2.3")
        config.set_command_resolver(DefaultResolver())
        config.set_style_set(DefaultStyleSet())
    config.set_catch_exceptions(catch)
    config.set_terminate_after_run(False)
    if handler is not None:
        config.set_handler(handler)
    if tree.get("global_flag"):
        config.add_option("gflag", "g")
    shared = {}
    if tree.get("commands_via") == "bulk":
        from clikit.api.config.command_config import CommandConfig
        mine = []
        for c in tree["commands"]:
            cc = CommandConfig(c["name"])
            _configure(cc, c, handler_for, (), shared)
            mine.append(cc)
        config.add_command_configs(mine)
        mine.append(CommandConfig("decoy"))
        return ConsoleApplication(config)
    for c in tree["commands"]:
        _configure(config.create_command(c["name"]), c, handler_for, (), shared)
    return ConsoleApplication(config)


def extract(cmd):
    """the tree node the Lean model works on, read from a REAL Command object"""
    return {"name": cmd.name, "aliases": list(cmd.aliases), "default": bool(cmd.config.is_default()),
            "anonymous": bool(cmd.config.is_anonymous()), "lenient": bool(cmd.config.is_lenient_args_parsing_enabled()),
            "fmt": pc.flatten(cmd.args_format), "subs": [extract(s) for s in cmd.sub_commands]}


def extract_app(app):
    return [extract(c) for c in app.commands]


def all_texts(node_list, tokens):
    """every text int()/float() may be applied to: suffixes of tokens and string defaults of any format"""
    out = set()

    def walk(n):
        out.update(pc.texts_of(n["fmt"], tokens))
        for s in n["subs"]:
            walk(s)
    for n in node_list:
        walk(n)
    if not node_list:
        out.update(pc.texts_of({"args": [], "opts": []}, tokens))
    return out


def path_of(command):
    p = []
    c = command
    while c is not None:
        p.append(c.name)
        c = c.parent_command
    return list(reversed(p))


def enabled(spec_cmds):
    return [c for c in spec_cmds if c["enabled"]]
