"""
C04 - a run always ends in a valid exit status and never leaks a handler failure.

Cases: the full table (handler outcome x pre-handle listener behaviours x verbosity/ANSI x how the
line resolves) run through the REAL ConsoleApplication.run with exception catching enabled; the
Lean model gets the abstraction the code itself looks at (truthiness and int() of the result,
exception kind).  Observables: status or escaped exception, was a report printed, handler calls.
"""
import itertools
import math

from harness import c04_handlers as H

ID = "C04"
DESIGN_REF = "6/C04"
LEAN_MODULES = ["Clikit.Props.C04"]
REQUIRED_THEOREMS = ["Clikit.Props.C04." + n for n in (
    "clampStatus_range", "status_range", "handler_once", "run_contained", "exception_reported", "status_zero_iff",
    "escape_only_by_render", "attempt_status_le", "run_escapes_iff", "run_contained_exact", "exception_reported_exact",
    "attempt_calls", "conclude_calls",
    # end to end, on the composed model of the default application (Model/App.lean, tied by c09.app_run)
    "run_shape", "app_runs_selected_handler", "app_at_most_one_handler", "app_status_range")]
TECHNIQUE = ("Lean 4 theorems on a model of ConsoleApplication.run/Command.handle whose status normalisation is regenerated "
             "from Command.handle on every run + exhaustive outcome x listener x verbosity table against the real run()")
LEVEL_TEXT = ("Proved in Lean for ALL handler results, exceptions and pre-handle listener lists: the status is 0 iff the value "
              "reaching the normalisation is false-y, otherwise int(result) clamped into 1..255 (the clamp expression is "
              "translated from Command.handle on every run, so `% 256` or a changed bound breaks the proof); if rendering the "
              "report does not fail nothing escapes run(), every Exception ends in status 1 with a report, KeyboardInterrupt "
              "in status 1; the handler is invoked at most once and exactly once iff resolution succeeded and no pre-handle "
              "listener handled the event or failed; a failing renderer is the ONLY way to escape (C20 characterises it), and "
              "nothing escapes EXACTLY when the report of the one exception reaching the except clause can be rendered "
              "(run_escapes_iff; run_contained_exact / exception_reported_exact need the renderer to work on that exception only). "
              "The model is tied to the code by the complete outcome x listener x verbosity x resolution table through the "
              "real ConsoleApplication.run. END TO END: on the composed model App.runApp of ConsoleApplication.run for the default "
              "configuration (create_io, the help and version listeners, DefaultResolver + args parser, HelpTextHandler, then this "
              "run model; Model/App.lean) it is proved for ALL command trees, token lists, conversion tables and handler "
              "behaviours that, without a help switch and a version request, the handler of the command the resolver selects is "
              "called exactly once with exactly the parsed args, no other handler runs and the status is the run model's status "
              "of its outcome (app_runs_selected_handler); at most one handler runs in any run, the one resolve_command "
              "selected (app_at_most_one_handler); every status is <= 255, run() does not return exactly when an exception "
              "escaped, which only a failing report renderer causes (app_status_range, run_shape). The composed model is compared "
              "with the real run of the default application on every generated case of C09 (entry c09.app_run).")
LEVEL_NOTE = ("Trusted: Lean kernel + standard axioms; the hand-written run model; tools/genparts/c04.py; harness (abstraction "
              "of Python values to truthiness/int()). Not modelled: BaseExceptions other than KeyboardInterrupt (SystemExit "
              "raised by a handler propagates by design), OS signal delivery, the trace renderer itself (C20).")
RULE = ("product of 25 handler outcomes (return values None/False/0/-3/300/True/'12'/'abc'/0.5/nan/''/[]/255/256/1 and raised "
        "exceptions: library and foreign types, KeyboardInterrupt, code attribute, chained cause, no-source code, messages with "
        "balanced/opening/closing/mismatched tags, multi-line, non-ASCII) x 9 listener configurations x 4 verbosities x "
        "ANSI/plain x 4 resolutions; quick = a deterministic slice + random sample; non-trivial = the outcome is not "
        "'return None'; distinct = the case")
TRUSTED_BASE = [
    "Lean 4.33 kernel; axioms within propext, Classical.choice, Quot.sound (audited per theorem on every run)",
    "tools/genparts/c04.py: translation of the last statement of Command.handle (the clamp) and check of the guard before it",
    "lean/Clikit/Model/Run.lean: hand-written model of run/handle/_do_handle (modelled, not verified; tied by the correspondence)",
    "harness/props/c04.py, harness/c04_handlers.py: outcome table, listeners, abstraction of Python values",
    "lean/Clikit/Model/App.lean: hand-written composition of the switches, resolver, parser, help-target and run models in the "
    "order of ConsoleApplication.run / DefaultApplicationConfig (modelled, not verified; tied by the differential runs of "
    "harness/props/c09.py through c09.app_run: status, selected command and args, handler invocations, help/version kind and "
    "target, I/O configuration)",
]
ASSUMPTIONS = [
    "rendering the error report does not fail (C20's subject) - needed only for the exception that reaches the except clause "
    "(run_escapes_iff is an equivalence); not decidable inside the model (the renderer is a parameter) but checked on every "
    "case: the model runs with a renderer that never fails against the REAL renderer, so a failure shows up as an escaped "
    "exception = a model/implementation disagreement and an oracle violation",
    "KeyboardInterrupt needs no report; BaseExceptions other than KeyboardInterrupt are outside the quantifier",
    "the app_* theorems take case conditions on their own inputs only (no help switch, `resolve` selects (path, args), the "
    "version option is not set, the path is not [help]); in the composed model rendering a help page or the version line "
    "succeeds (C13 help_total) and create_io does not raise",
]
BATCH = 1000
PARALLEL = True

RETS = [{"kind": "none"}, {"kind": "bool", "v": False}, {"kind": "int", "v": 0}, {"kind": "int", "v": -3},
        {"kind": "int", "v": 300}, {"kind": "bool", "v": True}, {"kind": "str", "v": "12"}, {"kind": "str", "v": "abc"},
        {"kind": "float", "v": "0.5"}, {"kind": "float", "v": "nan"}, {"kind": "str", "v": ""}, {"kind": "list", "v": []},
        {"kind": "int", "v": 255}, {"kind": "int", "v": 256}, {"kind": "int", "v": 1}]
RAISES = ([{"type": t} for t in ("RuntimeError", "KeyError", "Coded", "CodedText", "CodedNone", "CannotParse", "NoSuchOption",
                                 "KeyboardInterrupt")]
          + [{"type": "RuntimeError", "msg": m} for m in ("multiline", "nonascii", "surrogate", "balanced", "opening", "closing",
                                                          "mismatched", "anyclose", "lt", "empty")]
          + [{"type": "CannotParse", "msg": m} for m in ("closing", "mismatched", "balanced")]
          + [{"type": "RuntimeError", "scope": True}, {"type": "KeyError", "scope": True, "msg": "multiline"}]
          + [{"type": "ValueError", "cause": True}, {"type": "RuntimeError", "nosource": True},
             {"type": "RuntimeError", "msg": "mismatched", "nosource": True}])
OUTCOMES = [{"ret": r} for r in RETS] + [{"raise": r} for r in RAISES]
LISTENERS = [[], [{"kind": "pass"}], [{"kind": "handled", "code": {"kind": "int", "v": 0}, "stop": False}],
             [{"kind": "handled", "code": {"kind": "int", "v": 5}, "stop": True}],
             [{"kind": "handled", "code": {"kind": "str", "v": "7"}, "stop": False}, {"kind": "pass"}],
             [{"kind": "fail", "exc": {"type": "RuntimeError", "msg": "mismatched"}}],
             [{"kind": "stop"}, {"kind": "handled", "code": {"kind": "int", "v": 9}, "stop": False}],
             [{"kind": "pass"}, {"kind": "fail", "exc": {"type": "KeyboardInterrupt"}}],
             [{"kind": "handled", "code": {"kind": "none"}, "stop": False}]]
VERBOSITIES = [0, 1, 2, 4]
ENCODINGS = [["ascii", "ascii"], ["utf-8", "ascii"], ["ascii", "utf-8"], ["latin-1", "utf-8"], ["utf-8", "utf-8"],
             [None, None]]       # None: a text stream without an encoding of its own (io.StringIO)
LINES = [["cmd", "x"], ["nope"], ["cmd", "--unknown"], ["cmd", "x", "y", "z"]]


def generate(tier, rng):
    full = list(itertools.product(range(len(OUTCOMES)), range(len(LISTENERS)), VERBOSITIES, (False, True),
                                  range(len(LINES))))
    if tier == "quick":
        # every outcome x listener pair at least once, the rest sampled
        keep = [c for k, c in enumerate(full) if k % 11 == 0]
        keep += [(o, l, 0, False, 0) for o in range(len(OUTCOMES)) for l in range(len(LISTENERS))]
        keep += [(o, 0, 4, True, 0) for o in range(len(OUTCOMES))]
        full = keep
    for (o, l, v, ansi, ln) in full:
        yield {"outcome": OUTCOMES[o], "listeners": LISTENERS[l], "verbosity": v, "ansi": ansi, "tokens": LINES[ln]}
    # ---- the same table on the DEFAULT application configuration (its own pre-handle listener - the version
    # option - runs after the user's listeners of positive priority and must not undo what they decided)
    for o in range(len(OUTCOMES)):
        for l in range(len(LISTENERS)):
            yield {"outcome": OUTCOMES[o], "listeners": LISTENERS[l], "verbosity": 0, "ansi": False, "tokens": LINES[0],
                   "default_cfg": True}
    # ---- real text streams with an encoding of their own (UTF-8, ASCII, latin-1; the two streams of an I/O need not
    # agree): the report of every exception must still be printed and the status returned (repaired D36)
    for o, out in enumerate(OUTCOMES):
        if "raise" not in out:
            continue
        for enc in ENCODINGS:
            for v in ((0, 4) if tier == "quick" else VERBOSITIES):
                yield {"outcome": out, "listeners": [], "verbosity": v, "ansi": False, "tokens": LINES[0], "enc": enc}


def exhaustive(tier):
    return tier == "thorough"


def _app(case, io):
    from clikit.api.config.application_config import ApplicationConfig
    from clikit.api.event import PRE_HANDLE
    from clikit.api.args.format.argument import Argument
    from clikit.console_application import ConsoleApplication
    from clikit.formatter.default_style_set import DefaultStyleSet
    from clikit.resolver.default_resolver import DefaultResolver
    if case.get("default_cfg"):
        from clikit.config.default_application_config import DefaultApplicationConfig
        cfg = DefaultApplicationConfig("app", "1.0")
    else:
        cfg = ApplicationConfig("app", "1.0")
        cfg.set_command_resolver(DefaultResolver())
        cfg.set_style_set(DefaultStyleSet())
    cfg.set_catch_exceptions(True)
    cfg.set_terminate_after_run(False)
    cfg.set_io_factory(lambda app, args, i, o, e: io)
    c = cfg.create_command("cmd")
    c.add_argument("a", Argument.OPTIONAL)
    c.set_handler(H.Handler(case["outcome"]))
    prio = 10
    for l in case["listeners"]:
        cfg.add_event_listener(PRE_HANDLE, _listener(l, 10 - prio), prio)      # index = position in the case's list
        prio -= 1
    return ConsoleApplication(cfg)


LISTENER_CALLS = []


def _listener(l, index=None):
    def fn(event, name, dispatcher):
        LISTENER_CALLS.append(index)
        if l["kind"] == "handled":
            event.handled(True)
            event.set_status_code(H.value_of(l["code"]))
            if l["stop"]:
                event.stop_propagation()
        elif l["kind"] == "fail":
            H.raise_it(l["exc"])
        elif l["kind"] == "stop":
            event.stop_propagation()
    return fn


def run_impl(case):
    from clikit.args.argv_args import ArgvArgs
    from clikit.formatter import AnsiFormatter, PlainFormatter
    from clikit.io.buffered_io import BufferedIO
    fmt = AnsiFormatter(forced=True) if case["ansi"] else PlainFormatter()
    raw = None
    if case.get("enc"):
        import io as _io
        from clikit.api.io import IO, Input, Output
        from clikit.io.input_stream.string_input_stream import StringInputStream
        from clikit.io.output_stream.stream_output_stream import StreamOutputStream
        raw = [_io.BytesIO() if e else _io.StringIO() for e in case["enc"]]
        streams = [_io.TextIOWrapper(b, encoding=e) if e else b for b, e in zip(raw, case["enc"])]
        io = IO(Input(StringInputStream("")), Output(StreamOutputStream(streams[0]), fmt),
                Output(StreamOutputStream(streams[1]), fmt))
    else:
        io = BufferedIO(formatter=fmt)
    io.set_verbosity(case["verbosity"])
    del H.CALLS[:]
    del LISTENER_CALLS[:]
    app = _app(case, io)
    try:
        status = app.run(ArgvArgs(["prog"] + case["tokens"]))
        escaped = None
    except BaseException as e:  # noqa
        status, escaped = None, type(e).__name__
    if raw is not None:
        out = "".join(b.getvalue().decode(e) if e else b.getvalue() for b, e in zip(raw, case["enc"]))
    else:
        out = io.fetch_output() + io.fetch_error()
    return {"status": status if (status is None or isinstance(status, int)) else repr(status), "escaped": escaped,
            "reported": bool(out.strip()), "calls": len(H.CALLS), "call_args": [c["arguments"] for c in H.CALLS],
            "status_type": type(status).__name__, "listener_calls": list(LISTENER_CALLS),
            "shows_message": _shows_message(case, out)}


def _shows_message(case, out):
    """does the report show the text of the handler's exception (judged only where the stream can write it as it is:
    UTF-8 and encoding-less text streams, plain formatter, messages without markup)"""
    o = case["outcome"]
    if "raise" not in o or case["ansi"] or not case.get("enc") or any(e not in (None, "utf-8") for e in case["enc"]):
        return None
    kind = o["raise"].get("msg", "plain")
    if kind not in ("plain", "nonascii", "multiline") or o["raise"]["type"] in ("KeyboardInterrupt", "KeyError"):
        return None
    return all(line in out for line in H.make_message(kind).split("\n"))


# ---- abstraction for the model -------------------------------------------------------------------
def _exc_abs(spec, tag):
    return {"ki": spec["type"] == "KeyboardInterrupt", "clikit": spec["type"] in ("CannotParse", "NoSuchOption"), "tag": tag}


def _ret_abs(spec):
    v = H.value_of(spec)
    try:
        ti = int(v)
    except Exception:  # noqa  int("abc"), int(nan), int(None), int([])
        ti = {"ki": False, "clikit": False, "tag": 99}
    return {"falsy": not v, "toint": ti}


def _resolution(tokens):
    if tokens == ["cmd", "x"]:
        return None
    return {"ki": False, "clikit": True, "tag": 50}


def model_requests(case):
    ls = []
    for l in case["listeners"]:
        if l["kind"] == "handled":
            ls.append({"kind": "handled", "code": _ret_abs(l["code"]), "stop": l["stop"]})
        elif l["kind"] == "fail":
            ls.append({"kind": "fail", "exc": _exc_abs(l["exc"], 70)})
        else:
            ls.append({"kind": l["kind"]})
    o = case["outcome"]
    h = {"ret": _ret_abs(o["ret"])} if "ret" in o else {"raise": _exc_abs(o["raise"], 1)}
    rq = {"m": "c04.run", "debug": case["verbosity"] == 4, "listeners": ls, "handler": h, "render_ok": True}
    r = _resolution(case["tokens"])
    if r is not None:
        rq["resolve_error"] = r
    return [rq]


def model_obs(case, answers):
    a = answers[0]
    return {"status": a["status"], "escaped": a["escaped"] is not None, "reported": a["reported"], "calls": a["calls"]}


def impl_view(case, obs):
    return {"status": obs["status"], "escaped": obs["escaped"] is not None, "reported": obs["reported"],
            "calls": obs["calls"]}


# ---- the statement -------------------------------------------------------------------------------
def oracle(case, obs):
    if obs["escaped"] is not None:
        return "run() raised %s" % obs["escaped"]
    st = obs["status"]
    if not isinstance(st, int) or isinstance(st, bool) or not (0 <= st <= 255):
        return "run() returned %r (%s), not an integer status in 0..255" % (st, obs["status_type"])
    resolved = case["tokens"] == ["cmd", "x"]
    # which value / exception reaches the end of the run, by the statement
    handled = None
    failed = None
    for l in case["listeners"]:
        if l["kind"] == "fail":
            failed = l["exc"]
            break
        if l["kind"] == "handled":
            handled = l["code"]
            if l["stop"]:
                break
        if l["kind"] == "stop":
            break
    # which pre-handle listeners run: in priority order up to (and including) the first that stops propagation or fails;
    # marking the command handled does not stop the others
    if resolved and "listener_calls" in obs:
        want_l = []
        for i, l in enumerate(case["listeners"]):
            want_l.append(i)
            if l["kind"] in ("fail", "stop") or (l["kind"] == "handled" and l["stop"]):
                break
        got_l = [i for i in obs["listener_calls"] if i is not None]
        if got_l != want_l:
            return "pre-handle listeners called: %s, registered order up to the first stop: %s" % (got_l, want_l)
    if obs.get("shows_message") is False:
        return "the error report does not show the text of the exception"
    expect_calls = 1 if (resolved and handled is None and failed is None) else 0
    if obs["calls"] != expect_calls:
        return "the handler was invoked %d time(s), the statement requires %d" % (obs["calls"], expect_calls)
    if obs["calls"] == 1 and obs["call_args"] != [{"a": "x"}]:
        return "the handler got arguments %r, parsed for the command: {'a': 'x'}" % (obs["call_args"],)
    if not resolved:
        exc, value = {"type": "CannotParse"}, None
    elif failed is not None:
        exc, value = failed, None
    elif handled is not None:
        exc, value = None, handled
    elif "raise" in case["outcome"]:
        exc, value = case["outcome"]["raise"], None
    else:
        exc, value = None, case["outcome"]["ret"]
    if exc is not None:
        if st == 0:
            return "an exception (%s) ended in status 0" % exc["type"]
        if exc["type"] != "KeyboardInterrupt" and not obs["reported"]:
            return "an exception (%s) ended without a printed error report" % exc["type"]
        return None
    v = H.value_of(value)
    if not v:
        if st != 0:
            return "false-y result %r gave status %d" % (v, st)
        return None
    try:
        n = int(v)
    except Exception:  # noqa
        if st == 0 or not obs["reported"]:
            return "result %r has no integer value: expected a non-zero status and a report, got %d" % (v, st)
        return None
    want = min(max(n, 1), 255)
    if st != want:
        return "result %r gave status %d, the statement requires %d" % (v, st, want)
    return None


def nontrivial_key(case, obs):
    import json
    if case["outcome"] != {"ret": {"kind": "none"}}:
        return json.dumps(case, sort_keys=True)
    return None


def bucket(case, obs):
    o = case["outcome"]
    k = ("ret:" + o["ret"]["kind"]) if "ret" in o else ("raise:" + o["raise"]["type"])
    return "%s|status=%s|reported=%s|calls=%d" % (k, obs["status"], obs["reported"], obs["calls"])


def neighbours(case):
    for o in OUTCOMES:
        c = dict(case)
        c["outcome"] = o
        yield c
    for l in LISTENERS:
        c = dict(case)
        c["listeners"] = l
        yield c
