"""
C04 - a run always ends in a valid exit status and never leaks a handler failure.

Cases: the full table (handler outcome x pre-handle listener behaviours x verbosity/ANSI x how the
line resolves x where the selected command sits in the command tree) run through the REAL ConsoleApplication.run with exception catching enabled; the
Lean model gets the abstraction the code itself looks at (truthiness and int() of the result,
exception kind).  Observables: status or escaped exception, was a report printed, handler calls.
"""
import itertools
import math

from harness import c04_handlers as H

ID = "C04"
DESIGN_REF = "6/C04"
LEAN_MODULES = ["Clikit.Props.C04"]
REQUIRED_THEOREMS = ["Clikit.Props.C04." + n for n in (
    "clampStatus_range", "status_range", "handler_once", "run_contained", "exception_reported", "status_zero_iff",
    "escape_only_by_render", "attempt_status_le", "run_escapes_iff", "run_contained_exact", "exception_reported_exact",
    "attempt_calls", "conclude_calls",
    # end to end, on the composed model of the default application (Model/App.lean, tied by c09.app_run)
    "run_shape", "app_runs_selected_handler", "app_at_most_one_handler", "app_status_range",
    # bridge to the event dispatcher model of C12 (Model/RunListeners.lean, tied by c04.run_regs)
    "listeners_called_in_priority_order", "registration_order_irrelevant_across_priorities",
    "registration_swap_across_priorities", "other_events_irrelevant", "handled_does_not_stop",
    # how the handler is wired to the command (Model/Wiring.lean, tied by the `wiring` field of c04.run / c04.run_regs)
    "wired_handler_runs", "wired_handler_once", "wired_unusable_contained",
    # the selected command is any command of the tree (Model/CommandTree.lean, tied by the `sel` field of c04.run / c04.run_regs)
    "sub_command_dispatcher", "sub_command_listeners", "sub_command_run", "command_without_application")]
TECHNIQUE = ("Lean 4 theorems on a model of ConsoleApplication.run/Command.handle whose status normalisation is regenerated "
             "from Command.handle on every run + exhaustive outcome x listener x verbosity table against the real run()")
LEVEL_TEXT = ("Proved in Lean for ALL handler results, exceptions and pre-handle listener lists: the status is 0 iff the value "
              "reaching the normalisation is false-y, otherwise int(result) clamped into 1..255 (the clamp expression is "
              "translated from Command.handle on every run, so `% 256` or a changed bound breaks the proof); if rendering the "
              "report does not fail nothing escapes run(), every Exception ends in status 1 with a report, KeyboardInterrupt "
              "in status 1; the handler is invoked at most once and exactly once iff resolution succeeded and no pre-handle "
              "listener handled the event or failed; a failing renderer is the ONLY way to escape (C20 characterises it), and "
              "nothing escapes EXACTLY when the report of the one exception reaching the except clause can be rendered "
              "(run_escapes_iff; run_contained_exact / exception_reported_exact need the renderer to work on that exception only). "
              "The model is tied to the code by the complete outcome x listener x verbosity x resolution table through the "
              "real ConsoleApplication.run. END TO END: on the composed model App.runApp of ConsoleApplication.run for the default "
              "configuration (create_io, the help and version listeners, DefaultResolver + args parser, HelpTextHandler, then this "
              "run model; Model/App.lean) it is proved for ALL command trees, token lists, conversion tables and handler "
              "behaviours that, without a help switch and a version request, the handler of the command the resolver selects is "
              "called exactly once with exactly the parsed args, no other handler runs and the status is the run model's status "
              "of its outcome (app_runs_selected_handler); at most one handler runs in any run, the one resolve_command "
              "selected (app_at_most_one_handler); every status is <= 255, run() does not return exactly when an exception "
              "escaped, which only a failing report renderer causes (app_status_range, run_shape). The composed model is compared "
              "with the real run of the default application on every generated case of C09 (entry c09.app_run). "
              "BRIDGE TO THE EVENT DISPATCHER (C12): the list of pre-handle listeners the run model consumes is BUILT from a "
              "registration history (event name, priority, listener) by running the dispatcher model of C12 "
              "(RunListeners.runWithDispatcher); proved for ALL histories: the dispatcher model's dispatch(PRE_HANDLE) calls "
              "exactly the registrations the run model's dispatchPre consults, in the same order - the prefix of C12's "
              "specOrder through the first listener that stops propagation or raises "
              "(listeners_called_in_priority_order, stated against C12.dispatch_spec/callSeq); that order is the stable "
              "descending sort of the PRE_HANDLE registrations, so permuting registrations of different priorities never "
              "changes the run while equal priorities keep registration order, observably "
              "(registration_order_irrelevant_across_priorities, registration_swap_across_priorities + a counterexample for "
              "a tie); registrations for other events never matter (other_events_irrelevant); a listener that marks the "
              "command handled without stopping propagation does not keep later listeners from running, the LAST status "
              "code set wins, and the handler is not invoked (handled_does_not_stop). Tied to the real run by c04.run_regs: "
              "shuffled registration orders with explicit, also equal and non-positive, priorities and registrations for "
              "other events on the real configuration; status, report, handler calls and the listener call log are compared. "
              "WIRING OF THE HANDLER (Model/Wiring.lean: Config.handler - nothing stored / a callable that is called without "
              "arguments to build the handler / the handler itself - and the getattr of the configured method name): proved "
              "that a handler instance and every lazy factory that builds it give exactly the run of the run model for the "
              "handler's outcome (wired_handler_runs); the handler is invoked exactly once iff the line resolved, no listener "
              "took over and the lookup reaches an object with the handler method (wired_handler_once); a command without a "
              "usable handler (none set, failing factory, no such method) ends in status 1 with a report and no invocation "
              "(wired_unusable_contained). Tied to the real run by cases that wire the same handler behaviour as an instance, "
              "a lambda / function / bound-method / partial / callable-object factory, the handler CLASS itself as the "
              "factory, the library's CallbackHandler, a plain function reached through `__call__`, and under custom handler "
              "method names (also next to a decoy `handle`). "
              "WHERE THE SELECTED COMMAND SITS (Model/CommandTree.lean: Command.__init__ stores the application, takes the "
              "application's dispatcher and builds every sub-command with the stored application, recursively): proved for ALL "
              "command trees and ALL paths into them that the command reached holds the application's dispatcher "
              "(sub_command_dispatcher), hence consults exactly the listeners registered on it (sub_command_listeners) and its "
              "run IS the run of the run model with those listeners (sub_command_run) - every theorem above holds for a run "
              "that selects a named, default or anonymous sub-command at any depth; a tree built without an application "
              "consults no listener (command_without_application). Tied to the real run by the listener x outcome table on "
              "command trees: named / default / anonymous sub-commands one and two levels down, their parents and siblings, "
              "default and anonymous top-level commands; every command of the tree has a recording handler, the listeners "
              "record which command their event is about.")
LEVEL_NOTE = ("Trusted: Lean kernel + standard axioms; the hand-written run model; tools/genparts/c04.py; harness (abstraction "
              "of Python values to truthiness/int()). Not modelled: BaseExceptions other than KeyboardInterrupt (SystemExit "
              "raised by a handler propagates by design), OS signal delivery, the trace renderer itself (C20).")
RULE = ("product of 25 handler outcomes (return values None/False/0/-3/300/True/'12'/'abc'/0.5/nan/''/[]/255/256/1 and raised "
        "exceptions: library and foreign types, KeyboardInterrupt, code attribute, chained cause, no-source code, messages with "
        "balanced/opening/closing/mismatched tags, multi-line, non-ASCII) x 9 listener configurations x 4 verbosities x "
        "ANSI/plain x 4 resolutions; quick = a deterministic slice + random sample; plus registration histories: 14 listener "
        "lists (two and three listeners that handle with different codes, stop or fail in the middle) registered in "
        "every/random order with priority patterns all-equal / descending / ascending / pairs of ties / random from "
        "{-2,0,3,3,7}, interleaved with registrations for an event that is never dispatched (any behaviour, top priority) and "
        "for PRE_RESOLVE (pass/stop), on the bare and the default configuration; plus the WIRINGS of the handler: 34 ways "
        "to configure it (instance, lambda, function, the handler class itself - method inherited or its own -, partial, "
        "callable object, bound method, CallbackHandler direct and lazy, plain function behind `__call__`; default / "
        "explicitly set / custom handler method names, with a decoy `handle`; 5 unusable ones: nothing set, no such method, "
        "factory raises, factory builds None) x 8 outcomes (quick; all 40 x 2 verbosities thorough) + random wiring x outcome "
        "x listeners x line; plus COMMAND TREES: the 9 listener configurations x outcomes (quick: 1-2 of 4; thorough: all 40) "
        "x every line of 8 shapes - `cmd` with sub-commands `add`/`other` directly or below a sub-command `repo`, `add` "
        "named / default / anonymous, lines selecting `add` with and without its name, the parent, the sibling, and lines that "
        "do not resolve; `cmd` as the application's default / anonymous command and an empty line - on the bare and the "
        "default configuration, + random shape x line x registration history / wiring; non-trivial = the outcome is not 'return None' or the case has a registration history or a "
        "wiring or a command tree; distinct = the case")
TRUSTED_BASE = [
    "Lean 4.33 kernel; axioms within propext, Classical.choice, Quot.sound (audited per theorem on every run)",
    "tools/genparts/c04.py: translation of the last statement of Command.handle (the clamp) and check of the guard before it",
    "lean/Clikit/Model/Run.lean: hand-written model of run/handle/_do_handle (modelled, not verified; tied by the correspondence)",
    "harness/props/c04.py, harness/c04_handlers.py: outcome table, listeners, abstraction of Python values; the wirings of "
    "the handler and their abstraction for the model (can the stored object be called; does the object reached have the "
    "configured method)",
    "lean/Clikit/Model/Wiring.lean: hand-written model of Config.handler and of the method lookup in Command._do_handle "
    "(modelled, not verified; tied by the wiring cases: status, report, handler calls)",
    "lean/Clikit/Model/RunListeners.lean: the encoding of a registration history for the dispatcher model of C12 (identity of a "
    "callable = position in the history; the walk ends at a listener that stops propagation or raises) and the reading back of "
    "the dispatcher's order (modelled, not verified; tied by c04.run_regs on every case: status, handler calls, listener call "
    "log); lean/Clikit/Model/Dispatcher.lean is the model of C12 (tied by harness/props/c12.py)",
    "lean/Clikit/Model/CommandTree.lean: hand-written model of what Command.__init__ / add_sub_command do with the application "
    "and its dispatcher, and of the guard of _do_handle (modelled, not verified; tied by the command-tree cases: status, "
    "report, handler calls, listener call log; the harness says which command of the tree a line selects - a hand-written "
    "table per shape, resolution itself is C03's subject)",
    "lean/Clikit/Model/App.lean: hand-written composition of the switches, resolver, parser, help-target and run models in the "
    "order of ConsoleApplication.run / DefaultApplicationConfig (modelled, not verified; tied by the differential runs of "
    "harness/props/c09.py through c09.app_run: status, selected command and args, handler invocations, help/version kind and "
    "target, I/O configuration)",
]
ASSUMPTIONS = [
    "rendering the error report does not fail (C20's subject) - needed only for the exception that reaches the except clause "
    "(run_escapes_iff is an equivalence); not decidable inside the model (the renderer is a parameter) but checked on every "
    "case: the model runs with a renderer that never fails against the REAL renderer, so a failure shows up as an escaped "
    "exception = a model/implementation disagreement and an oracle violation",
    "KeyboardInterrupt needs no report; BaseExceptions other than KeyboardInterrupt are outside the quantifier",
    "wiring: a callable given to set_handler is a factory (the library's rule), so a handler that is reached by CALLING it is "
    "given as `lambda: fn` with the method name `__call__`; factories take no arguments and build a fresh handler per run; "
    "'the handler is invoked' means the configured handler method of the object the wiring reaches",
    "command trees: 'the selected command' of a line is given by the harness's table (which sub-command a line names, the "
    "default / anonymous sub-command when it names none); 'no other handler runs' is judged on the recording handlers "
    "of ALL commands of the tree; the listeners must be consulted with an event about the selected command",
    "the app_* theorems take case conditions on their own inputs only (no help switch, `resolve` selects (path, args), the "
    "version option is not set, the path is not [help]); in the composed model rendering a help page or the version line "
    "succeeds (C13 help_total) and create_io does not raise",
]
BATCH = 1000
PARALLEL = True

RETS = [{"kind": "none"}, {"kind": "bool", "v": False}, {"kind": "int", "v": 0}, {"kind": "int", "v": -3},
        {"kind": "int", "v": 300}, {"kind": "bool", "v": True}, {"kind": "str", "v": "12"}, {"kind": "str", "v": "abc"},
        {"kind": "float", "v": "0.5"}, {"kind": "float", "v": "nan"}, {"kind": "str", "v": ""}, {"kind": "list", "v": []},
        {"kind": "int", "v": 255}, {"kind": "int", "v": 256}, {"kind": "int", "v": 1}]
RAISES = ([{"type": t} for t in ("RuntimeError", "KeyError", "Coded", "CodedText", "CodedNone", "CannotParse", "NoSuchOption",
                                 "KeyboardInterrupt")]
          + [{"type": "RuntimeError", "msg": m} for m in ("multiline", "nonascii", "surrogate", "balanced", "opening", "closing",
                                                          "mismatched", "anyclose", "lt", "empty")]
          + [{"type": "CannotParse", "msg": m} for m in ("closing", "mismatched", "balanced")]
          + [{"type": "RuntimeError", "scope": True}, {"type": "KeyError", "scope": True, "msg": "multiline"}]
          + [{"type": "ValueError", "cause": True}, {"type": "RuntimeError", "nosource": True},
             {"type": "RuntimeError", "msg": "mismatched", "nosource": True}])
OUTCOMES = [{"ret": r} for r in RETS] + [{"raise": r} for r in RAISES]
LISTENERS = [[], [{"kind": "pass"}], [{"kind": "handled", "code": {"kind": "int", "v": 0}, "stop": False}],
             [{"kind": "handled", "code": {"kind": "int", "v": 5}, "stop": True}],
             [{"kind": "handled", "code": {"kind": "str", "v": "7"}, "stop": False}, {"kind": "pass"}],
             [{"kind": "fail", "exc": {"type": "RuntimeError", "msg": "mismatched"}}],
             [{"kind": "stop"}, {"kind": "handled", "code": {"kind": "int", "v": 9}, "stop": False}],
             [{"kind": "pass"}, {"kind": "fail", "exc": {"type": "KeyboardInterrupt"}}],
             [{"kind": "handled", "code": {"kind": "none"}, "stop": False}]]
VERBOSITIES = [0, 1, 2, 4]
ENCODINGS = [["ascii", "ascii"], ["utf-8", "ascii"], ["ascii", "utf-8"], ["latin-1", "utf-8"], ["utf-8", "utf-8"],
             [None, None]]       # None: a text stream without an encoding of its own (io.StringIO)
LINES = [["cmd", "x"], ["nope"], ["cmd", "--unknown"], ["cmd", "x", "y", "z"]]

# ---- how the handler is WIRED to the command (Config.set_handler / set_handler_method).  A case without "wiring" gives a
# handler instance and leaves the method name alone (the first entry).
LAZY = ("lambda", "function", "class", "class_own", "partial", "callable_obj", "bound_method", "callback_lazy",
        "function_handler")                                   # a callable that BUILDS the handler when it is needed
DIRECT = ("instance", "callback")                             # the handler object itself
MISCONFIGURED = ("unset", "missing_method", "factory_raises", "factory_none")   # no handler can be invoked at all
WIRINGS = ([{"how": h} for h in DIRECT + LAZY]
           + [{"how": h, "method": "handle"} for h in ("instance", "class", "lambda")]        # the default name, set explicitly
           + [{"how": h, "method": m} for h in ("instance", "lambda", "class", "class_own", "callable_obj", "partial")
              for m in ("execute", "run_command")]
           + [{"how": h, "method": "execute", "decoy": True} for h in ("instance", "class", "function")]
           + [{"how": h} for h in MISCONFIGURED] + [{"how": "missing_method", "method": "execute"}])
WIRING_OUTCOMES = [{"ret": {"kind": "none"}}, {"ret": {"kind": "int", "v": 0}}, {"ret": {"kind": "int", "v": 300}},
                   {"ret": {"kind": "str", "v": "12"}}, {"ret": {"kind": "int", "v": 7}},
                   {"raise": {"type": "RuntimeError"}}, {"raise": {"type": "KeyboardInterrupt"}},
                   {"raise": {"type": "CannotParse"}}]


# ---- WHERE the selected command sits in the command tree.  A case without "shape" has the single top-level command
# `cmd`.  With a shape, `cmd` has sub-commands (`add` - the one the good lines select - and `other`), directly ("sub") or
# below a sub-command `repo` ("nested"); `add` is a named, a default or an anonymous sub-command.  EVERY command of the tree
# has a handler of its own (all wired the same way, all with the case's outcome; an invocation records the command's name).
SHAPES = ["sub:named", "sub:default", "sub:anon", "nested:named", "nested:default", "nested:anon"]
# ... and the top-level command `cmd` itself as the application's default / anonymous command (bare configuration only:
# the default configuration has a default command of its own, `help`)
TOP_SHAPES = ["top:default", "top:anon"]


def _shape_lines(shape):
    """the lines of a shape: tokens -> (names from `cmd` down to the command the line selects, the arguments parsed for it),
    or None for a line that does not resolve (C03 is the property about resolution; this table is written by hand)"""
    kind, mode = shape.split(":")
    if kind == "top":
        t = [([], (["cmd"], {})), (["x"], None)]          # no command name on the line: the default command runs
        if mode == "default":
            t.insert(0, (["cmd", "x"], (["cmd"], {"a": "x"})))
        return t
    P = ["cmd"] if kind == "sub" else ["cmd", "repo"]
    add = P + ["add"]
    t = []
    if mode == "anon":
        t.append((P + ["x"], (add, {"a": "x"})))          # an anonymous command has no name on the line
        t.append((P, (add, {})))
        t.append((P + ["x", "y"], None))
    else:
        t.append((P + ["add", "x"], (add, {"a": "x"})))
        t.append((P + ["add"], (add, {})))
        t.append((P + ["add", "--unknown"], None))
        if mode == "default":
            t.append((P + ["x"], (add, {"a": "x"})))      # the default sub-command needs no name
            t.append((P, (add, {})))
        else:
            t.append((P, (P, {})))                        # the parent command itself
            t.append((P + ["x"], None))
    t.append((P + ["other", "x"], (P + ["other"], {"a": "x"})))
    if kind == "nested":
        t.append((["cmd"], (["cmd"], {})))                # `repo` is a named sub-command: `cmd` alone is `cmd`
    return t


def _selection(case):
    """(names of the selected command from the top-level command down, the arguments the line gives it) - None when the
    line does not resolve"""
    if "shape" not in case:
        return (["cmd"], {"a": "x"}) if case["tokens"] == ["cmd", "x"] else None
    for toks, sel in _shape_lines(case["shape"]):
        if toks == case["tokens"]:
            return sel
    raise AssertionError("line %r is not in the table of shape %r" % (case["tokens"], case["shape"]))


def _sel_request(case):
    """the field `sel` of a model request: the sub-command configs below `cmd` as nested arrays and the positions leading
    to the selected command (Model/CommandTree.lean)"""
    if case["shape"].startswith("top"):
        return {"tree": [], "path": []}
    nested = case["shape"].startswith("nested")
    tree = [[[], []]] if nested else [[], []]            # cmd -> [repo -> [add, other]]  /  cmd -> [add, other]
    sel = _selection(case)
    pos = {"repo": 0, "add": 0, "other": 1}
    path = [pos[n] for n in sel[0][1:]] if sel else []
    return {"tree": tree, "path": path}


def _shape_cases(tier, rng):
    k = 0
    for shape in SHAPES + TOP_SHAPES:
        for toks, sel in _shape_lines(shape):
            for l, ls in enumerate(LISTENERS):
                if tier == "quick":
                    if sel is None and l % 3:
                        continue
                    outs = [REG_OUTCOMES[k % 4]] if (sel is None or sel[0][-1] != "add") else \
                        [REG_OUTCOMES[k % 4], REG_OUTCOMES[(k + 1) % 4]]
                else:
                    outs = OUTCOMES if sel is not None else REG_OUTCOMES
                for out in outs:
                    k += 1
                    c = {"outcome": out, "listeners": ls, "verbosity": 4 if k % 5 == 0 else 0, "ansi": False,
                         "tokens": toks, "shape": shape}
                    if k % 2 == 0 and shape in SHAPES:
                        c["default_cfg"] = True
                    yield c
    # registration histories and wirings on sub-commands
    for _ in range(150 if tier == "quick" else 2500):
        shape = rng.choice(SHAPES)
        lines = _shape_lines(shape)
        toks = (lines[0] if rng.random() < 0.6 else rng.choice(lines))[0]
        ls = rng.choice([l for l in LISTENERS if l] + REG_LISTS)
        c = {"outcome": rng.choice(OUTCOMES), "listeners": ls, "verbosity": rng.choice(VERBOSITIES),
             "ansi": rng.random() < 0.2, "tokens": toks, "shape": shape}
        r = rng.random()
        if r < 0.6:
            order = list(range(len(ls)))
            rng.shuffle(order)
            regs = [{"l": i, "prio": rng.choice(PRIO_POOL)} for i in order]
            if rng.random() < 0.3:
                regs, c["listeners"] = _with_others(regs, ls, rng)
            c["regs"] = regs
        elif r < 0.8:
            c["wiring"] = rng.choice(WIRINGS)
        if rng.random() < 0.4:
            c["default_cfg"] = True
        yield c


# ---- registration histories (bridge to the dispatcher, C12): listener lists whose ORDER is observable
_H = lambda v, stop=False: {"kind": "handled", "code": {"kind": "int", "v": v}, "stop": stop}   # noqa
_P, _S = {"kind": "pass"}, {"kind": "stop"}
_F = {"kind": "fail", "exc": {"type": "RuntimeError"}}
_KI = {"kind": "fail", "exc": {"type": "KeyboardInterrupt"}}
REG_LISTS = [[_H(3), _H(5)], [_H(3), _H(0)], [_H(3, True), _H(5)], [_H(3), _S, _H(5)], [_P, _F, _H(5)], [_H(4), _F],
             [_S, _F], [_H(3), _H(5), _H(7)], [_P, _H(6), _P], [_H(3), _KI, _H(5, True)], [_P, _P], [_H(300), _H(2, True), _F],
             [{"kind": "handled", "code": {"kind": "none"}, "stop": False}, _H(9)], [_H(3), _P, _H(5), _S]]
REG_OUTCOMES = [{"ret": {"kind": "none"}}, {"ret": {"kind": "int", "v": 300}}, {"raise": {"type": "RuntimeError"}},
                {"raise": {"type": "KeyboardInterrupt"}}]
EVENT_NO = {"config": 0, "pre-handle": 1, "pre-resolve": 2, "custom.other": 3}     # names in the model (compared only)
PRIO_POOL = [-2, 0, 3, 3, 7]


def _prio_patterns(n, rng):
    yield "equal", [4] * n
    yield "desc", [10 - i for i in range(n)]
    yield "asc", [i - 1 for i in range(n)]                 # ascending in registration order, including -1 and 0
    if n >= 3:
        yield "tie-first", [5, 5] + [1] * (n - 2)
        yield "tie-last", [8] + [2] * (n - 1)
    yield "random", [rng.choice(PRIO_POOL) for _ in range(n)]


def _with_others(regs, listeners, rng):
    """interleave registrations for other events: one that is never dispatched (any behaviour, top priority) and one
    for PRE_RESOLVE (pass / stop only: it IS called, with a PreResolveEvent)"""
    listeners = list(listeners)
    regs = [dict(r) for r in regs]
    for ev, l in (("custom.other", rng.choice([_F, _H(99, True), _S, _KI])), ("pre-resolve", rng.choice([_P, _S]))):
        listeners.append(l)
        regs.insert(rng.randrange(len(regs) + 1),
                    {"l": len(listeners) - 1, "prio": rng.choice([99, 4, 3, 0, -5]), "event": ev})
    return regs, listeners


def _reg_cases(tier, rng):
    k = 0
    for ls in REG_LISTS:
        n = len(ls)
        perms = list(itertools.permutations(range(n)))
        if tier == "quick" and len(perms) > 6:
            perms = perms[:2] + rng.sample(perms[2:], 4)
        for perm in perms:
            for pat, prios in _prio_patterns(n, rng):
                regs = [{"l": i, "prio": prios[j]} for j, i in enumerate(perm)]
                variants = [(regs, ls)]
                if pat in ("equal", "random", "tie-first"):
                    variants.append(_with_others(regs, ls, rng))
                for rg, lst in variants:
                    outs = REG_OUTCOMES if tier != "quick" else [REG_OUTCOMES[k % 4], REG_OUTCOMES[(k + 1) % 4]]
                    for out in outs:
                        k += 1
                        c = {"outcome": out, "listeners": lst, "regs": rg, "verbosity": 4 if k % 5 == 0 else 0,
                             "ansi": False, "tokens": LINES[1] if k % 13 == 0 else LINES[0]}
                        if k % 4 == 0:
                            c["default_cfg"] = True
                        yield c
    # the listener configurations of the main table, registered in a random order with random priorities
    for _ in range(150 if tier == "quick" else 2500):
        ls = rng.choice([l for l in LISTENERS if l] + REG_LISTS)
        order = list(range(len(ls)))
        rng.shuffle(order)
        regs = [{"l": i, "prio": rng.choice(PRIO_POOL)} for i in order]
        lst = ls
        if rng.random() < 0.4:
            regs, lst = _with_others(regs, ls, rng)
        c = {"outcome": rng.choice(OUTCOMES), "listeners": lst, "regs": regs, "verbosity": rng.choice(VERBOSITIES),
             "ansi": rng.random() < 0.3, "tokens": LINES[0] if rng.random() < 0.85 else rng.choice(LINES)}
        if rng.random() < 0.3:
            c["default_cfg"] = True
        yield c


def _wiring_cases(tier, rng):
    k = 0
    outs = WIRING_OUTCOMES if tier == "quick" else OUTCOMES
    for w in WIRINGS:
        for out in outs:
            for v in ((0,) if tier == "quick" else (0, 4)):
                k += 1
                c = {"outcome": out, "listeners": [], "verbosity": 4 if (tier == "quick" and k % 7 == 0) else v, "ansi": False,
                     "tokens": LINES[0], "wiring": w}
                if k % 3 == 0:
                    c["default_cfg"] = True
                yield c
    # with listeners (a handled event never reaches the handler, however it is wired) and lines that do not resolve
    for _ in range(120 if tier == "quick" else 1500):
        c = {"outcome": rng.choice(OUTCOMES), "listeners": rng.choice(LISTENERS), "verbosity": rng.choice(VERBOSITIES),
             "ansi": rng.random() < 0.2, "tokens": LINES[0] if rng.random() < 0.85 else rng.choice(LINES),
             "wiring": rng.choice(WIRINGS)}
        if rng.random() < 0.3:
            c["default_cfg"] = True
        yield c


def _regs_of(case):
    """the registration history of a case: (listener index, priority, event name) in registration order.  Cases without
    an explicit history register their listeners for PRE_HANDLE in list order with priorities 10, 9, 8, ..."""
    if "regs" in case:
        return [(r["l"], r["prio"], r.get("event", "pre-handle")) for r in case["regs"]]
    return [(i, 10 - i, "pre-handle") for i in range(len(case["listeners"]))]


def _call_order(case):
    """indices of the PRE_HANDLE listeners in the order the STATEMENT demands: descending priority, registration order
    among equal priorities (Python's sorted is stable); for cases without a history this is the list order"""
    pre = [(i, p) for (i, p, ev) in _regs_of(case) if ev == "pre-handle"]
    return [i for (i, p) in sorted(pre, key=lambda t: -t[1])]


def generate(tier, rng):
    full = list(itertools.product(range(len(OUTCOMES)), range(len(LISTENERS)), VERBOSITIES, (False, True),
                                  range(len(LINES))))
    if tier == "quick":
        # every outcome x listener pair at least once, the rest sampled
        keep = [c for k, c in enumerate(full) if k % 11 == 0]
        keep += [(o, l, 0, False, 0) for o in range(len(OUTCOMES)) for l in range(len(LISTENERS))]
        keep += [(o, 0, 4, True, 0) for o in range(len(OUTCOMES))]
        full = keep
    for (o, l, v, ansi, ln) in full:
        yield {"outcome": OUTCOMES[o], "listeners": LISTENERS[l], "verbosity": v, "ansi": ansi, "tokens": LINES[ln]}
    # ---- the same table on the DEFAULT application configuration (its own pre-handle listener - the version
    # option - runs after the user's listeners of positive priority and must not undo what they decided)
    for o in range(len(OUTCOMES)):
        for l in range(len(LISTENERS)):
            yield {"outcome": OUTCOMES[o], "listeners": LISTENERS[l], "verbosity": 0, "ansi": False, "tokens": LINES[0],
                   "default_cfg": True}
    # ---- real text streams with an encoding of their own (UTF-8, ASCII, latin-1; the two streams of an I/O need not
    # agree): the report of every exception must still be printed and the status returned (repaired D36)
    for o, out in enumerate(OUTCOMES):
        if "raise" not in out:
            continue
        for enc in ENCODINGS:
            for v in ((0, 4) if tier == "quick" else VERBOSITIES):
                yield {"outcome": out, "listeners": [], "verbosity": v, "ansi": False, "tokens": LINES[0], "enc": enc}
    # ---- registration histories: the same listeners registered in another order, with explicit (also equal, zero and
    # negative) priorities, and with registrations for other events in between
    for c in _reg_cases(tier, rng):
        yield c
    # ---- the ways a handler can be wired to the command: instance, lazy factories (function, the handler class itself,
    # partial, callable object, bound method), the library's CallbackHandler, a plain function behind `__call__`, custom
    # handler method names - every one of them must end in ONE invocation of the configured method with the parsed args
    for c in _wiring_cases(tier, rng):
        yield c
    # ---- the command the line selects sits anywhere in the command tree: a named / default / anonymous sub-command, one
    # or two levels down, the parent of sub-commands, a sibling - the whole listener x outcome table again on each
    for c in _shape_cases(tier, rng):
        yield c


def exhaustive(tier):
    return tier == "thorough"


def _app(case, io):
    from clikit.api.config.application_config import ApplicationConfig
    from clikit.api.event import PRE_HANDLE
    from clikit.api.args.format.argument import Argument
    from clikit.console_application import ConsoleApplication
    from clikit.formatter.default_style_set import DefaultStyleSet
    from clikit.resolver.default_resolver import DefaultResolver
    if case.get("default_cfg"):
        from clikit.config.default_application_config import DefaultApplicationConfig
        cfg = DefaultApplicationConfig("app", "1.0")
    else:
        cfg = ApplicationConfig("app", "1.0")
        cfg.set_command_resolver(DefaultResolver())
        cfg.set_style_set(DefaultStyleSet())
    cfg.set_catch_exceptions(True)
    cfg.set_terminate_after_run(False)
    cfg.set_io_factory(lambda app, args, i, o, e: io)
    c = cfg.create_command("cmd")
    if case.get("shape", "").startswith("top"):
        if case.get("default_cfg"):
            raise AssertionError("the top-level shapes are for the bare configuration")
        c.add_argument("a", Argument.OPTIONAL)
        _wire(c, case)
        if case["shape"] == "top:default":
            c.default()
        else:
            c.anonymous()
    elif "shape" in case:
        kind, mode = case["shape"].split(":")
        _wire(c, case, "cmd")
        parent = c
        if kind == "nested":
            parent = c.create_sub_command("repo")
            _wire(parent, case, "repo")
        add = parent.create_sub_command("add")
        other = parent.create_sub_command("other")
        for leaf, name in ((add, "add"), (other, "other")):
            leaf.add_argument("a", Argument.OPTIONAL)
            _wire(leaf, case, name)
        if mode == "default":
            add.default()
        elif mode == "anon":
            add.anonymous()
    else:
        c.add_argument("a", Argument.OPTIONAL)
        _wire(c, case)
    if "regs" in case:
        for r in case["regs"]:                                                 # explicit history: any order, any event
            cfg.add_event_listener(r.get("event", PRE_HANDLE), _listener(case["listeners"][r["l"]], r["l"]), r["prio"])
        return ConsoleApplication(cfg)
    prio = 10
    for l in case["listeners"]:
        cfg.add_event_listener(PRE_HANDLE, _listener(l, 10 - prio), prio)      # index = position in the case's list
        prio -= 1
    return ConsoleApplication(cfg)


class _CmdName(object):
    name = "cmd"


def _wire(c, case, name="cmd"):
    """configure the handler of the command as the case's wiring says (public setters of the command config only)"""
    import functools
    cmd_name = type("_CmdName", (object,), {"name": name})
    w = case.get("wiring")
    out = case["outcome"]
    if w is None:
        c.set_handler(H.Handler(out))
        return
    how, method = w["how"], w.get("method")
    cls = H.handler_type(out, method or "handle", decoy=bool(w.get("decoy")), base_defines=(how != "class_own"))
    if how == "instance":
        c.set_handler(cls())
    elif how == "lambda":
        c.set_handler(lambda: cls())
    elif how == "function":
        def make_handler():
            return cls()
        c.set_handler(make_handler)
    elif how in ("class", "class_own"):
        c.set_handler(cls)                                  # the class is the factory
    elif how == "partial":
        c.set_handler(functools.partial(H.Handler, out) if method is None else functools.partial(cls))
    elif how == "callable_obj":
        c.set_handler(H.Factory(cls))
    elif how == "bound_method":
        c.set_handler(H.Factory(cls).build)
    elif how in ("callback", "callback_lazy"):
        from clikit.handler.callback_handler import CallbackHandler

        def callback(args, io):
            return H._act(out, args, io, cmd_name)
        c.set_handler(CallbackHandler(callback) if how == "callback" else (lambda: CallbackHandler(callback)))
    elif how == "function_handler":
        fn = H.function_handler(out)
        c.set_handler(lambda: fn)
        method = "__call__"
    elif how == "unset":
        pass
    elif how == "missing_method":
        c.set_handler(H.handler_type(out, "something_else")())
    elif how == "factory_raises":
        c.set_handler(H.Factory(cls, fail={"type": "RuntimeError"}))
    elif how == "factory_none":
        c.set_handler(H.Factory(cls, nothing=True))
    else:
        raise AssertionError(how)
    if method is not None:
        c.set_handler_method(method)


LISTENER_CALLS = []
LISTENER_CMDS = []      # per PRE_HANDLE listener call: the full name of the command the event is about
OTHER_CALLS = []        # calls made while dispatching another event than PRE_HANDLE: [event name, index]


def _listener(l, index=None):
    def fn(event, name, dispatcher):
        if name != "pre-handle":
            OTHER_CALLS.append([name, index])
            if l["kind"] == "stop":
                event.stop_propagation()
            return
        LISTENER_CALLS.append(index)
        LISTENER_CMDS.append(getattr(getattr(event, "command", None), "full_name", None))
        if l["kind"] == "handled":
            event.handled(True)
            event.set_status_code(H.value_of(l["code"]))
            if l["stop"]:
                event.stop_propagation()
        elif l["kind"] == "fail":
            H.raise_it(l["exc"])
        elif l["kind"] == "stop":
            event.stop_propagation()
    return fn


def run_impl(case):
    from clikit.args.argv_args import ArgvArgs
    from clikit.formatter import AnsiFormatter, PlainFormatter
    from clikit.io.buffered_io import BufferedIO
    fmt = AnsiFormatter(forced=True) if case["ansi"] else PlainFormatter()
    raw = None
    if case.get("enc"):
        import io as _io
        from clikit.api.io import IO, Input, Output
        from clikit.io.input_stream.string_input_stream import StringInputStream
        from clikit.io.output_stream.stream_output_stream import StreamOutputStream
        raw = [_io.BytesIO() if e else _io.StringIO() for e in case["enc"]]
        streams = [_io.TextIOWrapper(b, encoding=e) if e else b for b, e in zip(raw, case["enc"])]
        io = IO(Input(StringInputStream("")), Output(StreamOutputStream(streams[0]), fmt),
                Output(StreamOutputStream(streams[1]), fmt))
    else:
        io = BufferedIO(formatter=fmt)
    io.set_verbosity(case["verbosity"])
    del H.CALLS[:]
    del H.WRONG_CALLS[:]
    del H.BUILT[:]
    del LISTENER_CALLS[:]
    del LISTENER_CMDS[:]
    del OTHER_CALLS[:]
    app = _app(case, io)
    try:
        status = app.run(ArgvArgs(["prog"] + case["tokens"]))
        escaped = None
    except BaseException as e:  # noqa
        status, escaped = None, type(e).__name__
    if raw is not None:
        out = "".join(b.getvalue().decode(e) if e else b.getvalue() for b, e in zip(raw, case["enc"]))
    else:
        out = io.fetch_output() + io.fetch_error()
    return {"status": status if (status is None or isinstance(status, int)) else repr(status), "escaped": escaped,
            "reported": bool(out.strip()), "calls": len(H.CALLS), "call_args": [c["arguments"] for c in H.CALLS],
            "call_names": [c["command"] for c in H.CALLS], "listener_cmds": list(LISTENER_CMDS),
            "status_type": type(status).__name__, "listener_calls": list(LISTENER_CALLS),
            "shows_message": _shows_message(case, out),
            **({"wrong_calls": len(H.WRONG_CALLS)} if "wiring" in case else {}),
            **({"other_calls": [list(x) for x in OTHER_CALLS]} if "regs" in case else {})}


def _shows_message(case, out):
    """does the report show the text of the handler's exception (judged only where the stream can write it as it is:
    UTF-8 and encoding-less text streams, plain formatter, messages without markup)"""
    o = case["outcome"]
    if "raise" not in o or case["ansi"] or not case.get("enc") or any(e not in (None, "utf-8") for e in case["enc"]):
        return None
    kind = o["raise"].get("msg", "plain")
    if kind not in ("plain", "nonascii", "multiline") or o["raise"]["type"] in ("KeyboardInterrupt", "KeyError"):
        return None
    return all(line in out for line in H.make_message(kind).split("\n"))


# ---- abstraction for the model -------------------------------------------------------------------
def _exc_abs(spec, tag):
    return {"ki": spec["type"] == "KeyboardInterrupt", "clikit": spec["type"] in ("CannotParse", "NoSuchOption"), "tag": tag}


def _ret_abs(spec):
    v = H.value_of(spec)
    try:
        ti = int(v)
    except Exception:  # noqa  int("abc"), int(nan), int(None), int([])
        ti = {"ki": False, "clikit": False, "tag": 99}
    return {"falsy": not v, "toint": ti}


def _resolution(case):
    if _selection(case) is not None:
        return None
    return {"ki": False, "clikit": True, "tag": 50}


def _listener_abs(l):
    if l["kind"] == "handled":
        return {"kind": "handled", "code": _ret_abs(l["code"]), "stop": l["stop"]}
    if l["kind"] == "fail":
        return {"kind": "fail", "exc": _exc_abs(l["exc"], 70)}
    return {"kind": l["kind"]}


def _wiring_abs(w):
    """what `Config._handler` holds, as far as `Config.handler` and `_do_handle` look at it: nothing / something that can be
    called (it is called WITHOUT arguments and the result is the handler) / any other object (the handler itself); and
    whether the object so obtained has the configured handler method"""
    how = w["how"]
    if how == "unset":
        return {"stored": "unset", "exc": {"ki": False, "clikit": False, "tag": 98}}
    if how == "factory_raises":
        return {"stored": "factory", "raises": _exc_abs({"type": "RuntimeError"}, 97)}
    has = how not in ("missing_method", "factory_none")
    t = {"has_method": True} if has else {"has_method": False, "exc": {"ki": False, "clikit": False, "tag": 98}}
    return dict(t, stored="object" if how in DIRECT + ("missing_method",) else "factory")


def model_requests(case):
    ls = [_listener_abs(l) for l in case["listeners"]]
    o = case["outcome"]
    h = {"ret": _ret_abs(o["ret"])} if "ret" in o else {"raise": _exc_abs(o["raise"], 1)}
    rq = {"m": "c04.run", "debug": case["verbosity"] == 4, "listeners": ls, "handler": h, "render_ok": True}
    if "wiring" in case:
        rq["wiring"] = _wiring_abs(case["wiring"])
    # the same run with the listeners given as the REGISTRATION HISTORY (event, priority, listener) the harness performs
    # on the real configuration: the model orders them through the dispatcher model of C12
    rr = {"m": "c04.run_regs", "debug": rq["debug"], "handler": h, "render_ok": True,
          "regs": [{"event": EVENT_NO[ev], "prio": p, "listener": ls[i]} for (i, p, ev) in _regs_of(case)]}
    if "wiring" in rq:
        rr["wiring"] = rq["wiring"]
    r = _resolution(case)
    if r is not None:
        rq["resolve_error"] = r
        rr["resolve_error"] = r
    if "shape" in case:
        # the selected command is a command of the tree built for `cmd`: the model derives the listeners IT consults
        rq["sel"] = rr["sel"] = _sel_request(case)
    # a case with an explicit history has no calling-order list of its own: only the history is sent
    return [rr] if "regs" in case else [rq, rr]


_RUN_KEYS = ("status", "escaped", "reported", "calls")


def model_obs(case, answers):
    a, b = answers[0], answers[-1]
    if b.get("pre_handle") != EVENT_NO["pre-handle"]:
        raise AssertionError("the model's name of PRE_HANDLE is %r, the harness sends %r" % (b.get("pre_handle"),
                                                                                           EVENT_NO["pre-handle"]))
    regs = _regs_of(case)
    return {"status": a["status"], "escaped": a["escaped"] is not None, "reported": a["reported"], "calls": a["calls"],
            # positions in the history -> indices of the case's listeners
            "listener_calls": [regs[k][0] for k in b["listener_calls"]],
            # list-based and history-based model agree (cases that have both)
            "history_agrees": all(a[k] == b[k] for k in _RUN_KEYS)}


def impl_view(case, obs):
    return {"status": obs["status"], "escaped": obs["escaped"] is not None, "reported": obs["reported"],
            "calls": obs["calls"], "listener_calls": [i for i in obs.get("listener_calls", []) if i is not None],
            "history_agrees": True}


# ---- the statement -------------------------------------------------------------------------------
def oracle(case, obs):
    if obs["escaped"] is not None:
        return "run() raised %s" % obs["escaped"]
    st = obs["status"]
    if not isinstance(st, int) or isinstance(st, bool) or not (0 <= st <= 255):
        return "run() returned %r (%s), not an integer status in 0..255" % (st, obs["status_type"])
    selection = _selection(case)
    resolved = selection is not None
    # which value / exception reaches the end of the run, by the statement
    handled = None
    failed = None
    order = _call_order(case)        # priority order (= list order for the cases without an explicit history)
    for l in (case["listeners"][i] for i in order):
        if l["kind"] == "fail":
            failed = l["exc"]
            break
        if l["kind"] == "handled":
            handled = l["code"]
            if l["stop"]:
                break
        if l["kind"] == "stop":
            break
    # which pre-handle listeners run: in priority order up to (and including) the first that stops propagation or fails;
    # marking the command handled does not stop the others
    if resolved and "listener_calls" in obs:
        want_l = []
        for i in order:
            l = case["listeners"][i]
            want_l.append(i)
            if l["kind"] in ("fail", "stop") or (l["kind"] == "handled" and l["stop"]):
                break
        got_l = [i for i in obs["listener_calls"] if i is not None]
        if got_l != want_l:
            return "pre-handle listeners called for the selected command %r: %s, priority order up to the first stop: %s" % (
                " ".join(selection[0]), got_l, want_l)
        # ... and they are consulted about the command that was selected
        wrong = [n for n in obs.get("listener_cmds", []) if n != " ".join(selection[0])]
        if wrong:
            return "the pre-handle event given to the listeners is about command %r, selected was %r" % (
                wrong[0], " ".join(selection[0]))
    # a listener registered for another event is called for that event only (and never for an event nobody dispatches)
    for name, i in obs.get("other_calls", []):
        if i is not None and (i, name) not in [(j, ev) for (j, p, ev) in _regs_of(case)]:
            return "listener %d was called for event %r it is not registered for" % (i, name)
    if obs.get("shows_message") is False:
        return "the error report does not show the text of the exception"
    # a command without a usable handler (none set, a factory that fails or builds nothing, no method of the configured
    # name): nothing can be invoked, the failure is an exception of the run like any other
    broken = case.get("wiring", {}).get("how") in MISCONFIGURED
    if obs.get("wrong_calls"):
        return "a method that is not the configured handler method (%r) was called" % case["wiring"].get("method")
    expect_calls = 1 if (resolved and handled is None and failed is None and not broken) else 0
    if obs["calls"] != expect_calls:
        return "the handler was invoked %d time(s), the statement requires %d" % (obs["calls"], expect_calls)
    if obs["calls"] == 1 and obs.get("call_names", [selection[0][-1]]) != [selection[0][-1]]:
        return "the handler of command %r ran, the line selects %r" % (obs["call_names"][0], " ".join(selection[0]))
    if obs["calls"] == 1 and obs["call_args"] != [selection[1]]:
        return "the handler got arguments %r, parsed for the command: %r" % (obs["call_args"], selection[1])
    if not resolved:
        exc, value = {"type": "CannotParse"}, None
    elif failed is not None:
        exc, value = failed, None
    elif handled is not None:
        exc, value = None, handled
    elif broken:
        exc, value = {"type": "no usable handler"}, None
    elif "raise" in case["outcome"]:
        exc, value = case["outcome"]["raise"], None
    else:
        exc, value = None, case["outcome"]["ret"]
    if exc is not None:
        if st == 0:
            return "an exception (%s) ended in status 0" % exc["type"]
        if exc["type"] != "KeyboardInterrupt" and not obs["reported"]:
            return "an exception (%s) ended without a printed error report" % exc["type"]
        return None
    v = H.value_of(value)
    if not v:
        if st != 0:
            return "false-y result %r gave status %d" % (v, st)
        return None
    try:
        n = int(v)
    except Exception:  # noqa
        if st == 0 or not obs["reported"]:
            return "result %r has no integer value: expected a non-zero status and a report, got %d" % (v, st)
        return None
    want = min(max(n, 1), 255)
    if st != want:
        return "result %r gave status %d, the statement requires %d" % (v, st, want)
    return None


def nontrivial_key(case, obs):
    import json
    if case["outcome"] != {"ret": {"kind": "none"}} or "regs" in case or "wiring" in case or "shape" in case:
        return json.dumps(case, sort_keys=True)
    return None


def bucket(case, obs):
    o = case["outcome"]
    k = ("ret:" + o["ret"]["kind"]) if "ret" in o else ("raise:" + o["raise"]["type"])
    b = "%s|status=%s|reported=%s|calls=%d" % (k, obs["status"], obs["reported"], obs["calls"])
    if "wiring" in case:
        w = case["wiring"]
        b += "|wired:%s%s" % (w["how"], ("." + w["method"]) if w.get("method") else "")
    if "shape" in case:
        sel = _selection(case)
        b += "|%s->%s" % (case["shape"], "/".join(sel[0]) if sel else "unresolved")
    if "regs" in case:
        pr = [p for (i, p, ev) in _regs_of(case) if ev == "pre-handle"]
        b += "|history:%s%s" % ("ties" if len(set(pr)) < len(pr) else "distinct",
                                 "+other-events" if len(pr) < len(case["regs"]) else "")
    return b


def neighbours(case):
    for shape in SHAPES + ([] if case.get("default_cfg") else TOP_SHAPES):   # the same run selecting a command elsewhere in a tree
        for toks, sel in _shape_lines(shape):
            if (shape, toks) != (case.get("shape"), case["tokens"]) and (sel is not None) == (_selection(case) is not None):
                yield dict(case, shape=shape, tokens=toks)
    if "shape" in case:                                         # ... and the single top-level command
        c = dict(case, tokens=LINES[0] if _selection(case) is not None else LINES[1])
        del c["shape"]
        yield c
    for w in WIRINGS:                                           # the same run with the handler wired another way
        if w != case.get("wiring"):
            yield dict(case, wiring=w)
    for o in OUTCOMES:
        c = dict(case)
        c["outcome"] = o
        yield c
    for l in LISTENERS:
        c = dict(case)
        c["listeners"] = l
        c.pop("regs", None)
        yield c
    if "regs" in case:
        for k in range(len(case["regs"])):
            for d in (-1, 1):                                   # move one priority: makes or breaks a tie
                c = dict(case)
                c["regs"] = [dict(r, prio=r["prio"] + d) if j == k else r for j, r in enumerate(case["regs"])]
                yield c
        for k in range(len(case["regs"]) - 1):                  # swap two neighbouring registrations
            c = dict(case)
            rg = list(case["regs"])
            rg[k], rg[k + 1] = rg[k + 1], rg[k]
            c["regs"] = rg
            yield c
