"""
C11 - decoration changes only the look: same text, right codes, none when plain.

Case families (field "k"):
  msg     a message from a grammar (nested named + inline styles, unknown tags, bare '<' '>', newlines,
          non-ASCII; balanced; no backslashes) on AnsiFormatter(forced) / PlainFormatter /
          AnsiFormatter.remove_format, optionally with a style stack left by an earlier message and
          a per-call style                                      -> validates the pastel model
          field "sset": the two formatters are built from a GIVEN style set - an empty StyleSet(), a default set with
          styles removed (down to none), small sets of own styles, also under default tag names; a tag denotes a
          style only when the set (or pastel itself: info / comment / question / error) knows it, every other tag -
          `<b>` under an empty set - is text for AnsiFormatter and PlainFormatter alike
  bad     small malformed stream (unbalanced / wrongly nested tags, invalid colours): model and
          pastel must agree on ValueError; the oracle demands nothing (outside the quantifier)
  sgr     the style table 10 fg x 10 bg x 2^7 attributes through the three ways of supplying a style; route "ctag":
          passed for a single call while its tag denotes something else in the formatter (registered, built in, unknown)
  write   every writing method of IO / Output / SectionOutput x formatter x indentation 0..4 x texts
  scopes  programs of nested indentation scopes (io / output / error output, set / increment,
          normal exit, exception, exception caught further out)
  secprog programs of indentation scopes over SEVERAL section outputs of one output (scopes on single sections and
          on the output / I/O they are created from, set / increment, exits by exception) around the creation of
          sections and the writes / overwrites / clears on them: an operation on an earlier section re-draws the
          sections shown below it; every line is judged as it stands ON THE SCREEN after every operation
          (terminal interpretation of the bytes): it must carry the indentation that was in force on ITS section when
          it was written
"""
import hashlib
import itertools
import os
import re

ID = "C11"
DESIGN_REF = "6/C11"
TECHNIQUE = ("Lean 4 proofs about executable models of StyleConverter + pastel's Style.apply (SGR codes, tables "
             "regenerated from the sources on every run), of pastel's tag machine (regex scanner, style stack, "
             "colorized / plain run; tag -> style resolution is a parameter) and of Output/IO/SectionOutput writes "
             "and Indent scopes (also over several section outputs, composed with the section / terminal models of C15); differential correspondence of every model against the real formatters / outputs "
             "(exhaustive over the style table) + the property statement evaluated directly on the implementation")
LEVEL_TEXT = ("Proved for all inputs of the models: SGR codes of every style are exactly fg, bg and one code per "
              "attribute through all three ways of supplying it; ANSI-stripped decorated rendering = plain rendering "
              "for every token list, every resolver and every initial style stack; balanced token lists render to "
              "the concatenation of their texts and leave the stack unchanged; plain rendering is ESC-free and shows "
              "no resolved tag; line methods append exactly one newline; every non-empty line gets exactly the "
              "indentation in force, before and after formatting (plain, and decorated with the sequences stripped); every program of nested indentation scopes (any depth, exits by exception "
              "included) restores the indentation and indents each line by its enclosing scopes only - also over several "
              "section outputs, where an operation on an earlier section re-draws the sections shown below: the screen shows every "
              "line behind the indentation fixed by the scopes around ITS write (section_scopes_lexical, section_redraw_keeps_indent, "
              "built on C15's screen_refines_indented). The message theorems hold for every resolver, hence for the formatters of "
              "every style set; a style set of size 0 registers nothing (formatter_registry_empty: only pastel's own four styles "
              "remain, b / u / c1 / c2 are text: empty_set_default_tags_are_text). The models "
              "are tied to the code by regenerated tables (style set, converter, pastel SGR tables, the write gate) "
              "and by differential runs against the real classes.")
LEVEL_NOTE = ("Trusted: Lean kernel + propext/Quot.sound/Classical.choice; tools/genparts/c11.py; this harness; "
              "that the hand-written models follow the code is sampled (exhaustively for the style table), not "
              "proved. pastel's inline-style parser is a parameter (resolver) filled by pastel itself. The hypotheses "
              "of the message theorems (no ESC, no backslash, balanced pieces under the resolver pastel supplied) are "
              "decided by the model on every generated message (answer field wf, theorems message_ok_decides / "
              "balanced_decides) and compared with true; the specification of the SGR codes (expectedCodes, hypothesis "
              "of sgr_exact) is answered by the model for every style of the table (field spec, theorem "
              "spec_codes_decides) and compared with the oracle's own code table; the hypothesis of style_set_emptied "
              "(every default style carries a tag that was removed) is decided on the remove calls of every style-set "
              "case (field emptied, theorem empties_decides) and compared with whether the real StyleSet object holds "
              "no style after them.")
LEAN_MODULES = ["Clikit.Props.C11"]
REQUIRED_THEOREMS = ["Clikit.Props.C11." + n for n in (
    "sgr_exact", "strip_eq_plain", "balanced_text", "plain_no_escape", "line_methods_newline",
    "indent_lines", "indent_lines_rendered", "scope_restores", "message_strip_eq_plain", "message_balanced",
    "io_delegates", "balanced_decides", "message_ok_decides", "balanced_text_decided", "message_balanced_decided",
    "indent_lines_rendered_decided", "spec_codes_decides", "sgr_exact_decided", "sgr_call_ignores_registered_tag",
    # indentation scopes over several sections (Model/SectionScopes.lean on the section model of C15)
    "section_scopes_lexical", "section_redraw_keeps_indent",
    # formatters built from a given style set (Model/StyleSets.lean)
    "formatter_registry_none", "formatter_registry_empty", "style_set_emptied", "empty_set_default_tags_are_text",
    # hypothesis audit, round 10: the hypothesis of style_set_emptied decided on every style-set case (answer field
    # `emptied`, compared with whether the real StyleSet holds no style after the removals)
    "empties_decides", "style_set_emptied_iff", "style_set_emptied_decided")]
RULE = ("msg: random ASTs (depth <= 4) over named styles of the default style set (any case), inline "
        "fg/bg/options specs, unknown tags, text over ASCII, '<' '>' '/', newline, non-ASCII incl. the four "
        "non-ASCII letters Python's case-insensitive [a-z] admits; non-trivial = at least one style node, distinct "
        "by raw message + stack + per-call style. sgr: the full product 10 fg x 10 bg x 128 attribute sets x "
        "{registered tag, add_style, per-call} in the thorough tier (exhaustive), a deterministic 1/8 slice plus "
        "all single-attribute styles in the quick tier; non-trivial = some colour or attribute set. sgr/ctag: the "
        "styles of the table passed for a SINGLE CALL while carrying a TAG - a different style registered under the "
        "tag (style set / add_style; differing in the foreground or in one attribute), the same Style object adjusted "
        "after its registration, a tag of the default style set, a pastel built-in tag, an unknown tag - through "
        "AnsiFormatter.format / Output.format / IO.format (every style with one combination, thorough: styles with "
        "<= 1 attribute with all 21 combinations); msg: the per-call style carries such a tag in 4 of 5 cases. msg/sset: "
        "AnsiFormatter and PlainFormatter built from ONE given style set (one StyleSet object for both, or one each) of size "
        "0 (empty StyleSet(), a DefaultStyleSet with every style removed in any order), 1, 2, default less one, default plus "
        "own styles (also re-defining b / c1 / info): 23 sets x 4 fixed messages over the default tag names (b, u, c1, c2, "
        "info, comment, question, error, an own tag kx) + random ASTs re-read under a random such set (2500 / 40000); a tag "
        "denotes a style only when the set or pastel itself (info, comment, question, error) knows it - every other tag is "
        "text and brings no SGR code; the three renderings must still be one string. write: full "
        "product object x method x formatter {ansi forced, ansi unforced, plain, null} x indent 0..4 x fixed "
        "multi-line texts (+ random ASTs in the thorough tier); non-trivial = indent > 0 or a line method. "
        "scopes: every chain of scopes of depth <= 3 (thorough: 4) over target {io,out,err} x {set,increment} x "
        "n in {1,3} with an exit variant, plus random trees; non-trivial = at least one scope. secprog: SEVERAL SECTIONS "
        "x indentation scopes - the table 2-3 sections showing 0/1/2 lines each (written at indentation 0 or inside a scope "
        "of their own) x an operation {write_line, overwrite, clear(), clear(1)} on an EARLIER section inside a scope on it "
        "(set 4 / increment 1 / set 2 + increment 3) x one more write after the scope x {Output.section(), IO.section()} x "
        "output indentation {0, 2} (6048 programs; quick: a quarter, some also undecorated), plus random program trees "
        "(1-3 sections, some created inside scopes on the output, scopes on sections / the output, set / increment 0-5, try / "
        "raise, depth <= 3); the screen is judged after EVERY operation; non-trivial = at least one scope and (decorated) at "
        "least one re-draw. bad: random "
        "unbalanced tag sequences; counted, never non-trivial.")
TRUSTED_BASE = [
    "Lean 4.33 kernel; axioms propext, Classical.choice, Quot.sound only (audited per theorem on every run)",
    "tools/genparts/c11.py: ast reading of DefaultStyleSet, StyleConverter.convert, pastel's SGR tables; "
    "tools/gen_lean.py + py2lean for the write gate (Gen.mayWrite)",
    "harness/props/c11.py: message grammar and its own tag stripper, SGR parser of the oracle, BufferedIO streams",
    "pastel 0.2.1: `_create_style_from_string` (which style a tag denotes) is a parameter of the theorems, "
    "filled per message by pastel itself; Python `re` semantics of FULL_TAG_REGEX are modelled by hand and "
    "validated on every generated message",
    "CPython str.split/join/rstrip/replace semantics (modelled by hand)",
    "secprog: lean/Clikit/Model/SectionScopes.lean (hand-written, sampled by the correspondence: bytes, content and row "
    "counter of every section after every operation, indentations afterwards) on C15's Section / SectionIndent / Term "
    "models; the oracle's terminal interpretation is C15's character-level emulator (harness/props/c15.py Emu)",
]
ASSUMPTIONS = [
    "messages contain no backslash and no ESC (backslash-escaped tags are outside the property's quantifier; "
    "the model covers them but they are not generated): decided by the model on every generated message "
    "(wf.clean = cleanB, compared with true)",
    "'balanced style tags' is the inductive predicate Balanced over the pieces pastel cuts the message into, relative to "
    "what pastel makes of each tag: decided by the model on every generated message of the msg and write families "
    "(wf.balanced = balancedB, proved equivalent to Balanced, compared with true)",
    "section outputs, families write / secseq: a single section per stream; histories of writes, "
    "overwrites and clears on it only without decoration, where every call must append what it writes on a "
    "fresh section (the model answers call by call). Family secprog: several sections of one output under indentation "
    "scopes, tag-free lines that do not wrap (COLUMNS=80) and do not start with a blank; judged is the indentation of every "
    "line on the screen - that the screen shows the lines the sections hold at all is C15's subject (a screen whose texts "
    "differ is not judged here)",
    "indent_lines_rendered (formatting keeps every line's indentation) is proved for the formatter entry points "
    "on backslash-free text; that Output.write hands exactly the indented text to them is indent_lines",
    "streams are BufferedOutputStreams (no ANSI capability of their own); decoration is forced by the formatter",
    "a formatter is built from exactly the style set it is handed (only None stands for the default set; a StyleSet object "
    "without styles registers nothing) on top of pastel's own four styles: which tags denote styles under a given set is "
    "the oracle's own account (registered_codes / PASTEL_BUILTIN), the model builds its registry from the same "
    "description (Style.formatterRegistry, theorems formatter_registry_empty / empty_set_default_tags_are_text)",
    "a style passed for a single call is rendered with its own colours and attributes also when its tag is registered "
    "with others (sgr_call_ignores_registered_tag; the registry of a formatter holds converted snapshots): compared on "
    "the style table through AnsiFormatter.format, Output.format and IO.format",
]
BUDGET_S = {"quick": 80, "thorough": 780}
BATCH = 6000

ESC = "\x1b"
SGR_RE = re.compile(r"\x1b\[([0-9;]*)m")

# --------------------------------------------------------------------------- the oracle's own tables (ECMA-48)
COLOR_INDEX = {"black": 0, "red": 1, "green": 2, "yellow": 3, "blue": 4, "magenta": 5, "cyan": 6, "light_gray": 7,
               "default": 9, "dark_gray": 60, "light_red": 61, "light_green": 62, "light_yellow": 63,
               "light_blue": 64, "light_magenta": 65, "light_cyan": 66, "white": 67}
ATTR_CODE = {"bold": 1, "dark": 2, "italic": 3, "underlined": 4, "blinking": 5, "inverse": 7, "hidden": 8}
OPTION_CODE = {"bold": 1, "dark": 2, "italic": 3, "underline": 4, "blink": 5, "reverse": 7, "conceal": 8}
ATTRS = ["bold", "italic", "dark", "underlined", "blinking", "inverse", "hidden"]
TABLE_COLORS = [None, "black", "red", "green", "yellow", "blue", "magenta", "cyan", "white", "default"]
NAMED = ["info", "comment", "question", "error", "b", "u", "c1", "c2"]


def spec_codes(fg, bg, attrs):
    """the SGR codes a style must be rendered with"""
    out = []
    if fg:
        out.append(30 + COLOR_INDEX[fg])
    if bg:
        out.append(40 + COLOR_INDEX[bg])
    out.extend(ATTR_CODE[a] for a in attrs)
    return out


def named_codes():
    """codes of the default style set's tags, read off the Style objects (not through the converter)"""
    from clikit.formatter.default_style_set import DefaultStyleSet
    out = {}
    for tag, st in DefaultStyleSet().styles.items():
        attrs = [a for a in ATTRS if getattr(st, "is_" + a)()]
        out[tag] = spec_codes(st.foreground_color, st.background_color, attrs)
    return out


_NAMED_CODES = None


# the four styles pastel registers itself (pastel.Pastel.__init__): they are styles of every formatter, whatever style
# set it was built from
PASTEL_BUILTIN = {"error": [97, 41], "info": [32], "comment": [33], "question": [30, 46]}


def registered_codes(sset):
    """the oracle's own account of a style set built by `sset` (None: no style set given = the default one):
    tag -> SGR codes"""
    global _NAMED_CODES
    if _NAMED_CODES is None:
        _NAMED_CODES = named_codes()
    reg = {} if sset is not None and sset["base"] == "empty" else dict(_NAMED_CODES)
    if sset is not None:
        for t in sset["remove"]:
            reg.pop(t, None)
        for a in sset["add"]:
            reg[a["tag"]] = spec_codes(a.get("fg"), a.get("bg"), a["attrs"])
    return reg


def denoted(name, sset):
    """the codes of the style a tag name denotes in a formatter built from `sset`, None when it denotes no style (the
    tag is text)"""
    low = name.lower()
    reg = registered_codes(sset)
    if low in reg:
        return list(reg[low])
    if low in PASTEL_BUILTIN:
        return list(PASTEL_BUILTIN[low])
    return None


def codes_of_spec(spec, sset=None):
    global _NAMED_CODES
    if spec is None:
        return []
    if "name" in spec and sset is not None:
        return denoted(spec["name"], sset) or []
    if "name" in spec:
        if _NAMED_CODES is None:
            _NAMED_CODES = named_codes()
        return list(_NAMED_CODES.get(spec["name"].lower(), []))
    if "attrs" in spec:
        return spec_codes(spec.get("fg"), spec.get("bg"), spec["attrs"])
    out = []
    if spec.get("fg"):
        out.append(30 + COLOR_INDEX[spec["fg"]])
    if spec.get("bg"):
        out.append(40 + COLOR_INDEX[spec["bg"]])
    out.extend(OPTION_CODE[o] for o in spec.get("opts", []))
    return out


def strip_ansi(s):
    return SGR_RE.sub("", s)


def look(s):
    """decorated bytes -> [(char, frozenset of active codes)], or None when a stray ESC is left"""
    out, active, i = [], frozenset(), 0
    while i < len(s):
        m = SGR_RE.match(s, i)
        if m:
            for p in (m.group(1) or "0").split(";"):
                c = int(p or "0")
                active = frozenset() if c == 0 else active | {c}
            i = m.end()
        elif s[i] == ESC:
            return None
        else:
            out.append((s[i], active))
            i += 1
    return out


# --------------------------------------------------------------------------- message ASTs
# node = ["t", text] | ["u", literal]  (a tag that is no style: printed as it stands)
#      | ["s", open_tag, close_tag ("" = "</>"), children, spec]

def raw_of(nodes):
    out = []
    for n in nodes:
        if n[0] in ("t", "u"):
            out.append(n[1])
        else:
            out.append("<%s>%s</%s>" % (n[1], raw_of(n[3]), n[2]))
    return "".join(out)


def text_of(nodes):
    """the harness's own tag stripper: texts and non-style tags, in order"""
    out = []
    for n in nodes:
        if n[0] in ("t", "u"):
            out.append(n[1])
        else:
            out.append(text_of(n[3]))
    return "".join(out)


def expected_look(nodes, outer, sset=None):
    out = []
    for n in nodes:
        if n[0] in ("t", "u"):
            out.extend((ch, outer) for ch in n[1])
        else:
            out.extend(expected_look(n[3], frozenset(codes_of_spec(n[4], sset)), sset))
    return out


def count_styles(nodes):
    return sum(1 + count_styles(n[3]) for n in nodes if n[0] == "s")


TEXT_ALPHABET = (list("abcxyz") * 3 + list("  ") + ["\n", "\n"] + list("019") + list("<>/=;,-_.!") +
                 ["é", "ü", "ß", "日", "本", "😀", "→", "İ", "ı", "ſ", "K"])
UNKNOWN_TAGS = ["foo", "x1", "K", "ſ", "ıx", "a-b", "q,r", "options=zz", "bar_", "FOO", "İ"]
INLINE_COLORS = list(COLOR_INDEX)
INLINE_OPTIONS = list(OPTION_CODE)


def gen_text(rng, n):
    out = []
    for _ in range(n):
        ch = rng.choice(TEXT_ALPHABET)
        if out and out[-1] == "<" and (ch.isalpha() or ch == "/"):
            ch = " "
        out.append(ch)
    return "".join(out)


def gen_style(rng):
    """-> (open tag, close tag, spec)"""
    r = rng.random()
    if r < 0.55:
        name = rng.choice(NAMED)
        shown = rng.choice([name, name, name, name.upper(), name.capitalize()])
        r2 = rng.random()
        if r2 < 0.6:
            close = shown
        elif r2 < 0.9:
            close = ""
        elif name in ("c1", "comment") and r2 < 0.95:
            close = "comment" if name == "c1" else "c1"          # an equal style closes it as well
        else:
            close = name.upper()
        return shown, close, {"name": name}
    parts, spec = [], {}
    if rng.random() < 0.7:
        spec["fg"] = rng.choice(INLINE_COLORS)
        parts.append("fg=" + spec["fg"])
    if rng.random() < 0.4:
        spec["bg"] = rng.choice(INLINE_COLORS)
        parts.append("bg=" + spec["bg"])
    if rng.random() < 0.5 or not parts:
        k = rng.choice([1, 1, 2, 3])
        opts = []
        for o in (rng.choice(INLINE_OPTIONS) for _ in range(k)):
            if o not in opts:
                opts.append(o)
        spec["opts"] = opts
        parts.append("options=" + ",".join(opts))
    rng.shuffle(parts)
    # the option codes appear in the order the options are written; fg/bg first whatever their position
    tag = ";".join(parts)
    if rng.random() < 0.15:
        tag = tag.upper()
    close = "" if rng.random() < 0.7 else tag
    return tag, close, spec


def gen_nodes(rng, depth, width, top=True):
    nodes = []
    for _ in range(rng.randint(1 if top else 0, width)):
        r = rng.random()
        if r < (0.3 if top else 0.42) or depth <= 0:
            nodes.append(["t", gen_text(rng, rng.choice([1, 2, 3, 5, 8]))])
        elif r < (0.4 if top else 0.52):
            t = rng.choice(UNKNOWN_TAGS)
            nodes.append(["u", ("</%s>" if rng.random() < 0.3 else "<%s>") % t])
        else:
            o, c, spec = gen_style(rng)
            nodes.append(["s", o, c, gen_nodes(rng, depth - 1, max(1, width - 1), False), spec])
    return normalise(nodes)


# ---- formatters built from a GIVEN style set: an empty StyleSet(), a default set with styles removed (down to none),
# small sets of own styles (also under the default tag names).  A tag denotes a style only when the set (or pastel
# itself) knows it; every other tag - `<b>` on a formatter built from an empty set - is text, on every formatter alike.
SSET_TAGS = ["kx", "hl", "b", "c1", "info", "zz"]     # none is the lowered form of an UNKNOWN_TAGS entry


def gen_sset(rng):
    r = rng.random()
    if r < 0.22:
        return {"base": "empty", "remove": [], "add": []}
    if r < 0.40:
        order = list(NAMED)
        rng.shuffle(order)
        return {"base": "default", "remove": order, "add": []}                      # emptied, in any order
    if r < 0.62:
        order = list(NAMED)
        rng.shuffle(order)
        return {"base": "default", "remove": sorted(order[rng.choice([1, 2, 2]):]), "add": []}     # 1 or 2 left
    add = []
    for t in rng.sample(SSET_TAGS, rng.choice([1, 1, 2])):
        add.append(dict(rng.choice(STYLE_POOL[:3] + STYLE_POOL[4:]), tag=t))
    if r < 0.85:
        return {"base": "empty", "remove": [], "add": add}                              # 1 or 2 own styles
    return {"base": "default", "remove": [rng.choice(NAMED)] if rng.random() < 0.5 else [], "add": add}


def sset_size(sset):
    return len(registered_codes(sset))


def retarget(nodes, sset, top=True):
    """the message AST read under a style set: a named node whose tag denotes no style there becomes text (its tags
    written out, closed by name); a named node that stays a style is closed by its own name or `</>`"""
    out = []
    for n in nodes:
        if n[0] == "u":
            m = re.match(r"</?([^<>]*)>$", n[1])
            # a tag meant as text that denotes a style under THIS set (an own tag spelled like it) is left out
            out.append(n if not m or denoted(m.group(1), sset) is None else ["t", "?"])
            continue
        if n[0] != "s":
            out.append(n)
            continue
        kids = retarget(n[3], sset, False)
        if "name" not in n[4]:
            out.append([n[0], n[1], n[2], kids, n[4]])
        elif denoted(n[4]["name"], sset) is None:
            out.append(["u", "<%s>" % n[1]])
            out.extend(kids)
            out.append(["u", "</%s>" % n[1]])
        else:
            close = n[2] if n[2].lower() in ("", n[4]["name"].lower()) else n[1]
            out.append(["s", n[1], close, kids, n[4]])
    return normalise(out) if top else out


def gen_sset_case(rng, sset=None):
    sset = sset if sset is not None else gen_sset(rng)
    nodes = gen_nodes(rng, 3, 4)
    # the default tag names and the set's own tags are what the message is about
    for t in [a["tag"] for a in sset["add"]] + [rng.choice(NAMED)]:
        if rng.random() < 0.7:
            shown = rng.choice([t, t, t.upper()])
            nodes.insert(rng.randrange(len(nodes) + 1),
                         ["s", shown, rng.choice([shown, ""]), [["t", gen_text(rng, 3) or "x"]], {"name": t}])
    style = rng.choice(STYLE_POOL) if rng.random() < 0.15 else None
    return {"k": "msg", "ast": retarget(normalise(nodes), sset), "pre": [], "style": style, "sset": sset,
            "shared": rng.random() < 0.5}


SSET_FIXED_MSGS = [
    [["s", "b", "b", [["t", "bold"]], {"name": "b"}], ["t", " and "], ["s", "c1", "c1", [["t", "cyan"]], {"name": "c1"}]],
    [["s", "u", "u", [["t", "under "], ["s", "c2", "c2", [["t", "nested"]], {"name": "c2"}]], {"name": "u"}], ["t", " tail"]],
    [["s", "info", "", [["t", "i"]], {"name": "info"}], ["s", "error", "error", [["t", "e\n"]], {"name": "error"}],
     ["s", "comment", "", [["t", "c"]], {"name": "comment"}], ["s", "question", "question", [["t", "q"]], {"name": "question"}]],
    [["s", "kx", "kx", [["t", "custom"]], {"name": "kx"}], ["t", " "], ["s", "B", "b", [["t", "x"]], {"name": "b"}],
     ["t", "\nline two "], ["s", "c1", "", [["t", "y"]], {"name": "c1"}]],
]


def sset_table():
    """style sets of size 0, 1, 2 (and the default set less one / plus one) x the fixed messages over the default tag names"""
    ssets = [{"base": "empty", "remove": [], "add": []},
             {"base": "default", "remove": list(NAMED), "add": []},
             {"base": "default", "remove": list(reversed(NAMED)), "add": []}]
    for keep in (["b"], ["c1"], ["info"], ["b", "c1"], ["u", "c2"], ["error", "b"]):
        ssets.append({"base": "default", "remove": [t for t in NAMED if t not in keep], "add": []})
    for t in NAMED:
        ssets.append({"base": "default", "remove": [t], "add": []})
    k = dict(STYLE_POOL[0], tag="kx")
    b = dict(STYLE_POOL[2], tag="b")
    ssets += [{"base": "empty", "remove": [], "add": [k]}, {"base": "empty", "remove": [], "add": [b]},
              {"base": "empty", "remove": [], "add": [k, b]}, {"base": "default", "remove": [], "add": [k]},
              {"base": "default", "remove": [], "add": [b]}, {"base": "default", "remove": ["b"], "add": [b]}]
    for i, ss in enumerate(ssets):
        for j, m in enumerate(SSET_FIXED_MSGS):
            yield {"k": "msg", "ast": retarget(m, ss), "pre": [], "style": None, "sset": ss, "shared": (i + j) % 2 == 0}


def normalise(nodes):
    """merge adjacent text nodes and keep '<' from meeting a letter or '/' across the seam"""
    out = []
    for n in nodes:
        if n[0] == "t" and out and out[-1][0] == "t":
            a, b = out[-1][1], n[1]
            if a.endswith("<") and b and (b[0].isalpha() or b[0] == "/"):
                b = " " + b
            out[-1] = ["t", a + b]
        elif n[0] == "t" and not n[1]:
            continue
        else:
            out.append(n)
    return out


def well_formed_text(nodes):
    """generator invariant, re-checked on shrunk cases: no text creates a tag of its own"""
    for i, n in enumerate(nodes):
        if n[0] == "t":
            if "\\" in n[1] or ESC in n[1]:
                return False
            for k, ch in enumerate(n[1]):
                if ch == "<" and k + 1 < len(n[1]) and (n[1][k + 1].isalpha() or n[1][k + 1] == "/"):
                    return False
            if n[1].endswith("<") and i + 1 < len(nodes) and nodes[i + 1][0] == "t":
                return False
        elif n[0] == "s" and not well_formed_text(n[3]):
            return False
    return True


FIXED_TEXTS = [
    [["t", "plain line"]],
    [["t", "a\nb\n\nc"]],
    [["t", "first\n"], ["s", "info", "info", [["t", "green\nstill green"]], {"name": "info"}], ["t", "\nlast\n"]],
    [["s", "fg=red;options=bold", "", [["t", "é日本\n"], ["s", "b", "b", [["t", "x"]], {"name": "b"}]],
      {"fg": "red", "opts": ["bold"]}], ["t", " < > \n\n"]],
    [["t", "\n\nlead"], ["u", "<foo>"], ["t", "tail\n\n\n"]],
    [["t", "x"], ["s", "error", "", [], {"name": "error"}], ["t", "\n"], ["s", "u", "u", [["t", "\n"]], {"name": "u"}]],
]

STYLE_POOL = [{"fg": "blue", "bg": None, "attrs": []}, {"fg": None, "bg": "white", "attrs": ["bold"]},
              {"fg": "red", "bg": "black", "attrs": ["underlined", "hidden"]}, {"fg": None, "bg": None, "attrs": []},
              {"fg": None, "bg": None, "attrs": ["italic", "dark", "blinking", "inverse"]}]

OBJ_METHODS = {
    "io": ["write", "write_line", "write_raw", "write_line_raw", "error", "error_line", "error_raw", "error_line_raw"],
    "output": ["write", "write_line", "write_raw", "write_line_raw"],
    "error_output": ["write", "write_line", "write_raw", "write_line_raw"],
    "section": ["write", "write_line", "write_raw", "write_line_raw", "overwrite"],
}
FMTS = ["ansi", "ansi_unforced", "plain", "null"]
UNDECORATED = ["ansi_unforced", "plain", "null"]
GATES = [(False, 0, None), (False, 0, None), (False, 0, None), (False, 1, 1), (False, 0, 1), (True, 0, None),
         (False, 2, 6), (False, 0, 0)]
LINE_METHODS = {"write_line", "write_line_raw", "error_line", "error_line_raw", "overwrite"}
RAW_METHODS = {"write_raw", "write_line_raw", "error_raw", "error_line_raw"}


# --------------------------------------------------------------------------- scope programs
def prog_depth(stmts):
    d = 0
    for s in stmts:
        if "scope" in s:
            d = max(d, 1 + prog_depth(s["body"]))
        elif "try" in s:
            d = max(d, prog_depth(s["try"]))
    return d


def chain_prog(levels, variant):
    """levels = [(target, inc, n), ...] outermost first; variant 0 = normal exit, 1 = uncaught raise at the
    innermost level, k >= 2 = raise at the innermost level caught around level k-2"""
    d = len(levels)

    def build(i):
        if i == d:
            body = [{"w": "in%d\nx" % i, "err": i % 2 == 1}]
            if variant >= 1:
                body.append({"raise": True})
                body.append({"w": "unreachable", "err": False})
            return body
        t, inc, n = levels[i]
        scope = {"scope": t, "inc": inc, "n": n, "body": build(i + 1)}
        inner = [{"try": [scope]}] if variant >= 2 and variant - 2 == i else [scope]
        return [{"w": "pre%d" % i, "err": i % 2 == 0}] + inner + [{"w": "post%d\n\ny" % i, "err": i % 2 == 1},
                                                                   {"w": "both%d" % i, "err": i % 2 == 0}]
    return build(0)


def gen_prog(rng, depth, width):
    out = []
    for _ in range(rng.randint(1, width)):
        r = rng.random()
        if r < 0.4 or depth <= 0:
            out.append({"w": rng.choice(["a", "b\nc", "\nd", "e\n\nf\n", "", "ü日"]), "err": rng.random() < 0.4})
        elif r < 0.85:
            out.append({"scope": rng.choice(["io", "io", "out", "err"]), "inc": rng.random() < 0.5,
                        "n": rng.choice([0, 1, 2, 3, 4]), "body": gen_prog(rng, depth - 1, width)})
        elif r < 0.93:
            out.append({"try": gen_prog(rng, depth, max(1, width - 1))})
        else:
            out.append({"raise": True})
    return out


# --------------------------------------------------------------------------- scope programs over several sections
SEC_WIDTH = 80          # COLUMNS for the secprog family: no generated line wraps
SEC_TEXTS = [["%s"], ["%s", ""], ["", "%s"], ["%sa", "%sb"], [""]]


def _sec_lines(serial, shape):
    return [(t % ("l%d" % serial)) if t else "" for t in SEC_TEXTS[shape % len(SEC_TEXTS)]]


def secprog_table():
    """the structured part: 2-3 sections showing 0 / 1 / 2 lines each (written at indentation 0 or inside a scope of
    their own), then an operation on an EARLIER section inside a scope on it (set 4 / increment 1 / set 2 + increment 3),
    then one more write on it after the scope; through Output.section() and through IO.section(); the output itself at
    indentation 0 or 2 when the sections are created"""
    for via in ("out", "io"):
        for out0 in (0, 2):
            for nsec in (2, 3):
                for upper in range(nsec - 1):
                    for fill in itertools.product((0, 1, 2), repeat=nsec):
                        for lower_ind in (0, 3):
                            for variant in range(3):
                                for op in ("write", "overwrite", "clear", "clearN"):
                                    prog = [{"create": True} for _ in range(nsec)]
                                    serial = 0
                                    for i in range(nsec - 1, -1, -1):       # the later-created sections show lines first
                                        if fill[i]:
                                            serial += 1
                                            w = {"op": "write", "sec": i, "lines": _sec_lines(serial, 0 if fill[i] == 1 else 1 + (i + serial) % 3)}
                                            if lower_ind and i != upper:
                                                w = {"scope": "sec", "i": i, "inc": False, "n": lower_ind, "body": [w]}
                                            prog.append(w)
                                    serial += 1
                                    act = {"op": op, "sec": upper}
                                    if op in ("write", "overwrite"):
                                        act["lines"] = _sec_lines(serial, variant)
                                    if op == "clearN":
                                        act["n"] = 1
                                    if variant == 0:
                                        prog.append({"scope": "sec", "i": upper, "inc": False, "n": 4, "body": [act]})
                                    elif variant == 1:
                                        prog.append({"scope": "sec", "i": upper, "inc": True, "n": 1, "body": [act]})
                                    else:
                                        prog.append({"scope": "sec", "i": upper, "inc": False, "n": 2, "body": [
                                            {"scope": "sec", "i": upper, "inc": True, "n": 3, "body": [act]}]})
                                    prog.append({"op": "write", "sec": upper, "lines": _sec_lines(serial + 1, 0)})
                                    yield {"k": "secprog", "fmt": "ansi", "via": via, "out": out0, "prog": prog}


def gen_secprog(rng, depth, width, st):
    """random program; `st["k"]`: sections created so far (generation order = execution order: nothing is generated
    behind a raise).  Returns (statements, an exception leaves the block)"""
    out = []
    for _ in range(rng.randint(1, width)):
        r = rng.random()
        k = st["k"]
        if k == 0 or (r < 0.12 and k < 3):
            out.append({"create": True})
            st["k"] += 1
        elif r < 0.55 or depth <= 0:
            st["serial"] += 1
            i = rng.randrange(k)
            x = rng.random()
            if x < 0.6:
                out.append({"op": "write", "sec": i, "lines": _sec_lines(st["serial"], rng.randrange(5))})
            elif x < 0.8:
                out.append({"op": "overwrite", "sec": i, "lines": _sec_lines(st["serial"], rng.randrange(5))})
            elif x < 0.9:
                out.append({"op": "clear", "sec": i})
            else:
                out.append({"op": "clearN", "sec": i, "n": rng.choice([1, 1, 2, 3])})
        elif r < 0.88:
            sc = {"scope": "out"} if rng.random() < 0.25 else {"scope": "sec", "i": rng.randrange(k)}
            sc.update(inc=rng.random() < 0.5, n=rng.choice([0, 1, 2, 3, 5]))
            body, raised = gen_secprog(rng, depth - 1, width, st)
            sc["body"] = body
            out.append(sc)
            if raised:
                return out, True
        elif r < 0.95:
            body, _ = gen_secprog(rng, depth, max(1, width - 1), st)
            out.append({"try": body})
        else:
            out.append({"raise": True})
            return out, True
    return out, False


# --------------------------------------------------------------------------- generation
def sgr_case(i):
    route = ["tag", "add", "call"][i % 3]
    i //= 3
    bits = i % 128
    i //= 128
    bg = TABLE_COLORS[i % 10]
    fg = TABLE_COLORS[i // 10]
    return {"k": "sgr", "fg": fg, "bg": bg, "attrs": [a for k, a in enumerate(ATTRS) if bits >> k & 1], "route": route}


# a style passed for a SINGLE CALL that carries a TAG: how the tag is known to the formatter the call goes to
#   set / add            a DIFFERENT style is registered under the tag (style set / add_style), the call passes a fresh one
#   same_set / same_add  the SAME Style object was registered and is adjusted afterwards (the registration is a snapshot)
#   default / builtin    the tag of a style of the default style set / of one pastel registers itself
#   unregistered         a tag nobody knows
# "via": the entry point that takes the style (AnsiFormatter.format, Output.format, IO.format)
CTAG_HOW = ["set", "add", "same_set", "same_add", "default", "builtin", "unregistered"]
CTAG_VIA = ["formatter", "output", "io"]
BUILTIN_TAGS = ["error", "info", "comment", "question"]


def ctag_case(j, combo):
    """style j of the table passed for a single call, tagged; `reg`: the style registered under the tag, which
    differs from the passed one in the foreground colour or in exactly one attribute"""
    c = sgr_case(3 * j)
    how, via = CTAG_HOW[combo % len(CTAG_HOW)], CTAG_VIA[(combo // len(CTAG_HOW)) % len(CTAG_VIA)]
    c.update(route="ctag", how=how, via=via)
    if how in ("set", "add", "same_set", "same_add"):
        c["tag"] = "zz"
        if j % 2 == 0:
            c["reg"] = {"fg": TABLE_COLORS[(TABLE_COLORS.index(c["fg"]) + 3) % 10], "bg": c["bg"], "attrs": list(c["attrs"])}
        else:
            a = ATTRS[(j // 2) % len(ATTRS)]
            c["reg"] = {"fg": c["fg"], "bg": c["bg"], "attrs": sorted(set(c["attrs"]) ^ {a}, key=ATTRS.index)}
    else:
        c["reg"] = None
        c["tag"] = {"default": NAMED[j % len(NAMED)], "builtin": BUILTIN_TAGS[j % 4], "unregistered": "nobody"}[how]
    return c


def generate(tier, rng):
    thorough = tier == "thorough"
    seed_shift = rng.randrange(8)
    # ---- single-call styles that carry a tag (registered with other attributes, built in, unknown)
    ncombo = len(CTAG_HOW) * len(CTAG_VIA)
    for j in range(10 * 10 * 128):
        few = len(sgr_case(3 * j)["attrs"]) <= 1
        if thorough or (j + seed_shift) % 8 == 0 or few:
            bits = j % 128
            yield ctag_case(j, (bits + 5 * (j // 128) + seed_shift) % ncombo)
            if thorough and few:
                for combo in range(ncombo):
                    yield ctag_case(j, combo)
    # ---- style table
    for i in range(10 * 10 * 128 * 3):
        c = sgr_case(i)
        if thorough or (i // 3 + seed_shift) % 8 == 0 or len(c["attrs"]) == 1:
            yield c
            if len(c["attrs"]) <= 2 and (i // 3) % 5 == 0:
                yield dict(c, toggle=True)
    # ---- writing methods
    idx = 0
    for obj, methods in sorted(OBJ_METHODS.items()):
        for meth in methods:
            for fmt in FMTS:
                for indent in range(5):
                    for ti, ast_ in enumerate(FIXED_TEXTS):
                        q, v, f = GATES[idx % len(GATES)] if idx % 3 == 0 else GATES[0]
                        idx += 1
                        yield {"k": "write", "obj": obj, "method": meth, "fmt": fmt, "indent": indent, "ast": ast_,
                               "quiet": q, "verbosity": v, "flags": f}
    for _ in range(30000 if thorough else 1000):
        obj = rng.choice(sorted(OBJ_METHODS))
        q, v, f = rng.choice(GATES)
        yield {"k": "write", "obj": obj, "method": rng.choice(OBJ_METHODS[obj]), "fmt": rng.choice(FMTS),
               "indent": rng.randint(0, 4), "ast": gen_nodes(rng, 3, 4), "quiet": q, "verbosity": v, "flags": f}
    # ---- undecorated section outputs with a history: clear() / overwrite() after a write degrade to plain
    # appended lines without control codes
    for fmt in UNDECORATED:
        for n in (0, 2):
            for a in FIXED_TEXTS[:4]:
                for b in FIXED_TEXTS[:3]:
                    for mid in (["clear", None], ["clear", 1], None):
                        for last in ("overwrite", "write_line", "write"):
                            ops = [["write_line", a]] + ([mid] if mid else []) + [[last, b]]
                            yield {"k": "secseq", "fmt": fmt, "indent": n, "ops": ops}
    for _ in range(20000 if thorough else 1500):
        ops = []
        for _ in range(rng.randint(2, 6)):
            r = rng.random()
            if r < 0.3:
                ops.append(["clear", rng.choice([None, None, 1, 2, 5])])
            else:
                ops.append([rng.choice(OBJ_METHODS["section"]), gen_nodes(rng, 2, 3)])
        yield {"k": "secseq", "fmt": rng.choice(UNDECORATED), "indent": rng.randint(0, 3), "ops": ops}
    # ---- scopes
    per_level = [(t, inc, n) for t in ("io", "out", "err") for inc in (False, True) for n in (1, 3)]
    k = 0
    for d in range(1, (4 if thorough else 3) + 1):
        for levels in itertools.product(per_level, repeat=d):
            k += 1
            yield {"k": "scopes", "prog": chain_prog(list(levels), k % (d + 2)), "out": 0, "err": 0}
    for _ in range(30000 if thorough else 1000):
        yield {"k": "scopes", "prog": gen_prog(rng, 4 if thorough else 3, 3),
               "out": rng.choice([0, 0, 2]), "err": rng.choice([0, 0, 1])}
    # ---- indentation scopes over several sections (re-draws of the sections shown below)
    for j, c in enumerate(secprog_table()):
        if thorough or (j + seed_shift) % 4 == 0:
            yield c
            if (j + seed_shift) % 24 == 0:
                yield dict(c, fmt="plain")
    for j in range(20000 if thorough else 1200):
        st = {"k": 0, "serial": 0}
        head = []
        for _ in range(rng.choice([1, 2, 2, 3, 3])):
            # some sections are created inside a scope on the output: they inherit its indentation
            head.append({"create": True} if rng.random() < 0.7 else
                        {"scope": "out", "inc": rng.random() < 0.5, "n": rng.choice([1, 2, 4]), "body": [{"create": True}]})
            st["k"] += 1
        prog, _ = gen_secprog(rng, 3, 4, st)
        prog = head + prog
        yield {"k": "secprog", "fmt": "plain" if j % 8 == 7 else "ansi", "via": rng.choice(["out", "io"]),
               "out": rng.choice([0, 0, 1, 3]), "prog": prog}
    # ---- formatters built from a given style set (sizes 0, 1, 2, ...)
    for c in sset_table():
        yield c
    for _ in range(40000 if thorough else 2500):
        yield gen_sset_case(rng)
    # ---- malformed stream
    for _ in range(20000 if thorough else 1000):
        yield {"k": "bad", "msg": gen_bad(rng)}
    # ---- messages
    for _ in range(400000 if thorough else 25000):
        pre = [rng.choice(NAMED) for _ in range(rng.choice([0, 0, 0, 0, 1, 2]))]
        style = rng.choice(STYLE_POOL) if rng.random() < 0.25 else None
        if style is not None:
            # the style of the call may carry a tag: registered (default style set), unknown, none
            tag = rng.choice([None, None, "nobody"] + NAMED)
            if tag is not None:
                style = dict(style, tag=tag)
        yield {"k": "msg", "ast": gen_nodes(rng, 4, 4), "pre": pre, "style": style}


def gen_bad(rng):
    parts = []
    for _ in range(rng.randint(1, 7)):
        r = rng.random()
        if r < 0.3:
            parts.append(rng.choice(["a", "bc", " ", "\n", "x<y", "é"]))
        elif r < 0.6:
            parts.append("<%s>" % rng.choice(NAMED + ["fg=red", "options=bold", "fg=purple", "bg=nope;fg=red", "foo"]))
        elif r < 0.9:
            parts.append("</%s>" % rng.choice(NAMED + ["fg=red", "options=bold", "fg=purple", "foo", "c1"]))
        else:
            parts.append("</>")
    return "".join(parts)


def exhaustive(tier):
    return False   # the sgr / write / scope-chain families are complete products, the message stream is sampled


# --------------------------------------------------------------------------- running the implementation
def _style_obj(spec, tag=None):
    from clikit.api.formatter import Style
    st = Style(tag)
    if spec.get("fg") is not None:
        st.fg(spec["fg"])
    if spec.get("bg") is not None:
        st.bg(spec["bg"])
    for a in spec["attrs"]:
        getattr(st, a)()
    if spec.get("toggle"):
        # setters are idempotent switches: on twice is on, on-on-off is off, whatever was set before
        for a in ATTRS:
            if a in spec["attrs"]:
                getattr(st, a)()
            else:
                getattr(st, a)()
                getattr(st, a)()
                getattr(st, a)(False)
    return st


def _guard(fn):
    try:
        return fn()
    except Exception as e:  # noqa: BLE001 - the class name is the observation
        return {"err": type(e).__name__}


def _fmt_depth(f):
    return len(f._formatter._style_stack.styles)


def _build_sset(sset, seen=None):
    from clikit.api.formatter import StyleSet
    from clikit.formatter import DefaultStyleSet
    ss = StyleSet() if sset["base"] == "empty" else DefaultStyleSet()
    for t in sset["remove"]:
        ss.remove(t)
    if seen is not None:
        # the hypothesis of Props.C11.style_set_emptied read off the real object: no style is left after the removals
        seen.append(len(ss.styles) == 0)
    for a in sset["add"]:
        ss.add(_style_obj(a, a["tag"]))
    return ss


def _run_msg(case):
    from clikit.formatter import AnsiFormatter, PlainFormatter
    raw = raw_of(case["ast"])
    pre = "".join("<%s>" % t for t in case["pre"])
    style = _style_obj(case["style"], case["style"].get("tag")) if case["style"] is not None else None
    emptied = []
    try:
        if case.get("sset") is not None:
            # both formatters are built from the style set the case describes: one StyleSet object for both, or one each
            ss = _build_sset(case["sset"], emptied)
            af = AnsiFormatter(ss, forced=True)
            pf = PlainFormatter(ss if case.get("shared") else _build_sset(case["sset"]))
        else:
            af, pf = AnsiFormatter(forced=True), PlainFormatter()
        if pre:
            af.format(pre)
            pf.format(pre)
    except Exception as e:  # noqa: BLE001
        return {"ctor": type(e).__name__}

    def one(f, call):
        def go():
            out = call()
            return {"out": out, "depth": _fmt_depth(f)}
        return _guard(go)
    res = {"ansi": one(af, lambda: af.format(raw, style)),
           "removed": one(af, lambda: af.remove_format(raw)),
           "plain": one(pf, lambda: pf.format(raw))}
    if emptied:
        res["emptied"] = emptied[0]       # compared with the model's decider `emptiesB` (field `emptied` of c11.render)
    return res


def _run_bad(case):
    from clikit.formatter import AnsiFormatter, PlainFormatter
    msg = case["msg"]

    def one(mk):
        def go():
            f = mk()
            out = f.format(msg)
            return {"out": out, "depth": _fmt_depth(f)}
        return _guard(go)
    return {"ansi": one(lambda: AnsiFormatter(forced=True)), "plain": one(PlainFormatter)}


SGR_TEXT = "Tx"


def _adjust(st, spec):
    """bring an existing Style object to `spec` through its public setters"""
    st.fg(spec.get("fg"))
    st.bg(spec.get("bg"))
    for a in ATTRS:
        getattr(st, a)(a in spec["attrs"])
    return st


def _run_ctag(case):
    from clikit.formatter import AnsiFormatter, PlainFormatter
    from clikit.api.formatter import StyleSet
    from clikit.api.io import Output
    from clikit.io.buffered_io import BufferedIO
    from clikit.io.output_stream import BufferedOutputStream
    how, via, tag = case["how"], case["via"], case["tag"]

    def go(cls, kw):
        reg = _style_obj(case["reg"], tag) if case["reg"] is not None else None
        if how in ("set", "same_set"):
            f = cls(StyleSet([reg]), **kw)
        elif how == "builtin":
            f = cls(StyleSet([]), **kw)
        else:
            f = cls(**kw)
            if reg is not None:
                f.add_style(reg)
        st = _adjust(reg, case) if how.startswith("same") else _style_obj(case, tag)
        if via == "formatter":
            return {"out": f.format(SGR_TEXT, st)}
        if via == "output":
            return {"out": Output(BufferedOutputStream(), f).format(SGR_TEXT, st)}
        return {"out": BufferedIO(formatter=f).format(SGR_TEXT, style=st)}
    return {"ansi": _guard(lambda: go(AnsiFormatter, {"forced": True})), "plain": _guard(lambda: go(PlainFormatter, {}))}


def _run_sgr(case):
    from clikit.formatter import AnsiFormatter, PlainFormatter
    from clikit.api.formatter import StyleSet
    route = case["route"]
    if route == "ctag":
        return _run_ctag(case)

    def go(cls, kw):
        if route == "call":
            return {"out": cls(**kw).format(SGR_TEXT, _style_obj(case))}
        st = _style_obj(case, "zz")
        if route == "tag":
            f = cls(StyleSet([st]), **kw)
        else:
            f = cls(**kw)
            f.add_style(st)
        return {"out": f.format("<zz>%s</zz>" % SGR_TEXT)}
    out = {"ansi": _guard(lambda: go(AnsiFormatter, {"forced": True})), "plain": _guard(lambda: go(PlainFormatter, {}))}
    if route == "add":
        # a style added LATER: the formatter has already rendered and stripped messages when the style arrives
        def late(cls, kw, strip):
            f = cls(**kw)
            f.format("<b>warm</b> up")
            f.remove_format("<b>warm</b> up")
            f.add_style(_style_obj(case, "zz"))
            msg = "<zz>%s</zz>" % SGR_TEXT
            return {"out": f.remove_format(msg) if strip else f.format(msg)}
        out["late"] = {"ansi": _guard(lambda: late(AnsiFormatter, {"forced": True}, False)),
                       "ansi_removed": _guard(lambda: late(AnsiFormatter, {"forced": True}, True)),
                       "unforced_removed": _guard(lambda: late(AnsiFormatter, {}, True)),
                       "plain": _guard(lambda: late(PlainFormatter, {}, False)),
                       "plain_removed": _guard(lambda: late(PlainFormatter, {}, True))}
    return out


def _formatter(name):
    from clikit.formatter import AnsiFormatter, PlainFormatter, NullFormatter
    return {"ansi": lambda: AnsiFormatter(forced=True), "ansi_unforced": AnsiFormatter,
            "plain": PlainFormatter, "null": NullFormatter}[name]()


def _run_write(case):
    from clikit.io.buffered_io import BufferedIO

    def go():
        io = BufferedIO(formatter=_formatter(case["fmt"]))
        raw = raw_of(case["ast"])
        obj, n = case["obj"], case["indent"]
        if obj == "io":
            target, scope = io, io.indent(n)
        elif obj == "output":
            target, scope = io.output, io.output.indent(n)
        elif obj == "error_output":
            target, scope = io.error_output, io.error_output.indent(n)
        else:
            with io.output.indent(n):
                target = io.output.section()          # a section takes over the indentation of its output
            scope = io.output.indent(0)
        target.set_quiet(case["quiet"])
        target.set_verbosity(case["verbosity"])
        fn = getattr(target, case["method"])
        with scope:
            if case["method"] == "overwrite":
                fn(raw)
            else:
                fn(raw, flags=case["flags"])
        return {"out": io.fetch_output(), "err": io.fetch_error()}
    return _guard(go)


def _run_secseq(case):
    from clikit.io.buffered_io import BufferedIO

    def go():
        io = BufferedIO(formatter=_formatter(case["fmt"]))
        with io.output.indent(case["indent"]):
            sec = io.output.section()
        for op, arg in case["ops"]:
            if op == "clear":
                sec.clear(arg)
            else:
                getattr(sec, op)(raw_of(arg))
        return {"out": io.fetch_output(), "err": io.fetch_error()}
    return _guard(go)


class _Boom(Exception):
    pass


def _run_scopes(case):
    from clikit.io.buffered_io import BufferedIO
    io = BufferedIO()
    io.output.indent(case["out"])
    io.error_output.indent(case["err"])

    def run(stmts):
        for s in stmts:
            if "w" in s:
                (io.error_line if s["err"] else io.write_line)(s["w"])
            elif "scope" in s:
                tgt = {"io": io, "out": io.output, "err": io.error_output}[s["scope"]]
                cm = tgt.increment_indent(s["n"]) if s["inc"] else tgt.indent(s["n"])
                with cm:
                    run(s["body"])
            elif "try" in s:
                try:
                    run(s["try"])
                except _Boom:
                    pass
            else:
                raise _Boom()

    def go():
        raised = False
        try:
            run(case["prog"])
        except _Boom:
            raised = True
        return {"out": io.fetch_output(), "err": io.fetch_error(), "raised": raised,
                "indent": [io.output._indent, io.error_output._indent]}
    return _guard(go)


def _run_secprog(case):
    from clikit.io.buffered_io import BufferedIO
    os.environ["COLUMNS"] = str(SEC_WIDTH)
    os.environ.pop("LINES", None)
    io = BufferedIO(formatter=_formatter(case["fmt"]))
    via_io = case["via"] == "io"
    base = io if via_io else io.output
    base.indent(case["out"])                    # the indentation the output has from the start
    secs, steps, pos = [], [], [0]

    def sec_out(i):
        return secs[i].output if via_io else secs[i]

    def step():
        buf = io.fetch_output()
        steps.append({"bytes": buf[pos[0]:], "secs": [[sec_out(i).content, sec_out(i).lines] for i in range(len(secs))]})
        pos[0] = len(buf)

    def run(stmts):
        for s in stmts:
            if "create" in s:
                secs.append(base.section())
                step()
            elif "op" in s:
                o = sec_out(s["sec"])
                if s["op"] == "write":
                    (secs[s["sec"]] if via_io else o).write_line("\n".join(s["lines"]))
                elif s["op"] == "overwrite":
                    o.overwrite("\n".join(s["lines"]))
                elif s["op"] == "clear":
                    o.clear()
                else:
                    o.clear(s["n"])
                step()
            elif "scope" in s:
                tgt = base if s["scope"] == "out" else secs[s["i"]]
                cm = tgt.increment_indent(s["n"]) if s["inc"] else tgt.indent(s["n"])
                with cm:
                    run(s["body"])
            elif "try" in s:
                try:
                    run(s["try"])
                except _Boom:
                    pass
            else:
                raise _Boom()

    def go():
        raised = False
        try:
            run(case["prog"])
        except _Boom:
            raised = True
        # `width_seen`: the terminal width clikit itself reports for this run - the `w` of section_redraw_keeps_indent
        # (hypothesis 1 <= w; the driver refuses width 0) must be the width handed to the model (SEC_WIDTH)
        from clikit.utils.terminal import Terminal
        return {"steps": steps, "raised": raised, "err": io.fetch_error(),
                "indent": [io.output._indent] + [sec_out(i)._indent for i in range(len(secs))],
                "width_seen": Terminal().width}
    return _guard(go)


def run_impl(case):
    if case["k"] == "secprog":
        return _run_secprog(case)
    return {"msg": _run_msg, "bad": _run_bad, "sgr": _run_sgr, "write": _run_write, "scopes": _run_scopes,
            "secseq": _run_secseq}[case["k"]](case)


# --------------------------------------------------------------------------- the model side
_VANILLA = None


def _table(raw):
    """[[tag, tag.lower(), what a pastel instance without clikit's styles makes of it], ...]"""
    global _VANILLA
    from pastel import Pastel
    if _VANILLA is None:
        _VANILLA = Pastel(True)
    seen, out = set(), []
    for m in Pastel.FULL_TAG_REGEX.finditer(raw):
        tag = m.group(2) or m.group(3)
        if not tag or tag in seen:
            continue
        seen.add(tag)
        low = tag.lower()
        try:
            st = _VANILLA._create_style_from_string(low)
        except ValueError:
            entry = "invalid"
        else:
            if st is False:
                entry = None
            else:
                entry = {"fg": st._foreground, "bg": st._background,
                         "opts": [[k, v] for k, v in st._options.items()]}
        out.append([tag, low, entry])
    return out


def _style_json(spec, tag=None):
    return {"fg": spec.get("fg"), "bg": spec.get("bg"), "attrs": list(spec["attrs"]), "tag": tag}


def model_requests(case):
    k = case["k"]
    if k == "msg":
        raw = raw_of(case["ast"])
        tab = _table(raw)
        base = {"m": "c11.render", "msg": raw, "table": tab, "stack": case["pre"]}
        if case.get("sset") is not None:
            ss = case["sset"]
            base["styles"] = {"base": ss["base"], "remove": list(ss["remove"]),
                              "add": [_style_json(a, a["tag"]) for a in ss["add"]]}
        style = _style_json(case["style"], case["style"].get("tag")) if case["style"] is not None else None
        # "wf": the hypotheses of the message theorems (clean, balanced), decided by the model on this message
        return [dict(base, mode="ansi", style=style), dict(base, mode="plain", style=None, wf=True)]
    if k == "bad":
        base = {"m": "c11.render", "msg": case["msg"], "table": _table(case["msg"]), "stack": [], "style": None}
        return [dict(base, mode="ansi"), dict(base, mode="plain")]
    if k == "sgr" and case["route"] == "ctag":
        r = _style_json(case, case["tag"])
        r.update({"m": "c11.sgr", "text": SGR_TEXT, "route": "ctag",
                  "base": "pastel" if case["how"] in ("set", "same_set", "builtin") else "default",
                  "reg": _style_json(case["reg"], case["tag"]) if case["reg"] is not None else None})
        return [r]
    if k == "sgr":
        r = _style_json(case, "zz")
        r.update({"m": "c11.sgr", "text": SGR_TEXT, "route": case["route"]})
        return [r]
    if k == "write":
        raw = raw_of(case["ast"])
        obj = "output" if case["obj"] == "error_output" else case["obj"]
        return [{"m": "c11.write", "kind": obj, "method": case["method"], "fmt": case["fmt"], "stream_ansi": False,
                 "indent": case["indent"], "quiet": case["quiet"], "verbosity": case["verbosity"],
                 "flags": case["flags"], "text": raw, "table": _table(raw), "wf": True}]
    if k == "secseq":
        # without decoration a section is a plain output: every call appends what the same call writes on a
        # fresh section, clear() writes nothing
        return [{"m": "c11.write", "kind": "section", "method": op, "fmt": case["fmt"], "stream_ansi": False,
                 "indent": case["indent"], "quiet": False, "verbosity": 0, "flags": None, "text": raw_of(arg),
                 "table": _table(raw_of(arg))} for op, arg in case["ops"] if op != "clear"]
    if k == "secprog":
        return [{"m": "c11.secprog", "width": SEC_WIDTH, "ansi": case["fmt"] == "ansi", "out": case["out"],
                 "prog": case["prog"]}]
    return [{"m": "c11.scopes", "prog": case["prog"], "out": case["out"], "err": case["err"]}]


WF_TRUE = {"clean": True, "balanced": True}


def _wf(case, answer):
    """the model's verdict on the hypotheses of the message theorems; a text that is not a generated one
    (the generator invariant fails: only reachable by hand-made cases) is outside the claim"""
    if not well_formed_text(case["ast"]):
        return WF_TRUE
    return answer.get("wf")


def _ans(a):
    if "ok" in a:
        return a["ok"]
    return {"err": a["err"]}


def model_obs(case, answers):
    k = case["k"]
    if k == "msg":
        res = {"ansi": _ans(answers[0]), "plain": _ans(answers[1]), "removed": _ans(answers[1]),
               "wf": _wf(case, answers[1])}
        if case.get("sset") is not None and "emptied" in answers[1]:
            # the decider of the hypothesis of style_set_emptied (Props.C11.empties_decides) on this style set
            res["emptied"] = answers[1]["emptied"]
        return res
    if k == "bad":
        return {"ansi": _ans(answers[0]), "plain": _ans(answers[1])}
    if k == "sgr":
        a = _ans(answers[0])
        return {"ansi": {"out": a["out"]} if "out" in a else a, "spec": answers[0].get("spec")}
    if k == "write":
        a = _ans(answers[0])
        wf = _wf(case, answers[0])
        if "err" in a and "out" not in a:
            return dict(a, wf=wf)
        if case["obj"] == "error_output":
            return {"out": "", "err": a["out"], "wf": wf}
        return {"out": a["out"], "err": a["err"], "wf": wf}
    if k == "secseq":
        out = []
        for x in answers:
            a = _ans(x)
            if "err" in a and "out" not in a:
                return a
            out.append(a["out"])
        return {"out": "".join(out), "err": ""}
    a = answers[0]
    if k == "secprog":
        # "lexical": the base section model on the lexical reading of the program gives the same sections and the
        # same stream (Props.C11.section_scopes_lexical / section_redraw_keeps_indent)
        return {"steps": [{"bytes": st["bytes"],
                           "secs": [["".join(l + "\n" for l in x["content"]), x["rows"]] for x in st["secs"]]}
                          for st in a["steps"]],
                "raised": a["raised"], "indent": a["indent"], "err": "", "lexical": a["lexical"],
                "width_seen": SEC_WIDTH}
    return {"out": a["out"], "err": a["err"], "raised": a["raised"], "indent": a["indent"]}


def impl_view(case, obs):
    if case["k"] == "sgr":
        # "spec": the codes the Lean specification (hypothesis of sgr_exact) demands = the oracle's own table
        attrs = sorted(case["attrs"], key=ATTRS.index)
        return {"ansi": obs["ansi"], "spec": spec_codes(case["fg"], case["bg"], attrs)}
    if case["k"] in ("msg", "write"):
        # every generated message is clean (no ESC, no backslash) and balanced: the model must decide so
        return dict(obs, wf=WF_TRUE)
    if case["k"] == "secprog" and "steps" in obs:
        return dict(obs, lexical=True)
    return obs


# --------------------------------------------------------------------------- the property statement
def _lowest(flags):
    f = flags or 0
    for lvl in (1, 2, 4):
        if f & lvl:
            return lvl
    return 0


def _expect_lines(raw, text, n):
    """indentation in force n: raw (with tags) and tag-stripped text, line by line -> expected visible text"""
    rl, tl = raw.split("\n"), text.split("\n")
    if len(rl) != len(tl):
        return None
    return "\n".join((" " * n + t) if r else t for r, t in zip(rl, tl))


def _sset_ast_ok(nodes, sset):
    for n in nodes:
        if n[0] == "s":
            if "name" in n[4] and denoted(n[4]["name"], sset) is None:
                return False
            if not _sset_ast_ok(n[3], sset):
                return False
        elif n[0] == "u":
            m = re.match(r"</?([^<>]*)>$", n[1])
            if m and denoted(m.group(1), sset) is not None:
                return False
    return True


def _oracle_msg(case, obs):
    sset = case.get("sset")
    if "ctor" in obs:
        return "a formatter with %s cannot be built: %s" % (
            "the default style set" if sset is None else "a style set of %d style(s)" % sset_size(sset), obs["ctor"])
    ast_ = case["ast"]
    if sset is not None and not _sset_ast_ok(ast_, sset):
        return None      # not a generated case: a style node whose tag denotes no style under this style set
    raw, text = raw_of(ast_), text_of(ast_)
    for name in ("ansi", "plain", "removed"):
        if "err" in obs[name]:
            return "%s rendering of a balanced message raised %s" % (name, obs[name]["err"])
        if obs[name]["depth"] != len(case["pre"]):
            return "%s rendering of a balanced message changed the style stack depth %d -> %d" % (
                name, len(case["pre"]), obs[name]["depth"])
    ansi, plain, removed = obs["ansi"]["out"], obs["plain"]["out"], obs["removed"]["out"]
    if strip_ansi(ansi) != text:
        return "decorated rendering with the escape sequences stripped differs from the tag-stripped text"
    if plain != text:
        return "plain rendering differs from the tag-stripped text"
    if removed != text:
        return "remove_format differs from the tag-stripped text"
    if ESC in plain or ESC in removed:
        return "an undecorated rendering contains an escape byte"
    for tag in (NAMED if sset is None else sorted(registered_codes(sset))):
        for mk in ("<%s>" % tag, "</%s>" % tag):
            if mk in plain and mk not in text:
                return "undecorated output shows the markup %s of a registered style" % mk
    if case["pre"]:
        return None      # a stack left over by an earlier unbalanced message: only "same text" is demanded
    # the look: every character carries exactly the codes of the innermost style around it (a tag that denotes no style
    # in a formatter built from this style set is text and brings no code)
    want = expected_look(ast_, frozenset(codes_of_spec(case["style"])), sset)
    got = look(ansi)
    if got is None:
        return "decorated rendering contains a malformed escape sequence"
    if got != want:
        for i, (g, w) in enumerate(zip(got, want)):
            if g != w:
                return "character %d %r is rendered with codes %s, its style demands %s" % (
                    i, g[0], sorted(g[1]), sorted(w[1]))
        return "decorated rendering shows different text"
    return None


def _oracle_sgr(case, obs):
    want = spec_codes(case["fg"], case["bg"], case["attrs"])
    a = obs["ansi"]
    if "err" in a:
        return "style %s through %s raised %s" % (_style_json(case), case["route"], a["err"])
    out = a["out"]
    if not want:
        if out != SGR_TEXT:
            return "a style without colour and attribute changed the text: %r" % out
    else:
        m = re.fullmatch(r"\x1b\[([0-9;]*)m(.*)\x1b\[0m", out, re.S)
        if not m or m.group(2) != SGR_TEXT:
            return "style through %s: expected ESC[<codes>m%sESC[0m, got %r" % (case["route"], SGR_TEXT, out)
        got = [int(p) for p in m.group(1).split(";") if p != ""]
        if sorted(got) != sorted(want):
            return "style through %s rendered with codes %s, required %s" % (case["route"], got, sorted(want))
    p = obs["plain"]
    if "err" in p:
        return "plain formatter raised %s" % p["err"]
    if p["out"] != SGR_TEXT:
        return "plain formatter changed the text: %r" % p["out"]
    late = obs.get("late")
    if late is not None:
        if late["ansi"] != a:
            return "a style added after the formatter was used renders %r, added before its first use %r" % (late["ansi"], a)
        for k in ("ansi_removed", "unforced_removed", "plain", "plain_removed"):
            if late[k] != {"out": SGR_TEXT}:
                return "style added after the formatter was used: undecorated rendering (%s) gives %r, required %r" % (
                    k, late[k], SGR_TEXT)
    return None


def _oracle_write(case, obs):
    if "err" in obs and "out" not in obs:
        return "%s.%s raised %s" % (case["obj"], case["method"], obs["err"])
    meth, obj, fmt, n = case["method"], case["obj"], case["fmt"], case["indent"]
    to_err = obj == "error_output" or meth.startswith("error")
    data, other = (obs["err"], obs["out"]) if to_err else (obs["out"], obs["err"])
    if other:
        return "bytes on the wrong stream"
    flags = None if meth == "overwrite" else case["flags"]
    if case["quiet"] or case["verbosity"] < _lowest(flags):
        return None if data == "" else "gated write reached the stream"      # C10's subject
    raw = raw_of(case["ast"])
    if meth in RAW_METHODS:
        want = raw.rstrip("\n") + "\n" if meth in LINE_METHODS else raw
        if data != want:
            return "%s.%s(%r) wrote %r, required %r" % (obj, meth, raw, data, want)
        return None
    decorated = fmt == "ansi"
    if not decorated and ESC in data:
        return "an undecorated output emitted an escape byte"
    visible = strip_ansi(data) if decorated else data
    text = raw if fmt == "null" else text_of(case["ast"])
    body = _expect_lines(raw, text, n)
    if body is None:
        return "harness: raw and stripped text have different line counts"
    if meth in LINE_METHODS:
        if visible != body + "\n":
            return "%s.%s: %r is not the indented text followed by exactly one newline (%r)" % (
                obj, meth, visible, body + "\n")
    else:
        ok = visible == body or (obj == "section" and decorated and visible == body + "\n")
        if not ok:
            return "%s.%s: wrote %r, required %r" % (obj, meth, visible, body)
    if fmt not in ("ansi", "null"):
        for tag in NAMED:
            for mk in ("<%s>" % tag, "</%s>" % tag):
                if mk in data and mk not in text:
                    return "undecorated output shows the markup %s of a registered style" % mk
    return None


def _oracle_secseq(case, obs):
    if "err" in obs and "out" not in obs:
        return "section history raised %s" % obs["err"]
    if obs["err"]:
        return "bytes on the wrong stream"
    data = obs["out"]
    if ESC in data:
        return "an undecorated section output emitted an escape byte: %r" % data
    want = []
    for op, arg in case["ops"]:
        if op == "clear":
            continue
        raw = raw_of(arg)
        if op in RAW_METHODS:
            want.append(raw.rstrip("\n") + "\n" if op in LINE_METHODS else raw)
            continue
        text = raw if case["fmt"] == "null" else text_of(arg)
        body = _expect_lines(raw, text, case["indent"])
        if body is None:
            return "harness: raw and stripped text have different line counts"
        want.append(body + "\n" if op in LINE_METHODS else body)
    if data != "".join(want):
        return "undecorated section: wrote %r, required the plain appended lines %r" % (data, "".join(want))
    return None


def _oracle_scopes(case, obs):
    if "err" in obs and "out" not in obs:
        return "scope program raised %s" % obs["err"]
    out = {False: [], True: []}

    def indent(n, s):
        return "\n".join((" " * n + l) if l else l for l in s.split("\n")) + "\n"

    def walk(stmts, io, ie):
        """indentation is handed down only: a scope cannot leak into what follows it"""
        for s in stmts:
            if "w" in s:
                out[s["err"]].append(indent(ie if s["err"] else io, s["w"]))
            elif "scope" in s:
                f = (lambda x: x + s["n"]) if s["inc"] else (lambda x: s["n"])
                t = s["scope"]
                if walk(s["body"], f(io) if t in ("io", "out") else io, f(ie) if t in ("io", "err") else ie):
                    return True
            elif "try" in s:
                walk(s["try"], io, ie)
            else:
                return True
        return False
    raised = walk(case["prog"], case["out"], case["err"])
    if obs["indent"] != [case["out"], case["err"]]:
        return "indentation after the program is %s, before it was %s" % (obs["indent"], [case["out"], case["err"]])
    if obs["raised"] != raised:
        return "exception propagation differs"
    if obs["out"] != "".join(out[False]):
        return "standard output: lines are not indented by their enclosing scopes: %r, required %r" % (
            obs["out"], "".join(out[False]))
    if obs["err"] != "".join(out[True]):
        return "error output: lines are not indented by their enclosing scopes: %r, required %r" % (
            obs["err"], "".join(out[True]))
    return None


def _secprog_walk(case):
    """the program read LEXICALLY (indentation handed down by the enclosing scopes, never handed back): for every
    executed create / operation the lines every section holds afterwards as (indentation in force when the line was
    written, text); the indentations at the end; whether an exception leaves the program"""
    snaps, holds, written = [], [], []

    def snap():
        snaps.append([list(h) for h in holds])

    def walk(stmts, out, ind):
        # `ind`: indentation of every section here; sections created inside are appended for the caller too
        for s in stmts:
            if "create" in s:
                ind.append(out)
                holds.append([])
                snap()
            elif "op" in s:
                i, n = s["sec"], ind[s["sec"]]
                if s["op"] in ("write", "overwrite"):
                    written.extend((n, l) for l in s["lines"])
                if s["op"] == "write":
                    holds[i] = holds[i] + [(n, l) for l in s["lines"]]
                elif s["op"] == "overwrite":
                    holds[i] = [(n, l) for l in s["lines"]]
                elif s["op"] == "clear" or s["n"] == 0:
                    holds[i] = []
                else:
                    holds[i] = holds[i][:max(0, len(holds[i]) - s["n"])]
                snap()
            elif "scope" in s:
                f = (lambda x: x + s["n"]) if s["inc"] else (lambda x: s["n"])
                if s["scope"] == "out":
                    inner = list(ind)
                    r = walk(s["body"], f(out), inner)
                else:
                    inner = list(ind)
                    inner[s["i"]] = f(ind[s["i"]])
                    r = walk(s["body"], out, inner)
                ind.extend(inner[len(ind):])      # only the sections created inside remain
                if r:
                    return True
            elif "try" in s:
                walk(s["try"], out, ind)
            else:
                return True
        return False

    ind = []
    raised = walk(case["prog"], case["out"], ind)
    return snaps, [case["out"]] + ind, raised, written


def _oracle_secprog(case, obs):
    if "err" in obs and "steps" not in obs:
        return "program of scopes over sections raised %s" % obs["err"]
    if obs["err"]:
        return "bytes on the wrong stream"
    snaps, indent, raised, written = _secprog_walk(case)
    if obs["raised"] != raised:
        return "exception propagation differs"
    if obs["indent"] != indent:
        return "indentation after the program is %s, before the scopes it was %s" % (obs["indent"], indent)
    if len(obs["steps"]) != len(snaps):
        return "harness: %d operations ran, %d expected" % (len(obs["steps"]), len(snaps))
    if case["fmt"] != "ansi":
        # undecorated: the appended lines, each non-empty one behind the indentation in force, no control code
        data = "".join(st["bytes"] for st in obs["steps"])
        if ESC in data:
            return "an undecorated section output emitted an escape byte: %r" % data
        want = "".join(((" " * n + t) if t else t) + "\n" for n, t in written)
        return None if data == want else (
            "undecorated sections: wrote %r, required the appended lines behind the indentation in force %r" % (data, want))
    from harness.props.c15 import Emu
    emu = Emu(SEC_WIDTH)
    for k, (st, holds) in enumerate(zip(obs["steps"], snaps)):
        emu.feed(strip_ansi(st["bytes"]))
        if emu.bad:
            return None         # an unknown control sequence: what the screen shows is C15's subject
        rows = emu.screen()
        want = [(i, n, t) for i, h in enumerate(holds) for n, t in h]
        while want and want[-1][2] == "" and len(want) > len(rows):
            want.pop()          # empty lines at the very end are not visible
        if [r.lstrip(" ") for r in rows] != [t for _, _, t in want]:
            return None         # the screen does not show the lines the sections hold: C15's subject, not an indentation
        for r, (i, n, t) in zip(rows, want):
            got = len(r) - len(r.lstrip(" "))
            if t and got != n:
                return ("after operation %d the line %r of section %d stands on the screen behind %d blanks; the "
                        "indentation in force on that section when it was written was %d" % (k, t, i, got, n))
    return None


def oracle(case, obs):
    k = case["k"]
    if k == "secprog":
        return _oracle_secprog(case, obs)
    if k == "msg":
        if not well_formed_text(case["ast"]):
            return None
        return _oracle_msg(case, obs)
    if k == "sgr":
        return _oracle_sgr(case, obs)
    if k == "write":
        if not well_formed_text(case["ast"]):
            return None
        return _oracle_write(case, obs)
    if k == "scopes":
        return _oracle_scopes(case, obs)
    if k == "secseq":
        if not all(op == "clear" or well_formed_text(arg) for op, arg in case["ops"]):
            return None
        return _oracle_secseq(case, obs)
    return None


# --------------------------------------------------------------------------- statistics
def _h(s):
    return hashlib.sha1(s.encode("utf-8")).hexdigest()[:12]


def _secprog_depth(stmts):
    d = 0
    for s in stmts:
        if "scope" in s:
            d = max(d, 1 + _secprog_depth(s["body"]))
        elif "try" in s:
            d = max(d, _secprog_depth(s["try"]))
    return d


def nontrivial_key(case, obs):
    k = case["k"]
    if k == "secprog":
        # at least one scope and (decorated) at least one re-draw of sections shown below
        if _secprog_depth(case["prog"]) == 0:
            return None
        if case["fmt"] == "ansi" and not any(ESC + "[" in st["bytes"] for st in obs.get("steps", [])):
            return None
        return "r" + _h(repr(case))
    if k == "msg":
        if count_styles(case["ast"]) == 0:
            return None
        if case.get("sset") is not None:
            return "m" + _h(raw_of(case["ast"]) + repr(case["style"]) + repr(sorted(registered_codes(case["sset"]).items())))
        return "m" + _h(raw_of(case["ast"]) + repr(case["pre"]) + repr(case["style"]))
    if k == "sgr":
        if not (case["fg"] or case["bg"] or case["attrs"]):
            return None
        if case["route"] == "ctag":
            return "s%s/%s/%s/ctag/%s/%s/%s/%s" % (case["fg"], case["bg"], ",".join(case["attrs"]), case["how"],
                                                   case["via"], case["tag"], _h(repr(case["reg"])))
        return "s%s/%s/%s/%s" % (case["fg"], case["bg"], ",".join(case["attrs"]), case["route"])
    if k == "write":
        if case["indent"] == 0 and case["method"] not in LINE_METHODS:
            return None
        return "w" + _h(repr(sorted(case.items())))
    if k == "scopes":
        if prog_depth(case["prog"]) == 0:
            return None
        return "p" + _h(repr(case))
    if k == "secseq":
        ops = [op for op, _ in case["ops"]]
        if not any(o in ("clear", "overwrite") for o in ops[1:]):
            return None
        return "q" + _h(repr(case))
    return None


def bucket(case, obs):
    k = case["k"]
    if k == "secprog":
        return "secprog:%s:%s:sections=%d:depth=%d%s" % (
            case["fmt"], case["via"], len(obs["indent"]) - 1 if "indent" in obs else 0,
            min(3, _secprog_depth(case["prog"])), ",raised" if obs.get("raised") else "")
    if k == "msg":
        n = count_styles(case["ast"])
        return "msg:styles=%s%s%s%s" % (n if n < 4 else "4+", ",stack" if case["pre"] else "",
                                        ",call-style" if case["style"] else "",
                                        ",style-set-of-%d" % sset_size(case["sset"]) if case.get("sset") is not None else "")
    if k == "bad":
        return "bad:%s" % ("ValueError" if "err" in obs.get("plain", {}) else "accepted")
    if k == "sgr":
        if case["route"] == "ctag":
            return "sgr:ctag:%s:%s" % (case["how"], case["via"])
        return "sgr:%s:attrs=%d" % (case["route"], len(case["attrs"]))
    if k == "write":
        return "write:%s.%s:%s" % (case["obj"], case["method"], case["fmt"])
    if k == "secseq":
        return "secseq:%s:ops=%d%s" % (case["fmt"], len(case["ops"]),
                                       ",clear" if any(op == "clear" for op, _ in case["ops"]) else "")
    return "scopes:depth=%d%s" % (prog_depth(case["prog"]), ",raised" if obs.get("raised") else "")


# --------------------------------------------------------------------------- shrinking / neighbours
def _shrink_nodes(nodes):
    for i, n in enumerate(nodes):
        yield nodes[:i] + nodes[i + 1:]
        if n[0] == "s":
            yield nodes[:i] + n[3] + nodes[i + 1:]
            for sub in _shrink_nodes(n[3]):
                yield nodes[:i] + [[n[0], n[1], n[2], sub, n[4]]] + nodes[i + 1:]
            if n[2] != "":
                yield nodes[:i] + [[n[0], n[1], "", n[3], n[4]]] + nodes[i + 1:]
        elif n[0] == "t" and len(n[1]) > 1:
            h = len(n[1]) // 2
            yield nodes[:i] + [["t", n[1][:h]]] + nodes[i + 1:]
            yield nodes[:i] + [["t", n[1][h:]]] + nodes[i + 1:]


def _shrink_prog(stmts):
    for i, s in enumerate(stmts):
        yield stmts[:i] + stmts[i + 1:]
        if "scope" in s:
            yield stmts[:i] + s["body"] + stmts[i + 1:]
            for sub in _shrink_prog(s["body"]):
                yield stmts[:i] + [dict(s, body=sub)] + stmts[i + 1:]
        elif "try" in s:
            yield stmts[:i] + s["try"] + stmts[i + 1:]
            for sub in _shrink_prog(s["try"]):
                yield stmts[:i] + [{"try": sub}] + stmts[i + 1:]
        elif "w" in s and len(s["w"]) > 1:
            yield stmts[:i] + [dict(s, w=s["w"][:1])] + stmts[i + 1:]


def _shrink_secprog(stmts):
    """statements dropped (never a create: the section numbers stay), scopes / try blocks unwrapped, texts shortened"""
    for i, s in enumerate(stmts):
        if "create" not in s:
            yield stmts[:i] + stmts[i + 1:]
        if "scope" in s:
            yield stmts[:i] + s["body"] + stmts[i + 1:]
            for sub in _shrink_secprog(s["body"]):
                yield stmts[:i] + [dict(s, body=sub)] + stmts[i + 1:]
            if s["n"] > 1:
                yield stmts[:i] + [dict(s, n=1)] + stmts[i + 1:]
        elif "try" in s:
            yield stmts[:i] + s["try"] + stmts[i + 1:]
            for sub in _shrink_secprog(s["try"]):
                yield stmts[:i] + [{"try": sub}] + stmts[i + 1:]
        elif "op" in s and s["op"] in ("write", "overwrite") and len(s["lines"]) > 1:
            for t in range(len(s["lines"])):
                yield stmts[:i] + [dict(s, lines=s["lines"][:t] + s["lines"][t + 1:])] + stmts[i + 1:]


def _secprog_ok(case):
    try:
        _secprog_walk(case)
        return True
    except (IndexError, KeyError):
        return False


def shrink(case):
    k = case["k"]
    if k == "secprog":
        for p in _shrink_secprog(case["prog"]):
            c = dict(case, prog=p)
            if p and _secprog_ok(c):
                yield c
        if case["out"]:
            yield dict(case, out=0)
        if case["via"] == "io":
            yield dict(case, via="out")
        return
    if k in ("msg", "write"):
        for nodes in _shrink_nodes(case["ast"]):
            nodes = normalise(nodes)
            if well_formed_text(nodes):
                yield dict(case, ast=nodes)
    if k == "msg":
        if case["pre"]:
            yield dict(case, pre=case["pre"][:-1])
        if case["style"] is not None:
            yield dict(case, style=None)
    elif k == "write":
        if case["indent"] > 0:
            yield dict(case, indent=case["indent"] - 1)
        if (case["quiet"], case["verbosity"], case["flags"]) != (False, 0, None):
            yield dict(case, quiet=False, verbosity=0, flags=None)
    elif k == "sgr":
        for a in case["attrs"]:
            yield dict(case, attrs=[x for x in case["attrs"] if x != a])
        if case["fg"] is not None:
            yield dict(case, fg=None)
        if case["bg"] is not None:
            yield dict(case, bg=None)
    elif k == "scopes":
        for p in _shrink_prog(case["prog"]):
            yield dict(case, prog=p)
        if case["out"] or case["err"]:
            yield dict(case, out=0, err=0)
    elif k == "bad":
        m = case["msg"]
        for i in range(len(m)):
            yield dict(case, msg=m[:i] + m[i + 1:])
    elif k == "secseq":
        ops = case["ops"]
        for i in range(len(ops)):
            if len(ops) > 1:
                yield dict(case, ops=ops[:i] + ops[i + 1:])
            if ops[i][0] != "clear":
                for nodes in _shrink_nodes(ops[i][1]):
                    nodes = normalise(nodes)
                    if well_formed_text(nodes):
                        yield dict(case, ops=ops[:i] + [[ops[i][0], nodes]] + ops[i + 1:])
        if case["indent"]:
            yield dict(case, indent=0)


def neighbours(case):
    k = case["k"]
    if k == "secprog":
        for via in ("out", "io"):
            for out0 in (0, 2):
                yield dict(case, via=via, out=out0, fmt="ansi")
        # the same program with a later-created section showing a line first, and one more write on the first section
        if any("create" in s for s in case["prog"]):
            tail = [{"create": True}, {"op": "write", "sec": 0, "lines": ["zz"]}]
            yield dict(case, fmt="ansi", prog=case["prog"] + tail)
            yield dict(case, fmt="ansi", prog=case["prog"] + [
                {"scope": "sec", "i": 0, "inc": False, "n": 3, "body": [{"op": "write", "sec": 0, "lines": ["zz"]}]}])
        return
    if k == "sgr" and case["route"] == "ctag":
        for a in ATTRS:
            yield dict(case, attrs=sorted(set(case["attrs"]) ^ {a}, key=ATTRS.index))
        for c in TABLE_COLORS:
            yield dict(case, fg=c)
            yield dict(case, bg=c)
        for via in CTAG_VIA:
            yield dict(case, via=via)
    elif k == "sgr":
        for r in ("tag", "add", "call"):
            for a in ATTRS:
                yield dict(case, route=r, attrs=sorted(set(case["attrs"]) ^ {a}, key=ATTRS.index))
            for c in TABLE_COLORS:
                yield dict(case, route=r, fg=c)
                yield dict(case, route=r, bg=c)
    elif k == "write":
        for obj, methods in sorted(OBJ_METHODS.items()):
            for m in methods:
                for n in (0, 2):
                    yield dict(case, obj=obj, method=m, indent=n, quiet=False, verbosity=0, flags=None)
        for ast_ in FIXED_TEXTS:
            yield dict(case, ast=ast_)
    elif k == "msg" and case.get("sset") is not None:
        # a formatter built from a given style set: the same message under other style sets, other messages under this one
        ss = case["sset"]
        yield dict(case, style=None)
        yield dict(case, shared=not case.get("shared"))
        for other in ({"base": "empty", "remove": [], "add": []}, {"base": "default", "remove": list(NAMED), "add": []},
                      {"base": "default", "remove": [], "add": []}):
            yield dict(case, sset=other, ast=retarget(case["ast"], other))
        for m in SSET_FIXED_MSGS:
            yield dict(case, ast=retarget(m, ss))
        for t in NAMED:
            yield dict(case, ast=retarget([["s", t, t, [["t", "a\nb"]], {"name": t}]], ss))
    elif k == "msg":
        yield dict(case, pre=[], style=None)
        for st in STYLE_POOL:
            yield dict(case, style=st)
            yield {"k": "msg", "ast": [["t", "T"]], "pre": [], "style": st}
            for tag in ("nobody", "error", "b"):
                yield {"k": "msg", "ast": [["t", "T"]], "pre": [], "style": dict(st, tag=tag)}
        for t in NAMED:
            yield dict(case, pre=[t])
            yield {"k": "msg", "ast": [["s", t, t, [["t", "a\nb"]], {"name": t}]], "pre": [], "style": None}
        for ast_ in FIXED_TEXTS:
            yield dict(case, ast=ast_)
    elif k == "scopes":
        for n in (0, 1, 2, 5):
            yield dict(case, out=n, err=n)
        for t in ("io", "out", "err"):
            for inc in (False, True):
                yield {"k": "scopes", "out": 1, "err": 2, "prog": [
                    {"w": "a", "err": False}, {"w": "a", "err": True},
                    {"try": [{"scope": t, "inc": inc, "n": 3, "body": [{"w": "b\n\nc", "err": False},
                                                                       {"w": "b", "err": True}, {"raise": True}]}]},
                    {"w": "d", "err": False}, {"w": "d", "err": True}]}
    elif k == "bad":
        # a disagreement on malformed input: look for a balanced message that shows the same fault
        for t in NAMED:
            yield {"k": "msg", "ast": [["s", t, t, [["t", "a"]], {"name": t}]], "pre": [], "style": None}
            yield {"k": "msg", "ast": [["s", t, "", [["t", "a"]], {"name": t}], ["t", "bc"]], "pre": [], "style": None}
