"""
C07 - option and argument flags are validated and normalised consistently.

Correspondence (tie B), model = lean/Clikit/Model/Flags.lean composed from the *translated*
flag logic (lean/Clikit/Gen/Logic.lean; lean/Clikit/Gen/C07.lean from tools/genparts/c07.py: which
converter `parse` selects, `set_default` over default kinds):

  opt     EXHAUSTIVE  Option("ab", short, flags, default=...) for every flag word 0..2^13-1
          x short name given / not x default (none, scalar, list): outcome (ok / exception class),
          `flags`, `default`, every public predicate
  arg     EXHAUSTIVE  Argument("ab", flags, default=...) for every flag word 0..2^11-1 x default kinds
  cmdopt  CommandOption for every flag word 0..15 x short x alias lists
  misc    non-string / None names, argument descriptions, explicit `[]` defaults
  name    all names over {a, Z, 1, -, _, space, newline, e-acute} up to length 3 (quick) / 5 (thorough),
          with and without '-' / '--' prefix, as Option long / short name, Argument name,
          CommandOption long / short name and alias
  conv    parse_string/boolean/int/float x nullable over boundary texts, every ASCII character around
          a digit, random ints and floats (as text and as values), None, bools;  Option.parse /
          Argument.parse dispatch for valid flag words
  rt      text form round trips (int, bool through the model; float only through Python)
  engine  the contracts assumed of CPython: str.isalpha on the 63 name characters, float(repr(x)) == x; both are
          hypotheses of theorems and are decided by the model on what the interpreter answers (c07.alpha_ok, c07.float_rt)

The oracle is the property statement written directly in Python over the *documented* bit layout.
"""
import itertools
import math

ID = "C07"
DESIGN_REF = "6/C07"
TECHNIQUE = ("Lean 4 proofs about the flag logic translated from the source on every run (py2lean: _validate_flags, "
             "_add_default_flags, predicates, parse dispatch, set_default, bit constants), composed in a "
             "hand-written model of the Option / Argument / CommandOption constructors, name checks and parse_* "
             "conversions + exhaustive correspondence over all flag words (2^13 / 2^11), short-name presence and "
             "default kinds, all names over an 8-letter alphabet, boundary / random conversions")
LEVEL_TEXT = ("Proved for ALL natural-number flag words (not only the 13 defined bits): construction succeeds iff the "
              "word is free of the documented contradictions (option_ok_iff, argument_ok_iff, command_option_ok_iff); "
              "a constructed object has exactly one type bit, exactly one preference / requiredness bit and a "
              "consistent value mode and default (option_normal_form, argument_normal_form), normalisation only "
              "adds bits; names are accepted exactly when well-formed after dash stripping (names_wf_iff); typed "
              "conversion returns the declared type, None only when nullable, or ValueError (conv_typed) and inverts "
              "the text form of every int (parse_int_repr, by induction over the digits) and boolean. The theorems "
              "are about definitions regenerated from the source on each run; the constructor model around them is "
              "compared exhaustively with the real classes.")
LEVEL_NOTE = ("Trusted: Lean kernel + propext/Quot.sound/Classical.choice, py2lean, the hand-written constructor / "
              "regex / int() models (validated by the exhaustive correspondence). CPython's str.isalpha on ASCII and the "
              "float()/repr round trip are parameters of the theorems; their hypotheses (AlphaOK; float(repr(x)) == x, "
              "repr(x) != 'null') are decided by the model (alphaTableOK on the table of all 63 characters, floatRtB on "
              "every generated float; theorems alpha_table_decides, float_rt_decides) and compared with true on every run.")
LEAN_MODULES = ["Clikit.Props.C07"]
REQUIRED_THEOREMS = ["Clikit.Props.C07." + n for n in (
    "flag_constants_disjoint", "option_ok_iff", "option_raises_only_valueError", "argument_ok_iff", "argument_raises_only_valueError",
    "command_option_ok_iff", "command_option_raises_only_valueError", "ctor_alpha_irrelevant",
    "option_flags_exact", "option_normal_form", "argument_flags_exact", "argument_normal_form",
    "wf_spelled_out", "names_wf_iff", "alias_wf_iff",
    "conv_typed", "conv_none_iff", "parse_typed_by_declared_type", "argument_parse_typed_by_declared_type",
    "parse_int_repr", "parse_int_text", "parse_bool_text", "parse_float_repr",
    "alpha_table_decides", "alpha_table_ok", "ctor_alpha_irrelevant_decided", "float_rt_decides", "parse_float_repr_decided")]
RULE = ("exhaustive part: every Option flag word 0..8191 (11 defined + 2 undefined bits) x short name given/absent x default "
        "none/scalar/list; every Argument flag word 0..2047 x default kinds; every name over {a,Z,1,-,_,' ','\\n','e-acute'} "
        "up to length 3 (quick) / 5 (thorough) with '', '-', '--' prefix x 6 name positions; sampled part: fixed boundary "
        "conversion table (incl. every ASCII character around a digit) + seeded random ints/floats as text and as values "
        "(thorough also 20000 random flag words of up to 40 bits). A case is non-trivial unless it is an engine-contract sample; distinct = "
        "distinct case")
TRUSTED_BASE = [
    "Lean 4.33 kernel; axioms propext, Classical.choice, Quot.sound only (audited per theorem on every run)",
    "tools/py2lean.py + tools/gen_lean.py: statement-by-statement translation of _validate_flags / _add_default_flags / "
    "the flag predicates of AbstractOption, Option, Argument and of the flag constants",
    "tools/genparts/c07.py: Option/Argument.parse (converter selected, nullable) and set_default (over default kinds "
    "0 None / 1 non-list / 2 list) after the syntactic rewrites listed in its docstring",
    "lean/Clikit/Model/Flags.lean: hand-written composition (constructors, set_default, regexes, dash stripping, "
    "parse_*, int() on ASCII text) - modelled, validated by the exhaustive correspondence, not verified against the source",
    "harness/props/c07.py: generators, canonicalisation (exception class names, default kind), the Python oracle",
]
ASSUMPTIONS = [
    "flag words are non-negative ints (negative ints and bools as flags are outside the model)",
    "CPython str.isalpha restricted to [a-zA-Z0-9-] is exactly the ASCII letters: hypothesis AlphaOK of the theorems, "
    "decided by the model on the table of all 63 characters each run (c07.alpha_ok == true is part of the "
    "correspondence; also stated by the oracle); the theorems hold for every isalpha with that property",
    "float(): a parameter of the model; float(repr(x)) == x and repr(x) != 'null' (hypotheses of parse_float_repr) are "
    "CPython guarantees, decided by the model on every generated float (c07.float_rt == true; exact tokens = float.hex) "
    "- checked on the sample, not for all floats",
    "int() is modelled for ASCII text (ws* [+-]? digit (_? digit)* ws*); non-ASCII decimal digits / Unicode spaces and "
    "sys.int_max_str_digits (4300 digits) are outside the model and the generators",
    "numeric cross conversions int(float) / float(int) belong to the float engine: parse_int(float('inf')) and "
    "parse_float(10**400) raise OverflowError (compared with the model, not demanded by the oracle: not text input)",
]
BUDGET_S = {"quick": 80, "thorough": 780}
BATCH = 20000

# ------------------------------------------------------------------------------------------------
# the documented bit layout (the specification the oracle is written against)
O = {"PREFER_LONG_NAME": 1, "PREFER_SHORT_NAME": 2, "NO_VALUE": 4, "REQUIRED_VALUE": 8, "OPTIONAL_VALUE": 16,
     "MULTI_VALUED": 32, "STRING": 128, "BOOLEAN": 256, "INTEGER": 512, "FLOAT": 1024, "NULLABLE": 2048}
A = {"REQUIRED": 1, "OPTIONAL": 2, "MULTI_VALUED": 4, "STRING": 16, "BOOLEAN": 32, "INTEGER": 64, "FLOAT": 128,
     "NULLABLE": 256}
TYPES = ("STRING", "BOOLEAN", "INTEGER", "FLOAT")
OPT_WORDS = 1 << 13
ARG_WORDS = 1 << 11
DEFAULTS = ("none", "scalar", "list")
ALPHABET = ["a", "Z", "1", "-", "_", " ", "\n", "é"]
NAME_KINDS = ("long", "short", "argument", "alias", "cmd_long", "cmd_short")
ASCII_LETTERS = "abcdefghijklmnopqrstuvwxyzABCDEFGHIJKLMNOPQRSTUVWXYZ"
NAME_CHARS = ASCII_LETTERS + "0123456789-"
CONVS = ("string", "boolean", "int", "float")
INT_WS = "\t\n\x0b\x0c\r "

BOUNDARY_TEXTS = [
    "", " ", "null", "Null", "NULL", " null", "true", "false", "True", "False", "TRUE", "0", "1", "yes", "no", "on",
    "off", "2", "-0", "+0", "+1", "-1", " 1", "1 ", "\t1\n", "\x0b1\x0c", "\r-7\r", "1_0", "1__0", "_1", "1_", "+_1", "1_ ",
    "1 _0", "+1_0_0", "0x10", "0b1", "0o7", "007", "00", "0_0", "1.0", "1e3", ".5", "5.", "inf", "-inf", "nan", "1,5",
    "--1", "+-1", "- 1", "+ 1", "+", "-", "_", "1 2", "1\x002", "\x1c1", "1\x1f", "é1", "1é", "abc", "y", "n",
    "12345678901234567890123456789012345678901234567890", "-98765432109876543210", "1e400", "1" + "0" * 400,
    "0.1", "-0.0", "1e-320", "3.14", "1_0.5", "infinity", "NaN", " nan ", "0x1p3",
]


def _mk_default(kind):
    if kind == "none":
        return None
    if kind == "scalar":
        return "x"
    if kind == "list":
        return ["x", "y"]
    if kind == "empty":
        return []
    raise ValueError(kind)


def _kind_of(v):
    if v is None:
        return "none"
    if isinstance(v, list):
        return "list"
    return "scalar"


def _exc(e):
    return type(e).__name__


def _alpha_table():
    """what the running interpreter's str.isalpha answers on [a-zA-Z0-9-], as [code point, answer] rows"""
    return [[ord(c), c.isalpha()] for c in NAME_CHARS]


def _ftok(x):
    """an exact token of a float: equal tokens <=> the same float (all NaNs identified, -0.0 != 0.0)"""
    return "nan" if math.isnan(x) else x.hex()


def _float_rt(text):
    """x = float(text): its token, repr(x), and the token of float(repr(x)) (None = ValueError)"""
    x = float(text)
    r = repr(x)
    try:
        back = _ftok(float(r))
    except ValueError:
        back = None
    return {"x": _ftok(x), "repr": r, "back": back}


# ------------------------------------------------------------------------------------------------ generation
def _names(maxlen):
    bases = [""]
    for n in range(1, maxlen + 1):
        for t in itertools.product(ALPHABET, repeat=n):
            bases.append("".join(t))
    texts = set()
    for b in bases:
        texts.add(b)
        texts.add("-" + b)
        texts.add("--" + b)
    return sorted(texts)


def _rand_int(rng):
    r = rng.random()
    if r < 0.3:
        return rng.randint(-20, 20)
    if r < 0.6:
        return rng.randint(-10 ** 6, 10 ** 6)
    if r < 0.8:
        return rng.choice([-1, 1]) * rng.getrandbits(rng.choice([31, 32, 63, 64, 65, 128]))
    return rng.choice([-1, 1]) * rng.randint(0, 10 ** rng.randint(1, 60))


def _rand_float(rng):
    r = rng.random()
    if r < 0.1:
        return rng.choice([0.0, -0.0, float("inf"), float("-inf"), float("nan"), 5e-324, 1.7976931348623157e308,
                           2.2250738585072014e-308, 0.1, 1e16, 1e22, 1e23])
    if r < 0.5:
        return rng.uniform(-1000, 1000)
    if r < 0.8:
        return rng.uniform(-1, 1) * 10.0 ** rng.randint(-300, 300)
    import struct
    x = struct.unpack("<d", struct.pack("<Q", rng.getrandbits(64)))[0]
    return x


def _enc(v):
    """case encoding of a Python value (JSON-serialisable, floats by repr)"""
    if isinstance(v, float):
        return {"float": repr(v)}
    return v


def _dec(v):
    if isinstance(v, dict):
        return float(v["float"])
    return v


def _decorate_int_text(rng, n):
    s = str(n)
    r = rng.random()
    if r < 0.35:
        return s
    if r < 0.5:
        return rng.choice(INT_WS) * rng.randint(1, 2) + s + rng.choice(INT_WS) * rng.randint(0, 2)
    if r < 0.6 and n >= 0:
        return "+" + s
    if r < 0.8 and len(s) > 2:
        k = rng.randint(1, len(s) - 1)
        if s[k - 1].isdigit() and s[k].isdigit():
            return s[:k] + "_" + s[k:]
        return s
    if r < 0.9:
        k = rng.randint(0, len(s))
        return s[:k] + rng.choice(["_", " ", "-", "+", ".", "e", "x", "__"]) + s[k:]
    return "0" * rng.randint(1, 3) + s.lstrip("-")


def generate(tier, rng):
    quick = tier == "quick"
    # engine contracts first (cheap)
    for c in NAME_CHARS + "_ \né":
        yield {"k": "engine", "what": "isalpha", "c": c}
    # the whole table at once: the model decides the hypothesis AlphaOK of the constructor theorems on it
    yield {"k": "engine", "what": "isalpha_table"}
    # ---- exhaustive flag words
    for f in range(OPT_WORDS):
        for short in (False, True):
            for d in DEFAULTS:
                yield {"k": "opt", "flags": f, "short": short, "default": d}
    for f in range(ARG_WORDS):
        for d in DEFAULTS:
            yield {"k": "arg", "flags": f, "default": d}
    # ---- the same constructions after EARLIER constructions with the same flag word (another class, the other
    # short-name presence, another default): validity is a function of the constructor's own arguments
    for f in range(OPT_WORDS):
        for short in (False, True):
            yield {"k": "opt", "flags": f, "short": short, "default": "none", "pre": [["cmdopt", f, short]]}
            yield {"k": "opt", "flags": f, "short": short, "default": "none", "pre": [["opt", f, not short, "none"]]}
            yield {"k": "opt", "flags": f, "short": short, "default": "list", "pre": [["opt", f, short, "scalar"]]}
    for f in range(ARG_WORDS):
        yield {"k": "arg", "flags": f, "default": "none", "pre": [["arg", f, "list"], ["opt", f, False, "none"]]}
        yield {"k": "arg", "flags": f, "default": "list", "pre": [["arg", f, "none"]]}
    # ---- the default set AFTER construction (`set_default`, with and without an argument): the same object as one
    # constructed with that default
    for f in range(OPT_WORDS):
        if not f & 56:
            continue        # an option without a value mode takes no default: set_default always raises (as documented)
        for d in DEFAULTS + ("omitted",):
            yield {"k": "opt", "flags": f, "short": f % 2 == 0, "default": "none", "then": d}
    for f in range(ARG_WORDS):
        if f & 1:
            continue        # a required argument takes no default: set_default always raises (as documented)
        for d in DEFAULTS + ("omitted",):
            yield {"k": "arg", "flags": f, "default": "none", "then": d}
    yield {"k": "consts"}
    # ---- command options: every word over bits 0..3, short, alias lists
    alias_lists = [[], ["c"], ["-c"], ["cd"], ["-cd"], ["--cd"], ["c", "de", "-f", "-gh"], ["c", "1", "d"], ["ab", ""],
                   ["-"], ["--"], ["c", "c"], ["a-b", "Z9"], ["é"], ["c\n"], ["cd\n"]]
    for f in range(16):
        for short in (False, True):
            for al in alias_lists:
                yield {"k": "cmdopt", "flags": f, "short": short, "aliases": al}
    # ---- odd constructor arguments
    for long in (None, 5, "", "a", "ab"):
        for short in (None, 5, "", "c", "cd"):
            for f in (0, 1, 2, 8):
                yield {"k": "misc_opt", "long": long, "short": short, "flags": f, "default": "none"}
    for name in (None, 5, "", "a", "ab"):
        for desc in (None, 5, "", "d"):
            for f in (0, 1, 2, 4, 5):
                for d in ("none", "scalar", "list", "empty"):
                    yield {"k": "misc_arg", "name": name, "desc": desc, "flags": f, "default": d}
    for f in (0, 4, 8, 16, 32, 40):
        yield {"k": "misc_opt", "long": "ab", "short": None, "flags": f, "default": "empty"}
    # ---- names
    for t in _names(3 if quick else 5):
        for kind in NAME_KINDS:
            yield {"k": "name", "kind": kind, "text": t}
    # ---- conversions
    values = [None, True, False, 0, 1, 2, -1, 10 ** 30, 10 ** 400, -10 ** 400, 0.0, 1.0, 1.5, -2.5, float("inf"),
              float("-inf"), float("nan"), 1e300]
    values += BOUNDARY_TEXTS
    for c in range(128):
        ch = chr(c)
        values += [ch + "1", "1" + ch, "1" + ch + "2", ch]
    for v in values:
        for t in CONVS:
            for nullable in (False, True):
                yield {"k": "conv", "type": t, "nullable": nullable, "value": _enc(v)}
    valid_opt = [f for f in (0, 8, 16, 40, 128, 256, 512, 1024, 2048, 8 | 256, 8 | 512 | 2048, 16 | 1024, 8 | 1024 | 2048,
                             32 | 512, 8 | 128 | 2048, 4, 64 | 8 | 256, 4096 | 16 | 512)]
    valid_arg = [0, 1, 2, 4, 16, 32, 64, 128, 256, 1 | 32, 2 | 64 | 256, 4 | 128, 1 | 16 | 256, 8 | 64, 512 | 128 | 256]
    pv = [None, "null", "", "1", "true", "x", "1.5", " 7 ", "off", "-3", True, 3, 2.5]
    for f in valid_opt:
        for v in pv:
            yield {"k": "parse", "via": "option", "flags": f, "value": _enc(v)}
    for f in valid_arg:
        for v in pv:
            yield {"k": "parse", "via": "argument", "flags": f, "value": _enc(v)}
    for b in (True, False):
        for nullable in (False, True):
            yield {"k": "rt", "type": "boolean", "value": b, "nullable": nullable}
    # ---- random volume
    n_rand = 1500 if quick else 40000
    for i in range(n_rand):
        n = _rand_int(rng)
        nullable = rng.random() < 0.5
        yield {"k": "rt", "type": "int", "value": n, "nullable": nullable}
        yield {"k": "conv", "type": rng.choice(CONVS), "nullable": nullable, "value": _decorate_int_text(rng, n)}
        yield {"k": "conv", "type": rng.choice(CONVS), "nullable": nullable, "value": n}
        x = _rand_float(rng)
        yield {"k": "rt", "type": "float", "value": _enc(x), "nullable": nullable}
        yield {"k": "conv", "type": rng.choice(CONVS), "nullable": nullable, "value": repr(x)}
        yield {"k": "conv", "type": rng.choice(CONVS), "nullable": nullable, "value": _enc(x)}
        yield {"k": "engine", "what": "float_rt", "x": repr(x)}
    if not quick:
        # random constructor calls with larger flag words (bits beyond 2^13)
        for i in range(20000):
            f = rng.getrandbits(rng.choice([14, 16, 20, 40]))
            yield {"k": "opt", "flags": f, "short": rng.random() < 0.5, "default": rng.choice(DEFAULTS)}
            yield {"k": "arg", "flags": f, "default": rng.choice(DEFAULTS)}


def exhaustive(tier):
    return True


# ------------------------------------------------------------------------------------------------ implementation
def _option_obs(o, given):
    d = o.default
    return {"out": "ok", "long": o.long_name, "short": o.short_name, "flags": o.flags, "default": _kind_of(d),
            "default_value_ok": (d == given) if given is not None else (d is None or d == []),
            "accepts_value": o.accepts_value(), "is_value_required": o.is_value_required(),
            "is_value_optional": o.is_value_optional(), "is_multi_valued": o.is_multi_valued(),
            "is_long_name_preferred": o.is_long_name_preferred(),
            "is_short_name_preferred": o.is_short_name_preferred(),
            "pred_types_ok": all(type(x) is bool for x in (
                o.accepts_value(), o.is_value_required(), o.is_value_optional(), o.is_multi_valued(),
                o.is_long_name_preferred(), o.is_short_name_preferred())) and type(o.flags) is int}


def _argument_obs(a, given):
    d = a.default
    return {"out": "ok", "name": a.name, "flags": a.flags, "default": _kind_of(d),
            "default_value_ok": (d == given) if given is not None else (d is None or d == []),
            "is_required": a.is_required(), "is_optional": a.is_optional(), "is_multi_valued": a.is_multi_valued(),
            "pred_types_ok": all(type(x) is bool for x in (a.is_required(), a.is_optional(), a.is_multi_valued()))
            and type(a.flags) is int}


def _enc_result(v):
    if v is None or type(v) is bool or type(v) is int or type(v) is str:
        return {"ok": v}
    if type(v) is float:
        return {"ok": {"float": True}}
    return {"ok": {"unexpected": type(v).__name__}}


def _call(fn, *a):
    try:
        return _enc_result(fn(*a))
    except Exception as e:  # noqa: BLE001 - the class name is the observable
        return {"err": _exc(e)}


def _parse_fns():
    from clikit.utils.string import parse_boolean, parse_float, parse_int, parse_string
    return {"string": parse_string, "boolean": parse_boolean, "int": parse_int, "float": parse_float}


def run_impl(case):
    from clikit.api.args.format.argument import Argument
    from clikit.api.args.format.command_option import CommandOption
    from clikit.api.args.format.option import Option
    k = case["k"]
    for pre in case.get("pre", []):
        # earlier constructions in the same process; whatever they do, it must not matter afterwards
        try:
            if pre[0] == "cmdopt":
                CommandOption("zz", "y" if pre[2] else None, [], pre[1])
            elif pre[0] == "opt":
                Option("zz", "y" if pre[2] else None, pre[1], default=_mk_default(pre[3]))
            else:
                Argument("zz", pre[1], default=_mk_default(pre[2]))
        except Exception:  # noqa: BLE001
            pass
    if k == "opt":
        given = _mk_default(case["default"])
        try:
            o = Option("ab", "c" if case["short"] else None, case["flags"], default=given)
            if "then" in case:
                given = None if case["then"] == "omitted" else _mk_default(case["then"])
                if case["then"] == "omitted":
                    o.set_default()
                else:
                    o.set_default(given)
        except Exception as e:  # noqa: BLE001
            return {"out": "err", "exc": _exc(e)}
        return _option_obs(o, given)
    if k == "misc_opt":
        given = _mk_default(case["default"])
        try:
            o = Option(case["long"], case["short"], case["flags"], default=given)
        except Exception as e:  # noqa: BLE001
            return {"out": "err", "exc": _exc(e)}
        return _option_obs(o, given)
    if k == "arg":
        given = _mk_default(case["default"])
        try:
            a = Argument("ab", case["flags"], default=given)
            if "then" in case:
                given = None if case["then"] == "omitted" else _mk_default(case["then"])
                if case["then"] == "omitted":
                    a.set_default()
                else:
                    a.set_default(given)
        except Exception as e:  # noqa: BLE001
            return {"out": "err", "exc": _exc(e)}
        return _argument_obs(a, given)
    if k == "misc_arg":
        given = _mk_default(case["default"])
        try:
            a = Argument(case["name"], case["flags"], case["desc"], given)
        except Exception as e:  # noqa: BLE001
            return {"out": "err", "exc": _exc(e)}
        return _argument_obs(a, given)
    if k == "cmdopt":
        try:
            o = CommandOption("ab", "c" if case["short"] else None, list(case["aliases"]), case["flags"])
        except Exception as e:  # noqa: BLE001
            return {"out": "err", "exc": _exc(e)}
        return {"out": "ok", "long": o.long_name, "short": o.short_name, "flags": o.flags,
                "long_aliases": list(o.long_aliases), "short_aliases": list(o.short_aliases),
                "is_long_name_preferred": o.is_long_name_preferred(),
                "is_short_name_preferred": o.is_short_name_preferred()}
    if k == "name":
        t, kind = case["text"], case["kind"]
        try:
            if kind == "long":
                got = Option(t).long_name
            elif kind == "short":
                got = Option("ab", t).short_name
            elif kind == "argument":
                got = Argument(t).name
            elif kind == "alias":
                o = CommandOption("ab", None, [t])
                got = (o.short_aliases + o.long_aliases)[0]
            elif kind == "cmd_long":
                got = CommandOption(t).long_name
            else:
                got = CommandOption("ab", t).short_name
        except Exception as e:  # noqa: BLE001
            return {"accepted": False, "exc": _exc(e)}
        return {"accepted": True, "stored": got}
    if k == "conv":
        return _call(_parse_fns()[case["type"]], _dec(case["value"]), case["nullable"])
    if k == "parse":
        v = _dec(case["value"])
        if case["via"] == "option":
            obj = Option("ab", flags=case["flags"])
        else:
            obj = Argument("ab", case["flags"])
        return _call(obj.parse, v)
    if k == "rt":
        fns = _parse_fns()
        v = _dec(case["value"])
        text = _call(fns["string"], v, case["nullable"])
        if "ok" not in text or type(text["ok"]) is not str:
            return {"text": text, "back": None, "equal": False}
        try:
            back = fns[case["type"]](text["ok"], case["nullable"])
        except Exception as e:  # noqa: BLE001
            return {"text": text, "back": {"err": _exc(e)}, "equal": False}
        if type(v) is float:
            equal = type(back) is float and (back == v or (math.isnan(back) and math.isnan(v))) and \
                math.copysign(1, back) == math.copysign(1, v)
            return {"text": {"ok": "<float>"}, "back": _enc_result(back), "equal": equal,
                    "str_is_repr": text["ok"] == repr(v)}
        return {"text": text, "back": _enc_result(back), "equal": type(back) is type(v) and back == v}
    if k == "engine":
        if case["what"] == "isalpha":
            return {"isalpha": case["c"].isalpha()}
        if case["what"] == "isalpha_table":
            return {"table": _alpha_table()}
        x = float(case["x"])
        r = repr(x)
        y = float(r)
        return {"rt": (y == x or (math.isnan(x) and math.isnan(y))), "null": r == "null", "same_text": r == case["x"],
                "engine": _float_rt(case["x"])}
    if k == "consts":
        out = {}
        for n, v in O.items():
            cls = Option
            out["Option." + n] = getattr(cls, n, None)
        for n, v in A.items():
            out["Argument." + n] = getattr(Argument, n, None)
        return out
    raise ValueError("unknown case kind %r" % (k,))


# ------------------------------------------------------------------------------------------------ model
def _eng(case_value):
    """what CPython's float machinery answers for this value (the model takes it as a parameter)"""
    v = _dec(case_value)
    eng = {"of_str": True, "of_int": None, "to_int": {"ok": 0}, "repr": ""}
    if type(v) is str:
        try:
            float(v)
        except ValueError:
            eng["of_str"] = False
    elif type(v) in (int, bool):
        try:
            float(v)
        except Exception as e:  # noqa: BLE001
            eng["of_int"] = _exc(e)
    elif type(v) is float:
        try:
            eng["to_int"] = {"ok": int(v)}
        except Exception as e:  # noqa: BLE001
            eng["to_int"] = {"err": _exc(e)}
        eng["repr"] = str(v)
    return eng


def _name_arg(v):
    return v  # None -> null, str -> string, anything else (an int) -> non-string


def _then(case):
    """the default the object must end up with: the one set after construction, if any (`omitted` = None)"""
    d = case.get("then", case["default"])
    return "none" if d == "omitted" else d


def model_requests(case):
    k = case["k"]
    if k == "opt":
        return [{"m": "c07.option", "long": "ab", "short": "c" if case["short"] else None, "flags": case["flags"],
                 "default": _then(case)}]
    if k == "misc_opt":
        return [{"m": "c07.option", "long": _name_arg(case["long"]), "short": _name_arg(case["short"]),
                 "flags": case["flags"], "default": "list" if case["default"] == "empty" else case["default"]}]
    if k == "arg":
        return [{"m": "c07.argument", "name": "ab", "flags": case["flags"], "desc": None, "default": _then(case)}]
    if k == "misc_arg":
        return [{"m": "c07.argument", "name": _name_arg(case["name"]), "flags": case["flags"],
                 "desc": _name_arg(case["desc"]),
                 "default": "list" if case["default"] == "empty" else case["default"]}]
    if k == "cmdopt":
        return [{"m": "c07.cmdopt", "long": "ab", "short": "c" if case["short"] else None,
                 "aliases": case["aliases"], "flags": case["flags"]}]
    if k == "name":
        return [{"m": "c07.name", "kind": case["kind"], "text": case["text"]}]
    if k == "conv":
        return [{"m": "c07.conv", "type": case["type"], "nullable": case["nullable"], "value": case["value"],
                 "eng": _eng(case["value"])}]
    if k == "parse":
        return [{"m": "c07.parse", "via": case["via"], "flags": case["flags"], "value": case["value"],
                 "eng": _eng(case["value"])}]
    if k == "rt":
        v = _dec(case["value"])
        if type(v) is float:
            return []
        text = str(v).lower() if type(v) is bool else str(v)
        return [{"m": "c07.conv", "type": "string", "nullable": case["nullable"], "value": case["value"],
                 "eng": _eng(case["value"])},
                {"m": "c07.conv", "type": case["type"], "nullable": case["nullable"], "value": text,
                 "eng": _eng(text)}]
    if k == "engine" and case["what"] == "isalpha_table":
        # hypothesis AlphaOK (Props.C07.alpha_table_decides), decided by the model on CPython's answers
        return [{"m": "c07.alpha_ok", "table": _alpha_table()}]
    if k == "engine" and case["what"] == "float_rt":
        # hypotheses of parse_float_repr (Props.C07.float_rt_decides), decided by the model on CPython's answers
        return [dict(_float_rt(case["x"]), m="c07.float_rt")]
    return []


OPT_FIELDS = ("out", "long", "short", "flags", "default", "accepts_value", "is_value_required", "is_value_optional",
              "is_multi_valued", "is_long_name_preferred", "is_short_name_preferred")
ARG_FIELDS = ("out", "name", "flags", "default", "is_required", "is_optional", "is_multi_valued")


def _ctor_model(ans):
    if "err" in ans:
        return {"out": "err", "exc": ans["err"]}
    d = dict(ans["ok"])
    d["out"] = "ok"
    return d


def model_obs(case, answers):
    k = case["k"]
    if k in ("opt", "misc_opt", "arg", "misc_arg", "cmdopt"):
        return _ctor_model(answers[0])
    if k == "name":
        return {"accepted": answers[0]["accepted"]}
    if k in ("conv", "parse"):
        return answers[0]
    if k == "rt":
        if not answers:
            return {}
        return {"text": answers[0], "back": answers[1]}
    if k == "engine" and case["what"] == "isalpha_table":
        return {"alpha_ok": answers[0]["alpha_ok"], "rows": answers[0]["rows"], "table": _alpha_table()}
    if k == "engine" and case["what"] == "float_rt":
        return {"rt_ok": answers[0]["rt_ok"], "engine": _float_rt(case["x"])}
    return {}


def impl_view(case, obs):
    k = case["k"]
    if k in ("opt", "misc_opt"):
        return {f: obs[f] for f in OPT_FIELDS if f in obs} if obs["out"] == "ok" else obs
    if k in ("arg", "misc_arg"):
        return {f: obs[f] for f in ARG_FIELDS if f in obs} if obs["out"] == "ok" else obs
    if k == "cmdopt":
        return obs
    if k == "name":
        return {"accepted": obs["accepted"]}
    if k in ("conv", "parse"):
        return obs
    if k == "rt":
        if type(_dec(case["value"])) is float:
            return {}
        return {"text": obs["text"], "back": obs["back"]}
    if k == "engine" and case["what"] == "isalpha_table":
        # the model must decide `true` on the table the worker's interpreter produced (63 rows)
        return {"alpha_ok": True, "rows": len(NAME_CHARS), "table": obs["table"]}
    if k == "engine" and case["what"] == "float_rt":
        return {"rt_ok": True, "engine": obs["engine"]}
    return {}


# ------------------------------------------------------------------------------------------------ oracle
def _bits(f, table):
    return {n: bool(f & v) for n, v in table.items()}


def _opt_contradiction(f, short, default):
    """the documented contradictions, None when the combination is free of them"""
    b = _bits(f, O)
    if b["NO_VALUE"] and (b["REQUIRED_VALUE"] or b["OPTIONAL_VALUE"] or b["MULTI_VALUED"]):
        return "a value-less option cannot require, optionally take or multiply a value"
    if b["OPTIONAL_VALUE"] and b["MULTI_VALUED"]:
        return "an optional value cannot be multi-valued"
    if sum(b[t] for t in TYPES) > 1:
        return "more than one value type"
    if b["PREFER_LONG_NAME"] and b["PREFER_SHORT_NAME"]:
        return "more than one name preference"
    if b["PREFER_SHORT_NAME"] and not short:
        return "short-name preference without a short name"
    takes_value = b["REQUIRED_VALUE"] or b["OPTIONAL_VALUE"] or b["MULTI_VALUED"]
    if not takes_value and default != "none":
        return "a value-less option cannot have a default"
    if b["MULTI_VALUED"] and default == "scalar":
        return "the default of a multi-valued option must be a list"
    return None


def _arg_contradiction(f, default):
    b = _bits(f, A)
    if b["REQUIRED"] and b["OPTIONAL"]:
        return "a required argument cannot be optional"
    if sum(b[t] for t in TYPES) > 1:
        return "more than one value type"
    if b["REQUIRED"] and default != "none":
        return "a required argument cannot be given a default"
    if b["MULTI_VALUED"] and default == "scalar":
        return "the default of a multi-valued argument must be a list"
    return None


def _oracle_opt(case, obs, short_given, default):
    f = case["flags"]
    why = _opt_contradiction(f, short_given, default)
    if obs["out"] == "err":
        if obs["exc"] != "ValueError":
            return "constructor raised %s, not ValueError" % obs["exc"]
        if why is None:
            return "flags %d (short %s, default %s) are free of contradictions but the constructor raised" % (
                f, short_given, default)
        return None
    if why is not None:
        return "constructed although: " + why
    g = obs["flags"]
    b = _bits(g, O)
    if g & f != f:
        return "requested flag bits were dropped: %d -> %d" % (f, g)
    extra = g & ~f
    if extra & ~sum(O.values()):
        return "undefined bits were added: %d -> %d" % (f, g)
    if sum(b[t] for t in TYPES) != 1:
        return "a constructed option must report exactly one value type (flags %d)" % g
    if b["PREFER_LONG_NAME"] == b["PREFER_SHORT_NAME"]:
        return "a constructed option must report exactly one name preference (flags %d)" % g
    if not (f & 3) and b["PREFER_SHORT_NAME"] != short_given:
        return "default name preference must follow the presence of a short name"
    if obs["accepts_value"] != (not b["NO_VALUE"]):
        return "accepts_value() must be the negation of NO_VALUE"
    modes = (obs["is_value_required"], obs["is_value_optional"], obs["is_multi_valued"])
    if not obs["accepts_value"]:
        if any(modes):
            return "a value-less option reports a value mode %r" % (modes,)
        if obs["default"] != "none":
            return "a value-less option has a default"
    else:
        if not any(modes):
            return "an option that accepts a value reports no value mode"
    if obs["is_value_optional"] and obs["is_multi_valued"]:
        return "an optional value is also multi-valued"
    # NB: REQUIRED_VALUE | OPTIONAL_VALUE is *not* among the documented contradictions (flags=24 constructs an
    # option that is both value-required and value-optional); the statement does not demand otherwise.
    if obs["is_multi_valued"] and not (obs["is_value_required"] and obs["default"] == "list"):
        return "a multi-valued option must require a value and have a list default"
    if not obs["is_multi_valued"] and obs["default"] != default:
        return "default kind %s became %s" % (default, obs["default"])
    if not obs["default_value_ok"]:
        return "the default is not the given one (or None / [] when none was given)"
    if bool(extra & O["NO_VALUE"]) and (f & (8 | 16 | 32)):
        return "NO_VALUE added although a value mode was requested"
    if bool(extra & O["REQUIRED_VALUE"]) and not (f & O["MULTI_VALUED"]):
        return "REQUIRED_VALUE added without MULTI_VALUED"
    if extra & O["NULLABLE"]:
        return "NULLABLE added"
    preds = {"is_value_required": "REQUIRED_VALUE", "is_value_optional": "OPTIONAL_VALUE",
             "is_multi_valued": "MULTI_VALUED", "is_long_name_preferred": "PREFER_LONG_NAME",
             "is_short_name_preferred": "PREFER_SHORT_NAME"}
    for p, n in preds.items():
        if obs[p] != b[n]:
            return "%s() disagrees with the %s bit of flags" % (p, n)
        if f & O[n] and not obs[p]:
            return "%s requested but %s() is false" % (n, p)
    if not obs["pred_types_ok"]:
        return "predicates must be bool and flags an int"
    return None


def _oracle_arg(case, obs, default):
    f = case["flags"]
    why = _arg_contradiction(f, default)
    if obs["out"] == "err":
        if obs["exc"] != "ValueError":
            return "constructor raised %s, not ValueError" % obs["exc"]
        if why is None:
            return "flags %d (default %s) are free of contradictions but the constructor raised" % (f, default)
        return None
    if why is not None:
        return "constructed although: " + why
    g = obs["flags"]
    b = _bits(g, A)
    if g & f != f:
        return "requested flag bits were dropped: %d -> %d" % (f, g)
    extra = g & ~f
    if extra & ~(A["OPTIONAL"] | A["STRING"]):
        return "bits other than OPTIONAL / STRING were added: %d -> %d" % (f, g)
    if sum(b[t] for t in TYPES) != 1:
        return "a constructed argument must report exactly one value type (flags %d)" % g
    if obs["is_required"] == obs["is_optional"]:
        return "a constructed argument must be exactly one of required / optional"
    if obs["is_required"] and obs["default"] != ("list" if obs["is_multi_valued"] else "none"):
        return "a required argument has a default"
    if obs["is_multi_valued"] and obs["default"] != "list":
        return "a multi-valued argument must have a list default"
    if not obs["is_multi_valued"] and obs["default"] != default:
        return "default kind %s became %s" % (default, obs["default"])
    if not obs["default_value_ok"]:
        return "the default is not the given one (or None / [] when none was given)"
    for p, n in {"is_required": "REQUIRED", "is_optional": "OPTIONAL", "is_multi_valued": "MULTI_VALUED"}.items():
        if obs[p] != b[n]:
            return "%s() disagrees with the %s bit of flags" % (p, n)
    if not obs["pred_types_ok"]:
        return "predicates must be bool and flags an int"
    return None


def _wf_long(s):
    return len(s) >= 2 and s[0] in ASCII_LETTERS and all(c in NAME_CHARS for c in s)


def _wf_short(s):
    return len(s) == 1 and s in ASCII_LETTERS


def _wf_arg(s):
    return len(s) >= 1 and s[0] in ASCII_LETTERS and all(c in NAME_CHARS for c in s)


def _strip(s, prefix):
    return s[len(prefix):] if s.startswith(prefix) else s


def _oracle_name(case, obs):
    t, kind = case["text"], case["kind"]
    if kind in ("long", "cmd_long"):
        name = _strip(t, "--")
        want = _wf_long(name)
    elif kind in ("short", "cmd_short"):
        name = _strip(t, "-")
        want = _wf_short(name)
    elif kind == "argument":
        name = t
        want = _wf_arg(name)
    else:
        # an alias carries a single leading dash at most (CommandOption strips one); see the report
        name = _strip(t, "-")
        want = _wf_short(name) or _wf_long(name)
    if obs["accepted"] != want:
        return "%s name %r: accepted=%s, well-formed=%s" % (kind, t, obs["accepted"], want)
    if not obs["accepted"] and obs.get("exc") != "ValueError":
        return "%s name %r rejected with %s, not ValueError" % (kind, t, obs.get("exc"))
    if obs["accepted"] and obs["stored"] != name:
        return "%s name %r stored as %r, expected %r" % (kind, t, obs["stored"], name)
    return None


PY_TYPE = {"string": str, "boolean": bool, "int": int, "float": float}


def _in_text_domain(t, v):
    """the quantifier of the statement: text (and None / bool / same-kind numbers); numeric cross conversions
    int(float) / float(int) are the float engine's business"""
    if type(v) is float and t == "int":
        return False
    if type(v) is int and t == "float":
        return False
    return True


def _oracle_conv(t, nullable, v, obs):
    if "err" in obs:
        if obs["err"] != "ValueError" and _in_text_domain(t, v):
            return "parse_%s(%r, %s) raised %s, not ValueError" % (t, v, nullable, obs["err"])
        return None
    r = obs["ok"]
    if r is None:
        if not nullable:
            return "parse_%s(%r, nullable=False) returned None" % (t, v)
        return None
    if nullable and (v is None or (type(v) is str and v == "null")):
        return "parse_%s(%r, nullable=True) must return None" % (t, v)
    if isinstance(r, dict):
        ok = t == "float" and r.get("float") is True
    else:
        ok = type(r) is PY_TYPE[t]
    if not ok:
        return "parse_%s(%r, %s) returned %r, not a %s" % (t, v, nullable, r, t)
    # documented words
    if t == "boolean" and type(v) is str:
        want = {"": False, "false": False, "0": False, "no": False, "off": False,
                "true": True, "1": True, "yes": True, "on": True}.get(v)
        if want is None or r is not want:
            return "parse_boolean(%r) returned %r" % (v, r)
    if t == "int" and type(v) is str and all(c in "0123456789" for c in v.strip(INT_WS).lstrip("+-").replace("_", "")):
        try:
            if r != int(v):
                return "parse_int(%r) returned %r" % (v, r)
        except ValueError:
            return "parse_int(%r) returned %r although it is not an int literal" % (v, r)
    return None


def _declared(f, table):
    b = _bits(f, table)
    for t, n in (("boolean", "BOOLEAN"), ("int", "INTEGER"), ("float", "FLOAT")):
        if b[n]:
            return t
    return "string"


def oracle(case, obs):
    k = case["k"]
    if k == "opt":
        return _oracle_opt(case, obs, case["short"], _then(case))
    if k == "arg":
        return _oracle_arg(case, obs, _then(case))
    if k == "misc_opt":
        long, short = case["long"], case["short"]
        names_ok = isinstance(long, str) and _wf_long(_strip(long, "--")) and (
            short is None or (isinstance(short, str) and _wf_short(_strip(short, "-"))))
        if not names_ok:
            if obs["out"] != "err" or obs["exc"] != "ValueError":
                return "ill-formed names %r / %r must raise ValueError, got %r" % (long, short, obs)
            return None
        d = "list" if case["default"] == "empty" else case["default"]
        return _oracle_opt(case, obs, short is not None, d)
    if k == "misc_arg":
        name, desc = case["name"], case["desc"]
        ok = isinstance(name, str) and _wf_arg(name) and (desc is None or (isinstance(desc, str) and desc != ""))
        if not ok:
            if obs["out"] != "err" or obs["exc"] != "ValueError":
                return "ill-formed name / description %r / %r must raise ValueError, got %r" % (name, desc, obs)
            return None
        d = "list" if case["default"] == "empty" else case["default"]
        return _oracle_arg(case, obs, d)
    if k == "cmdopt":
        f, short = case["flags"], case["short"]
        bad = (f & 1 and f & 2) or (f & 2 and not short)
        stripped = [_strip(a, "-") for a in case["aliases"]]
        bad = bad or not all(_wf_short(a) or _wf_long(a) for a in stripped)
        if obs["out"] == "err":
            if obs["exc"] != "ValueError":
                return "CommandOption raised %s, not ValueError" % obs["exc"]
            return None if bad else "CommandOption(flags=%d, aliases=%r) raised although well-formed" % (f, case["aliases"])
        if bad:
            return "CommandOption(flags=%d, short=%s, aliases=%r) was constructed" % (f, short, case["aliases"])
        if obs["short_aliases"] != [a for a in stripped if len(a) == 1] or \
                obs["long_aliases"] != [a for a in stripped if len(a) != 1]:
            return "aliases stored as %r / %r" % (obs["short_aliases"], obs["long_aliases"])
        g = obs["flags"]
        if g & f != f or (g & ~f) & ~3 or bool(g & 1) == bool(g & 2):
            return "CommandOption flags %d -> %d" % (f, g)
        if obs["is_long_name_preferred"] != bool(g & 1) or obs["is_short_name_preferred"] != bool(g & 2):
            return "preference predicates disagree with flags"
        if not (f & 3) and bool(g & 2) != short:
            return "default name preference must follow the presence of a short name"
        return None
    if k == "name":
        return _oracle_name(case, obs)
    if k == "conv":
        return _oracle_conv(case["type"], case["nullable"], _dec(case["value"]), obs)
    if k == "parse":
        table = O if case["via"] == "option" else A
        t = _declared(case["flags"], table)
        nullable = bool(case["flags"] & table["NULLABLE"])
        return _oracle_conv(t, nullable, _dec(case["value"]), obs)
    if k == "rt":
        v = _dec(case["value"])
        if not obs["equal"]:
            return "parse_%s(parse_string(%r)) = %r: the text form is not mapped back" % (case["type"], v, obs["back"])
        if type(v) is float and not obs["str_is_repr"]:
            return "text form of %r is not its repr" % (v,)
        return None
    if k == "engine":
        if case["what"] == "isalpha":
            if obs["isalpha"] != (case["c"] in ASCII_LETTERS) and case["c"] in NAME_CHARS:
                return "ASSUMPTION broken: str.isalpha(%r) = %s" % (case["c"], obs["isalpha"])
            return None
        if case["what"] == "isalpha_table":
            for cp, ans in obs["table"]:
                if ans != (chr(cp) in ASCII_LETTERS):
                    return "ASSUMPTION broken: str.isalpha(%r) = %s" % (chr(cp), ans)
            return None
        if not obs["rt"] or obs["null"]:
            return "ASSUMPTION broken: float(repr(x)) != x for x = %s" % case["x"]
        return None
    if k == "consts":
        for n, v in O.items():
            if obs["Option." + n] != v:
                return "Option.%s is %r, documented value %d" % (n, obs["Option." + n], v)
        for n, v in A.items():
            if obs["Argument." + n] != v:
                return "Argument.%s is %r, documented value %d" % (n, obs["Argument." + n], v)
        return None
    return "unknown case kind"


# ------------------------------------------------------------------------------------------------ bookkeeping
def nontrivial_key(case, obs):
    if case["k"] in ("engine", "consts"):
        return None
    return repr(sorted(case.items(), key=lambda kv: kv[0]))


def bucket(case, obs):
    k = case["k"]
    if k in ("opt", "arg", "misc_opt", "misc_arg", "cmdopt"):
        return "%s:%s" % (k, obs["out"] if obs["out"] == "ok" else obs["exc"])
    if k == "name":
        return "name.%s:%s" % (case["kind"], "accepted" if obs["accepted"] else "rejected")
    if k in ("conv", "parse"):
        t = case.get("type", case.get("via"))
        if "err" in obs:
            return "%s.%s:%s" % (k, t, obs["err"])
        r = obs["ok"]
        return "%s.%s:%s" % (k, t, "None" if r is None else ("float" if isinstance(r, dict) else type(r).__name__))
    if k == "rt":
        return "rt.%s" % case["type"]
    return k


def neighbours(case):
    k = case["k"]
    if k in ("opt", "arg", "misc_opt", "misc_arg", "cmdopt"):
        for i in range(13):
            c = dict(case)
            c["flags"] = case["flags"] ^ (1 << i)
            yield c
        for d in DEFAULTS:
            if "default" in case and d != case["default"]:
                c = dict(case)
                c["default"] = d
                yield c
        if "short" in case and isinstance(case["short"], bool):
            c = dict(case)
            c["short"] = not case["short"]
            yield c
        for f in (0, 4, 8, 16, 32, 40, 128, 256, 512, 1024):
            c = dict(case)
            c["flags"] = f
            yield c
    elif k == "name":
        t = case["text"]
        for kind in NAME_KINDS:
            for u in [t, t[:-1], t[1:], t + "\n", t + "a", "a" + t, "-" + t, "--" + t, "ab", "c", "ab\n", "c\n",
                      "a", "a1", "a-"]:
                if (kind, u) != (case["kind"], t):
                    yield {"k": "name", "kind": kind, "text": u}
    elif k in ("conv", "parse", "rt"):
        for t in CONVS:
            for nullable in (False, True):
                for v in [case["value"], None, "null", "", "1", " 1 ", "1_0", "true", "1.5", True, 7]:
                    yield {"k": "conv", "type": t, "nullable": nullable, "value": v}
    else:
        yield {"k": "consts"}
        for f in (0, 4, 8, 16, 32, 40, 48, 128, 384):
            yield {"k": "opt", "flags": f, "short": False, "default": "none"}
        for t in ("ab", "ab\n", "a", "c\n"):
            yield {"k": "name", "kind": "long", "text": t}


def shrink(case):
    k = case["k"]
    if k in ("opt", "arg", "misc_opt", "misc_arg", "cmdopt"):
        f = case["flags"]
        for i in range(f.bit_length()):
            if f & (1 << i):
                c = dict(case)
                c["flags"] = f & ~(1 << i)
                yield c
        if case.get("default") not in (None, "none"):
            c = dict(case)
            c["default"] = "none"
            yield c
        if case.get("aliases"):
            for i in range(len(case["aliases"])):
                c = dict(case)
                c["aliases"] = case["aliases"][:i] + case["aliases"][i + 1:]
                yield c
    elif k == "name":
        t = case["text"]
        for i in range(len(t)):
            yield {"k": "name", "kind": case["kind"], "text": t[:i] + t[i + 1:]}
    elif k == "conv" and isinstance(case["value"], str):
        t = case["value"]
        for i in range(len(t)):
            c = dict(case)
            c["value"] = t[:i] + t[i + 1:]
            yield c
