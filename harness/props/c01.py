"""
C01 - parsing a well-formed command line recovers exactly the intended values.

Cases: a generated format (through the real ArgsFormatBuilder, optionally stacked on a base), an
assignment, and one spelling of it (all item kinds, groups, interleavings, `--` tail, command names
given by name/alias or with a suffix omitted).  Every case is parsed strict and lenient by the real
DefaultArgsParser and by the Lean model; the oracle re-derives the expected result from the intent.
"""
from harness import parser_common as pc

ID = "C01"
DESIGN_REF = "6/C01"
LEAN_MODULES = ["Clikit.Props.C01"]
REQUIRED_THEOREMS = ["Clikit.Props.C01." + n for n in (
    "parse_spells", "spellings_agree", "opt_single_last_wins", "opt_multi_in_order", "opt_without_value", "positional_kth",
    "runSem_other_option", "option_short_eq_long", "argument_index_eq_name", "option_default_when_absent",
    "argument_default_when_absent", "arguments_listing",
    "positionals_in_order", "command_names_realigned", "real_arguments_follow_typed_names", "wf_decides")]
TECHNIQUE = ("Lean 4 model of DefaultArgsParser/Args with theorems about the token loop and the accessors + "
             "differential correspondence on generated formats x spellings, oracle re-deriving the intended assignment")
LEVEL_TEXT = ("Proved in Lean on the parser/Args model, for EVERY format, item list, spelling and both modes: parse_spells - "
              "parsing any spelling of a list of items (positionals, --name=value, --name value, --name, --name=, -n, -nVALUE, "
              "-n VALUE, groups -abc / -abnVALUE / -abn VALUE, any interleaving, then `--` and arbitrary tokens; side "
              "conditions = the library's conventions) equals the token-free meaning of the items (each item updates the "
              "state by itself: last occurrence wins, multi-values accumulate in order, the k-th positional goes to the k-th "
              "argument, items never touch options they do not name) followed by parse()'s second half; hence two spellings "
              "of the same items parse identically. positionals_in_order / command_names_realigned / "
              "real_arguments_follow_typed_names: after the token loop the argument dictionary is exactly `fill` of the "
              "positional values in command-line order (k-th value to the k-th argument, a trailing multi-valued argument "
              "takes the rest), and _insert_missing_command_names turns it into `fill` of the values with the omitted command "
              "names put back behind the typed ones (names or aliases, longest matching prefix), so that the real arguments "
              "are filled in order with the values behind the typed command names; nothing moves when all names are typed. "
              "Also proved: access by long name, short name and position agree, "
              "everything not given reports its default. The model is tied to the code by differential runs (real parser vs "
              "model vs the token-free meaning of the generated items, strict and lenient) and an independent oracle that "
              "re-derives the intended assignment from the generator's intent.")
LEVEL_NOTE = ("Trusted: Lean kernel + standard axioms; hand-written parser model tied by correspondence; the spelling generator "
              "and the oracle (harness/parser_common.py, harness/props/c01.py). The re-alignment theorems assume a multi-valued argument "
              "is the last one and argument names are distinct (what C06 guarantees for built formats; decided by the model "
              "on every format read from the real builder - entry c01.wf, theorem wf_decides - and compared with true) and that the positionals "
              "fit the format; conversions use CPython int()/float() as tables. The shared-parser dimension (every line is "
              "also parsed on a parser object that parsed another line before) is covered by the correspondence, and by C05's "
              "theorems for the scratch state.")
RULE = ("formats (0-5 options of every mode x type x nullable x short presence, 0-4 arguments, 0-2 command names with "
        "aliases, with/without base) x assignment x one random spelling (long=, long sp, short attached, short sp, "
        "grouped flags, interleaving, -- tail, command names by name/alias or suffix omitted), each parsed by a fresh "
        "parser and by a parser object that parsed another line of the format before; plus the bare line after a line "
        "that set something; non-trivial = at least "
        "two items set; distinct = distinct (format, tokens)")
TRUSTED_BASE = [
    "Lean 4.33 kernel; axioms within propext, Classical.choice, Quot.sound (audited per theorem on every run)",
    "lean/Clikit/Model/Parser.lean: hand-written model of DefaultArgsParser/Args (modelled, not verified; tied by the correspondence)",
    "harness/parser_common.py (format/line generators) and the oracle in harness/props/c01.py",
    "CPython int()/float(): parameters of the model, supplied as tables by the running interpreter",
]
ASSUMPTIONS = [
    "the spelling-recovers-assignment claim itself is explored (seeded generation), not proved",
    "an optional-value option given without a value reports its default converted to the declared type (as the code does)",
]
BATCH = 2000
# a safety cut-off, not a work limit: the quick stream takes about a minute on a quiet machine and must not be cut on a
# slower one (a cut stream makes the evidence depend on the machine's load)
BUDGET_S = {"quick": 200, "thorough": 900}


def generate(tier, rng):
    n = 20000 if tier == "quick" else 300000
    for k in range(n):
        spec = pc.gen_format(rng)
        try:
            tokens, intent = pc.gen_line(rng, spec, omit_cmd_suffix=(rng.random() < 0.3))
            # an earlier line for the same format, parsed before on the same parser object
            prev, _ = pc.gen_line(rng, spec, omit_cmd_suffix=(rng.random() < 0.3))
        except Exception as e:  # generator bug: make it visible
            raise
        yield {"spec": spec, "tokens": tokens, "intent": intent, "prev": prev}
        if k % 10 == 0:
            # the bare line after a line that set something (well-formed when nothing is required)
            cmds, args, opts = pc.spec_flat(spec)
            if not cmds and not any(a["mode"] in ("required", "multi_required") for a in args) and tokens:
                empty = dict(intent, args={}, opts={}, sems=[], n_given_cmds=0)
                yield {"spec": spec, "tokens": [], "intent": empty, "prev": tokens}


def exhaustive(tier):
    return False


def run_impl(case):
    from clikit.args.default_args_parser import DefaultArgsParser
    fmt = pc.build_format(case["spec"])
    flat = pc.flatten(fmt)
    argv = ["prog"] + list(case["tokens"])      # ONE list object for both parses, as a program re-using sys.argv does
    return {"flat": flat,
            "strict": pc.run_parse(DefaultArgsParser(), fmt, case["tokens"], False, argv=argv),
            "lenient": pc.run_parse(DefaultArgsParser(), fmt, case["tokens"], True, argv=argv),
            "strict_reused": pc.run_reused(fmt, case.get("prev", []), case["tokens"], False),
            "lenient_reused": pc.run_reused(fmt, case.get("prev", []), case["tokens"], True)}


def model_requests(case):
    # the flattened format is read from the real object: recompute it here (parent process)
    fmt = pc.build_format(case["spec"])
    flat = pc.flatten(fmt)
    reqs = [pc.model_request(flat, case["tokens"], False), pc.model_request(flat, case["tokens"], True)]
    # the token-free meaning of the same items (theorem parse_spells: parse(line) = parseSem(items))
    for len_ in (False, True):
        r = pc.model_request(flat, case["tokens"], len_, entry="c01.sem")
        r["sems"] = case["intent"]["sems"]
        reqs.append(r)
    # the hypotheses of the re-alignment theorems, decided by the model on the format the REAL builder produced
    reqs.append({"m": "c01.wf", "fmt": flat})
    return reqs


def model_obs(case, answers):
    # the model's parse is a function of the line: a reused parser object must answer the same
    return {"strict": pc.canon_model_answer(answers[0]), "lenient": pc.canon_model_answer(answers[1]),
            "strict_reused": pc.canon_model_answer(answers[0]), "lenient_reused": pc.canon_model_answer(answers[1]),
            "meaning_strict": pc.canon_model_answer(answers[2]), "meaning_lenient": pc.canon_model_answer(answers[3]),
            "wf": answers[4]}


def impl_view(case, obs):
    return {"strict": obs["strict"], "lenient": obs["lenient"],
            "strict_reused": obs["strict_reused"], "lenient_reused": obs["lenient_reused"],
            "meaning_strict": obs["strict"], "meaning_lenient": obs["lenient"],
            # every format that can be built has its multi-valued argument last and distinct argument names (C06)
            "wf": {"multi_last": True, "nodup": True}}


# ---- the statement, re-derived independently --------------------------------------------------
def _conv(ty, nullable, v):
    """what 'converted to the declared type' means, written against Python directly"""
    if nullable and (v is None or v == "null"):
        return None
    if ty == "string":
        if v is None:
            return "null"
        if isinstance(v, bool):
            return str(v).lower()
        return str(v)
    if ty == "boolean":
        if isinstance(v, bool):
            return v
        if isinstance(v, int):
            v = str(v)
        if isinstance(v, str):
            if v in ("", "false", "0", "no", "off"):
                return False
            if v in ("true", "1", "yes", "on"):
                return True
        raise ValueError
    if ty == "integer":
        if v is None:
            raise ValueError
        return int(v)
    if v is None:
        raise ValueError
    return float(v)


def expected(case):
    cmds, args, opts = pc.spec_flat(case["spec"])
    intent = case["intent"]
    ex_args, ex_opts = {}, {}
    for a in args:
        if a["name"] in intent["args"]:
            v = intent["args"][a["name"]]
            if a["mode"].startswith("multi"):
                ex_args[a["name"]] = [_conv(a["type"], a["nullable"], x) for x in v]
            else:
                ex_args[a["name"]] = _conv(a["type"], a["nullable"], v)
    for o in opts:
        if o["long"] in intent["opts"]:
            v = intent["opts"][o["long"]]
            if o["mode"] == "flag":
                ex_opts[o["long"]] = True
            elif o["mode"] == "multi":
                ex_opts[o["long"]] = [_conv(o["type"], o["nullable"], x) for x in v]
            elif v == ["novalue"]:
                ex_opts[o["long"]] = _conv(o["type"], o["nullable"], pc.dec(o.get("default")))
            else:
                ex_opts[o["long"]] = _conv(o["type"], o["nullable"], v)
    return ex_args, ex_opts


def _default_arg(a):
    d = pc.dec(a.get("default"))
    if a["mode"].startswith("multi") and d is None:
        return []
    return d


def _default_opt(o):
    if o["mode"] == "flag":
        return False
    d = pc.dec(o.get("default"))
    if o["mode"] == "multi" and d is None:
        return []
    return d


MODES = ("strict", "lenient", "strict_reused", "lenient_reused")


def oracle(case, obs):
    cmds, args, opts = pc.spec_flat(case["spec"])
    try:
        ex_args, ex_opts = expected(case)
    except (ValueError, OverflowError):
        # the assignment has a value that does not convert: the statement requires a ValueError (C02)
        for mode in MODES:
            if obs[mode].get("err") != "ValueError":
                return "%s: a value of the assignment does not convert but the result is %s" % (mode, str(obs[mode])[:200])
        return None
    for mode in MODES:
        r = obs[mode]
        if "err" in r:
            return "%s parse of a well-formed line raised %s" % (mode, r["err"])
        o = r["ok"]
        want_args_set = [[a["name"], pc.enc(ex_args[a["name"]])] for a in args if a["name"] in ex_args]
        if o["args_set"] != want_args_set:
            return "%s: arguments set %s, intended %s" % (mode, o["args_set"], want_args_set)
        want_opts_set = sorted([[k, pc.enc(v)] for k, v in ex_opts.items()], key=lambda p: p[0])
        if o["opts_set"] != want_opts_set:
            return "%s: options set %s, intended %s" % (mode, o["opts_set"], want_opts_set)
        want_args_all = [[a["name"], pc.enc(ex_args[a["name"]] if a["name"] in ex_args else _default_arg(a))] for a in args]
        if o["args_all"] != want_args_all:
            return "%s: arguments(True) %s, expected %s" % (mode, o["args_all"], want_args_all)
        want_opts_all = sorted([[x["long"], pc.enc(ex_opts[x["long"]] if x["long"] in ex_opts else _default_opt(x))]
                                for x in opts], key=lambda p: p[0])
        if o["opts_all"] != want_opts_all:
            return "%s: options(True) %s, expected %s" % (mode, o["opts_all"], want_opts_all)
        # access by long name, short name, name, position agree with the listings
        all_opts = dict((k, v) for k, v in o["opts_all"])
        for ent, sh in zip(o["option_long"], o["option_short"]):
            if ent[1] != {"v": all_opts[ent[0]]}:
                return "%s: option(%r) = %s but options() says %s" % (mode, ent[0], ent[1], all_opts[ent[0]])
            if sh is not None and sh[1] != ent[1]:
                return "%s: option(%r) = %s differs from option(%r) = %s" % (mode, sh[0], sh[1], ent[0], ent[1])
        all_args = dict((k, v) for k, v in o["args_all"])
        for ent, byidx in zip(o["argument_name"], o["argument_index"]):
            if ent[1] != {"v": all_args[ent[0]]}:
                return "%s: argument(%r) = %s but arguments() says %s" % (mode, ent[0], ent[1], all_args[ent[0]])
            if byidx != ent[1]:
                return "%s: argument by position %s differs from argument(%r) = %s" % (mode, byidx, ent[0], ent[1])
    return None


def nontrivial_key(case, obs):
    n = len(case["intent"]["args"]) + len(case["intent"]["opts"])
    if n >= 2:
        return pc_key(case)
    return None


def pc_key(case):
    import json
    return json.dumps([case["spec"], case["tokens"]], sort_keys=True)


def bucket(case, obs):
    cmds, args, opts = pc.spec_flat(case["spec"])
    kinds = []
    t = case["tokens"]
    if "--" in t:
        kinds.append("dd")
    if any(x.startswith("--") and "=" in x for x in t):
        kinds.append("long=")
    if any(len(x) > 2 and x[0] == "-" and x[1] != "-" for x in t):
        kinds.append("shortatt/group")
    if case["intent"]["n_given_cmds"] < len(cmds):
        kinds.append("cmd-omitted")
    if len(case["spec"]["levels"]) > 1:
        kinds.append("base")
    r = "err" if "err" in obs["strict"] else "ok"
    return "%s|%s" % (r, "+".join(kinds) or "plain")


def shrink(case):
    # drop one token at a time is not meaning-preserving for C01; shrink the format instead: no-op
    return iter(())
