"""
C13 - help pages are complete, respect hiding, fit the terminal and never fail.

Cases: command trees from harness/app_common.gen_tree, EXTENDED here with 0-3 arguments and 0-3
options of every flag kind (flag / required / optional / multi-valued, preferred long or short name,
with and without short name), descriptions absent / short / several lines long, defaults of every
type, command descriptions and help texts; an application built on the DEFAULT application
configuration (`help` command, global options, `-h/--help` listener); a terminal width; ANSI or plain;
the OUTER INDENTATION the pages are rendered at - the public optional parameter of
`Component.render(io, indentation)` (0 for half of the cases, 1..8 for the others: a help page nested under
a heading of the caller's own).

Implementation side: `ApplicationHelp(app).render(io)` and `CommandHelp(cmd).render(io)` for every
command of the tree (direct page comparison with the Lean model, ANSI codes stripped), and
`app.run(...)` with string streams for `help <path>`, `<path> --help`, `<path> -h`.
The Lean model gets the configuration tree read from the REAL CommandConfig / Command / Option /
Argument objects.  `wrapH` (the wrap the model is run with) is compared with `textwrap.wrap` on every
text x width a page uses.  The oracle re-states the property on the rendered text only.
"""
import json
import os
import re

from harness import app_common as ac
from harness import parser_common as pc

ID = "C13"
DESIGN_REF = "6/C13"
LEAN_MODULES = ["Clikit.Props.C13"]
REQUIRED_THEOREMS = ["Clikit.Props.C13." + n for n in (
    "help_total", "help_complete", "help_names", "help_inherits", "help_hides", "help_width", "help_width_pages",
    "help_indent_zero", "help_total_indented", "width_ok_decides", "help_width_indented", "help_width_pages_indented",
    "help_wrap_contract", "help_same_page", "help_same_page_partial", "help_same_page_facts", "help_same_page_default",
    "help_same_page_wired", "help_same_page_wired_decides", "dApp_same_page",
    "help_page_text", "app_help_run_prints_page", "app_help_command_prints_page", "app_help_command_same_text")]
TECHNIQUE = ("Lean 4 theorems on a model of ApplicationHelp / CommandHelp / BlockLayout / LabelAlignment / "
             "LabeledParagraph / Paragraph and of the help resolver, parametric in textwrap.wrap (contract: every line fits "
             "the requested width), + differential correspondence of whole pages on generated configurations x widths x "
             "ANSI/plain, with a declarative oracle on the rendered text")
LEVEL_TEXT = ("Proved in Lean for EVERY configuration tree, terminal width and wrap function satisfying the length contract "
              "(instantiated with the textwrap models wrap and wrapH): under the decidable condition widthOK (terminal >= "
              "longest label + its offset + 2) rendering an application or command page never fails (no wrap call with a width "
              "< 1, no None text - the D14 repair is an explicit obligation); every argument (own and inherited), every own, "
              "inherited and global option (label shows the preferred and the alternative name) and every non-hidden, enabled, "
              "named (sub-)command is an element of the page; the command entries of a page are exactly the visible ones (no "
              "hidden, disabled or anonymous command); every rendered line is shorter than the terminal (and on a narrower "
              "terminal than widthOK allows rendering does fail: the margin is exact); the same for a page rendered with the "
              "optional parameter render(io, indentation=k), whose elements and alignment offset are shifted by k "
              "(help_total_indented under widthOKAt = outer indentation + longest label + offset + 2, help_width_indented: "
              "every line, the outer indentation included, is shorter than the terminal; help_indent_zero: k = 0 is the "
              "plain rendering); `help <path>` and `<path> --help|-h` "
              "hand the resolver the same leading names, so it walks to the same command (help_same_page, unconditional); and the "
              "PAGE SHOWN IS THE SAME, or both fail with the same error (help_same_page_default: helpTarget(help <path>) = "
              "helpTarget(<path> --help|-h)), with NO hypothesis about what the parser returns - only about the shape of the "
              "command tree: the path is name-like tokens and does not start with help (or an alias of it); "
              "get_command('help') is wired as in DefaultApplicationConfig (HelpCmd: named help, not anonymous, no sub-commands, "
              "format = command name help + the optional multi-valued string argument `command` + the switch as a flag); every "
              "command of the tree (InTree) declares the switch as a flag (FlagOf: found under its long name resp. short name, "
              "accepts no value). Proved through: a declared flag appended to a line of names changes no parse outcome in "
              "either mode (parse_flag_appended); the help resolver only parses with commands of the tree "
              "(helpResolve_congr_tree); the help command receives the path in both spellings - typed name vs. re-inserted "
              "omitted name (resolve_help, help_parse_switch; summarised as help_same_page_facts); instantiated on a concrete "
              "default-configuration application (dApp_same_page). help_same_page_partial (any switch token, any wiring, under "
              "three explicit parser facts, statement help_same_page_full) is kept for non-default configurations. "
              "help_same_page_wired: the same conclusion from hypotheses that are all evaluated by the model - wiredB app sw "
              "(get_command('help') is the help command, every command of the tree declares the switch as a flag) and "
              "headFreeB app path (the path does not start with a name of the help command); wiredB is decided on every real "
              "tree of the correspondence (c13.wired) and answered true on all of them. "
              "END TO END (Model/AppHelp.lean helpRun = the run model of C09 composed with the page of its outcome): "
              "app_help_run_prints_page - for every application, handler assignment, width and line with the help switch "
              "(hypotheses of C09.app_help_switch + the page of the target exists, its help text has no brace, widthOK) the run "
              "has status 0, invokes no handler and PRINTS the rendering of the page of the selected command, every line "
              "shorter than the terminal, listing every own / inherited / global option and argument and every non-hidden "
              "sub-command (PageLists); app_help_command_prints_page - the same for `help` / `help <path>`; "
              "app_help_command_same_text - under wiredB / headFreeB and neither run being a version request, `help <path>` "
              "and `<path> --help|-h` have the same outcome and print the SAME TEXT at every width. The composed model's "
              "answer (help page, status 0, no handler, text) is what the correspondence compares with the real runs. "
              "The model is tied to the code by comparing whole pages on generated configurations.")
LEVEL_NOTE = ("Trusted: Lean kernel + standard axioms; the hand-written page/layout/resolver/parser models (modelled, not verified; "
              "compared with the real pages on every generated case); textwrap.wrap, json.dumps, str.format, pastel as "
              "external engines (wrap: modelled + compared on every call; tags: only the tags the help pages emit). Labels are "
              "modelled by their visible text. help_same_page_default assumes the default wiring (HelpCmd / FlagOf on every "
              "format of the tree) as hypotheses on the model tree; these structural hypotheses are DECIDED BY THE MODEL ON "
              "EVERY REAL TREE: the executable wiredB (Model/HelpWired.lean; sound by wiredB_sound, used by "
              "help_same_page_wired) is evaluated by the driver entry c13.wired on the tree read from every generated "
              "DefaultApplicationConfig application, for -h and --help, and compared with true - so that real default "
              "applications satisfy the hypotheses is tested on every case, not proved for all configurations (a command "
              "that re-declares its own option `help`/`-h` with a value, or a re-wired help command, would answer false).")
RULE = ("gen_tree configurations (depth<=3, fan-out<=3, aliases, default/anonymous/hidden/disabled) extended with 0-3 "
        "arguments / 0-3 options of every kind, descriptions absent/short/long, defaults of every type, help texts; on the "
        "default application config; x widths (quick: 6 per configuration from 40..200 plus narrow ones around the minimum; "
        "thorough: more) x ANSI/plain x outer indentation of the direct renderings (render(io, indentation): 0 for "
        "half of the cases, else one of 1, 2, 3, 4, 6, 8; the minimum width the statement speaks of grows by it); per case: application page, every command page, 3 spellings of help for up to 3 "
        "paths; non-trivial = the configuration has at least one command with an argument or option; distinct = (configuration, "
        "width, ansi, indentation)")
TRUSTED_BASE = [
    "Lean 4.33 kernel; axioms within propext, Classical.choice, Quot.sound (audited per theorem on every run)",
    "lean/Clikit/Model/Help.lean, Model/HelpWrap.lean, Model/Wrap.lean, Model/Resolver.lean, Model/Parser.lean, Model/App.lean, Model/AppHelp.lean (+ Switches, Run): hand-written models (modelled, not verified; tied by the correspondence)",
    "textwrap.wrap (CPython 3.12) - modelled by wrapH and compared on every text x width used; json.dumps; str.format; pastel's tag removal for <b>, <u>, <c1>",
    "harness/app_common.py, harness/props/c13.py: generators, extraction of the configuration tree from the real objects, oracle",
]
ASSUMPTIONS = [
    "descriptions / help texts contain no '<', '>', '\\\\', braces or tabs; hyphenated words are shorter than every wrap width used",
    "argument and command names are not style-tag names (an argument named `b` or `info` is swallowed by the formatter - see report)",
    "sibling commands have distinct names; no global arguments; `set_description(None)` on a command is outside (its type is str)",
    "the outer indentation is the non-negative integer the parameter of Component.render is documented as (0..8 generated); it applies to the direct renderings - the runs of `help <path>` / `<path> --help` pass none",
    "the path of `help <path>` names commands of the generated tree (`help help` shows the page of `help`, `help --help` the application page)",
]
BATCH = 300
BUDGET_S = {"quick": 200, "thorough": 800}   # quick: a safety cut-off only (about 65 s on a quiet machine)

ANSI_RE = re.compile(r"\x1b\[[0-9;]*m")
# outer indentation of the direct renderings (the runs of `help ...` never pass one)
INDENTS = [0, 0, 0, 0, 0, 0, 1, 2, 3, 4, 6, 8]

OPT_POOL = [[("force", "f"), ("level", "l"), ("pattern", "p")],
            [("bar", "b"), ("count", "c"), ("dryrun", "d")],
            [("opt", "o"), ("retries", "r"), ("exclude", "x")]]
SHORT = ["Short text", "Do it", "The name of the thing", "x"]
WORDS = ["the", "server", "is", "started", "with", "every", "configured", "plugin", "and", "re-use", "of", "a", "long-running",
         "session", "unless", "told", "otherwise;", "see", "(the", "manual)", "for", "details.", "Values", "are", "checked",
         "first,", "then", "applied", "in", "order", "été", "42", "items", "well-known",
         # tokens without a break point that are longer than most text columns (a URL, a path): the wrapper must cut them
         "https://example.org/docs/configuration/reference.html", "/usr/local/share/mytool/plugins/enabled.d"]


def _long_text(rng, lines_ok=True):
    n = rng.randint(12, 40)
    out = []
    for i in range(n):
        out.append(rng.choice(WORDS))
        if lines_ok and rng.random() < 0.08:
            out[-1] += "\n"
    t = " ".join(out).replace("\n ", "\n")
    return t.strip()


def _descr(rng):
    r = rng.random()
    if r < 0.3:
        return None
    if r < 0.65:
        return rng.choice(SHORT)
    return _long_text(rng)


def _default(rng, ty, multi):
    def one():
        if ty == "integer":
            return rng.choice([3, 12, 0])
        if ty == "float":
            return rng.choice([2.5, 0.5])
        if ty == "boolean":
            return rng.choice([True, False])
        return rng.choice(["dflt", "two words", ""])
    if multi:
        return rng.choice([None, [], [one()], [one(), one()]])
    return rng.choice([None, one(), one()])


def _extend_cmd(rng, c, depth, under_default):
    """replace the arguments / options of a gen_tree command by the C13 vocabulary"""
    r = rng.random()
    c["description"] = "" if r < 0.3 else (rng.choice(SHORT) if r < 0.65 else _long_text(rng))
    r = rng.random()
    if r < 0.5:
        c["help"] = None
    elif r < 0.75:
        c["help"] = rng.choice(SHORT)
    else:
        paras = [_long_text(rng, False) for _ in range(rng.randint(1, 3))]
        c["help"] = rng.choice(["\n", "\n\n"]).join(paras) + rng.choice(["", "", "\n"])
    opts = []
    for (ln, sh) in rng.sample(OPT_POOL[depth], rng.randint(0, 3)):
        mode = rng.choice(["flag", "required", "optional", "multi"])
        ty = rng.choice(pc.TYPES) if mode != "flag" else "string"
        short = sh if rng.random() < 0.7 else None
        prefer = rng.choice([None, None, "long", "short"])
        if prefer == "short" and short is None:
            prefer = None
        o = {"long": ln, "short": short, "mode": mode, "type": ty, "nullable": rng.random() < 0.2, "prefer": prefer,
             "description": _descr(rng), "value_name": rng.choice(["...", "...", "val"])}
        if mode != "flag":
            o["default"] = pc.enc(_default(rng, ty, mode == "multi"))
        opts.append(o)
    c["opts"] = opts
    args = []
    if not c["subs"]:
        n_args = rng.randint(0, 3)
        n_req = rng.randint(0, n_args)
        for i in range(n_args):
            ty = rng.choice(pc.TYPES)
            mode = "required" if i < n_req else "optional"
            if i == n_args - 1 and rng.random() < 0.3:
                mode = "multi_required" if i < n_req else "multi"
            a = {"name": pc.ARGNAMES[i], "mode": mode, "type": ty, "nullable": False, "description": _descr(rng)}
            if mode in ("optional", "multi"):
                a["default"] = pc.enc(_default(rng, ty, mode == "multi"))
            args.append(a)
    elif rng.random() < 0.3:
        # an inherited (required, single-valued) argument
        args.append({"name": "p%d" % depth, "mode": "required", "type": "string", "nullable": False, "description": _descr(rng)})
    c["args"] = args
    for s in c["subs"]:
        _extend_cmd(rng, s, depth + 1, under_default or s["default"])


def gen_config(rng):
    tree = ac.gen_tree(rng)
    for c in tree["commands"]:
        _extend_cmd(rng, c, 0, c["default"])
    # a SUB-command may be called `help` (or have it as an alias): `<path> --help` is still the page of <path>
    if rng.random() < 0.15:
        parents = [c for c in tree["commands"] if c["subs"]]
        if parents:
            s = rng.choice(rng.choice(parents)["subs"])
            if rng.random() < 0.6:
                s["name"] = "help"
            else:
                s["aliases"] = list(s["aliases"]) + ["help"]
    r = rng.random()
    meta = {"name": rng.choice(["app", "app", "my-tool"]), "version": rng.choice(["1.2.3", "1.2.3", None]),
            "help": None if r < 0.5 else (rng.choice(SHORT) if r < 0.7 else _long_text(rng, False) + "\n\n" + _long_text(rng, False))}
    # the first line of the application page (display name + version) is a paragraph like any other: long ones wrap
    r2 = rng.random()
    if r2 < 0.25:
        meta["display_name"] = rng.choice(["A command line tool with quite a long display name indeed",
                                           "Tool", "The Frobnicator Suite - Community Edition (nightly builds)"])
    if r2 < 0.15 or 0.25 <= r2 < 0.35:
        meta["version"] = rng.choice(["1.2.3-beta.4+build.20190902", "2019.09.02 (revision 5114f85, built on a Monday)"])
    return {"tree": tree, "meta": meta}


def _denotes(level, tok):
    """the command a token names among its siblings, as the library's collections decide it: a NAME shadows any
    alias, among colliding aliases the last registration wins"""
    named = [c for c in level if not c["anonymous"]]
    for c in named:
        if c["name"] == tok:
            return c
    hit = [c for c in named if tok in c["aliases"]]
    return hit[-1] if hit else None


def _paths(rng, tree):
    """up to 3 name paths of the tree (any depth, names or aliases, hidden commands included)"""
    out = []
    for _ in range(3):
        level = ac.enabled(tree["commands"])
        p = []
        for d in range(rng.randint(1, 3)):
            named = [c for c in level if not c["anonymous"]]
            if not named:
                break
            node = rng.choice(named)
            tok = rng.choice([node["name"]] + node["aliases"]) if rng.random() < 0.3 else node["name"]
            if _denotes(level, tok) is not node:
                # an alias that a sibling's name (or a later sibling's alias) shadows does not name this command
                tok = node["name"]
            if _denotes(level, tok) is not node:
                break
            p.append(tok)
            level = ac.enabled(node["subs"])
        if p and p not in out:
            out.append(p)
    if rng.random() < 0.3:
        out.append([])
    return out


def generate(tier, rng):
    n = 300 if tier == "quick" else 3000
    for _ in range(n):
        cfg = gen_config(rng)
        paths = _paths(rng, cfg["tree"])
        if tier == "quick":
            widths = [40, rng.randint(41, 60), rng.randint(61, 100), rng.randint(101, 200), rng.choice([80, 120, 200]),
                      rng.randint(26, 39)]
        else:
            widths = [40, 200, rng.randint(26, 39)] + [rng.randint(41, 199) for _ in range(7)]
        for w in widths:
            ansi = rng.random() < 0.5
            # the pages are also rendered the way a caller nests them under something of its own:
            # `ApplicationHelp(app).render(io, indentation)` / `CommandHelp(cmd).render(io, indentation)`
            indent = rng.choice(INDENTS)
            yield {"config": cfg, "width": w, "ansi": ansi, "paths": paths, "indent": indent}


def exhaustive(tier):
    return False


# ----------------------------------------------------------------------------- building the real application
def _opt_flags(o):
    from clikit.api.args.format.option import Option
    f = pc.opt_flags(o["mode"], o["type"], o["nullable"])
    if o.get("prefer") == "long":
        f |= Option.PREFER_LONG_NAME
    elif o.get("prefer") == "short":
        f |= Option.PREFER_SHORT_NAME
    return f


def _configure(cfg, spec):
    for a in spec["aliases"]:
        cfg.add_alias(a)
    if spec["anonymous"]:
        cfg.anonymous()
    elif spec["default"]:
        cfg.default()
    if spec["hidden"]:
        cfg.hide()
    if not spec["enabled"]:
        cfg.disable()
    if spec["lenient"]:
        cfg.enable_lenient_args_parsing()
    if spec.get("description"):
        cfg.set_description(spec["description"])
    if spec.get("help") is not None:
        cfg.set_help(spec["help"])
    for o in spec["opts"]:
        kw = {"value_name": o.get("value_name", "...")}
        if o["mode"] != "flag":
            kw["default"] = pc.dec(o.get("default"))
        cfg.add_option(o["long"], o.get("short"), _opt_flags(o), o.get("description"), **kw)
    for a in spec["args"]:
        cfg.add_argument(a["name"], pc.arg_flags(a["mode"], a["type"], a["nullable"]), a.get("description"),
                         pc.dec(a.get("default")))
    for s in spec["subs"]:
        _configure(cfg.create_sub_command(s["name"]), s)


def build_app(config):
    from clikit.config.default_application_config import DefaultApplicationConfig
    from clikit.console_application import ConsoleApplication
    meta = config["meta"]
    cfg = DefaultApplicationConfig(meta["name"], meta["version"])
    cfg.set_catch_exceptions(True)
    cfg.set_terminate_after_run(False)
    if meta.get("display_name") is not None:
        cfg.set_display_name(meta["display_name"])
    if meta.get("help") is not None:
        cfg.set_help(meta["help"])
    tree = config["tree"]
    if tree.get("global_flag"):
        cfg.add_option("gflag", "g")
    for c in tree["commands"]:
        _configure(cfg.create_command(c["name"]), c)
    return ConsoleApplication(cfg)


# ----------------------------------------------------------------------------- the model's input, from the REAL objects
def _dflt(v):
    if v is None:
        return None
    return {"json": json.dumps(v), "len": len(v) if isinstance(v, list) else None}


def _x_arg(a):
    return {"name": a.name, "required": bool(a.is_required()), "multi": bool(a.is_multi_valued()),
            "descr": a.description, "dflt": _dflt(a.default)}


def _x_opt(o):
    return {"long": o.long_name, "short": o.short_name, "prefer_long": bool(o.is_long_name_preferred()),
            "accepts": bool(o.accepts_value()), "required": bool(o.is_value_required()),
            "optional": bool(o.is_value_optional()), "multi": bool(o.is_multi_valued()),
            "value_name": o.value_name, "descr": o.description, "dflt": _dflt(o.default)}


EMPTY_FMT = {"cmds": [], "args": [], "opts": []}


def _x_cmd(cc, command):
    """cc: CommandConfig; command: the Command built from it (None for a disabled configuration)"""
    subs = []
    for sc in cc.sub_command_configs:
        sub = None
        if command is not None and sc.is_enabled():
            for s in command.sub_commands:
                if s.config is sc:
                    sub = s
        subs.append(_x_cmd(sc, sub))
    return {"name": cc.name, "aliases": list(cc.aliases), "default": bool(cc.is_default()),
            "anonymous": bool(cc.is_anonymous()), "hidden": bool(cc.is_hidden()), "enabled": bool(cc.is_enabled()),
            "descr": cc.description, "help": cc.help,
            "args": [_x_arg(a) for a in cc.arguments.values()], "opts": [_x_opt(o) for o in cc.options.values()],
            "fmt": pc.flatten(command.args_format) if command is not None else EMPTY_FMT,
            "lenient": bool(cc.is_lenient_args_parsing_enabled()), "subs": subs}


def extract_app(app):
    cfg = app.config
    cmds = []
    for cc in cfg.command_configs:
        command = None
        for c in app.commands:
            if c.config is cc:
                command = c
        cmds.append(_x_cmd(cc, command))
    return {"name": cfg.name, "display_name": cfg.display_name, "version": cfg.version, "help": cfg.help,
            "opts": [_x_opt(o) for o in app.global_args_format.get_options().values()], "cmds": cmds}


def all_commands(app):
    out = []

    def walk(c):
        out.append(c)
        for s in c.sub_commands:
            walk(s)
    for c in app.commands:
        walk(c)
    return out


def _lines_of(case):
    lines = []
    extra = ["--ansi"] if case["ansi"] else []
    for p in case["paths"]:
        lines.append(["help"] + list(p) + extra)
        lines.append(list(p) + ["--help"] + extra)
        lines.append(list(p) + ["-h"] + extra)
    return lines


# ----------------------------------------------------------------------------- running the implementation
def _outside(text, width):
    """is this textwrap.wrap call outside the modelled alphabet?  (a hyphenated chunk longer than the
    width is broken after its last hyphen by _handle_long_word; tabs and other whitespace are not modelled)"""
    import textwrap
    if re.search(r"[\t\x0b\x0c\r]", text):
        return True
    tw = textwrap.TextWrapper()
    return any("-" in c and len(c) > width for c in tw._split(tw._munge_whitespace(text)))


def _layout_of(help_component):
    """the real BlockLayout of a page: (minimum width by the statement's rule, labels)"""
    from clikit.formatter import PlainFormatter
    from clikit.ui.components import LabeledParagraph, Paragraph
    from clikit.ui.layout import BlockLayout
    layout = BlockLayout()
    help_component._render_help(layout)
    fmt = PlainFormatter()
    layout._alignment.align(fmt, 0)
    off = layout._alignment.text_offset
    need = 0
    labels = []
    for el, ind in zip(layout._elements, layout._indentations):
        if isinstance(el, LabeledParagraph):
            ln = len(fmt.remove_format(el.label))
            to = max(off - ind if el.is_aligned() else 0, ln + el.padding)
            need = max(need, ind + to + 2)
            labels.append(fmt.remove_format(el.label))
        elif isinstance(el, Paragraph):
            need = max(need, ind + 2)
    return need, labels


def _render(component, width, ansi, style_set, indent=0):
    import textwrap
    from clikit.formatter import AnsiFormatter, PlainFormatter
    from clikit.io.buffered_io import BufferedIO
    from clikit.ui.rectangle import Rectangle
    io = BufferedIO(formatter=AnsiFormatter(style_set, True) if ansi else PlainFormatter(style_set))
    io.set_terminal_dimensions(Rectangle(width, 25))
    calls = []
    orig = textwrap.wrap

    def rec(text, width=70, **kw):
        calls.append((text, width))
        return orig(text, width, **kw)
    textwrap.wrap = rec
    try:
        try:
            if indent:
                component.render(io, indent)         # the public optional parameter of Component.render
            else:
                component.render(io)
            res = {"ok": ANSI_RE.sub("", io.fetch_output())}
        except Exception as e:  # noqa
            res = {"err": type(e).__name__}
    finally:
        textwrap.wrap = orig
    res["outside"] = any(isinstance(t, str) and w >= 1 and _outside(t, w) for (t, w) in calls)
    try:
        res["min_width"], res["labels"] = _layout_of(component)
        # the longest label plus its margin stands `indent` columns further right
        res["min_width"] += indent
    except Exception as e:  # noqa
        res["min_width"], res["labels"] = None, []
        res["layout_err"] = type(e).__name__
    return res


def _run(app, tokens, width):
    from clikit.args.argv_args import ArgvArgs
    from clikit.io.input_stream import StringInputStream
    from clikit.io.output_stream import BufferedOutputStream
    os.environ["COLUMNS"] = str(width)
    os.environ["LINES"] = "25"
    import textwrap
    out, err = BufferedOutputStream(), BufferedOutputStream()
    calls = []
    orig = textwrap.wrap

    def rec(text, width=70, **kw):
        calls.append((text, width))
        return orig(text, width, **kw)
    textwrap.wrap = rec
    try:
        st = app.run(ArgvArgs(["prog"] + list(tokens)), StringInputStream(""), out, err)
    except BaseException as e:  # noqa - SystemExit included
        return {"raised": type(e).__name__}
    finally:
        textwrap.wrap = orig
    return {"status": st, "out": out.fetch(), "err": err.fetch(),
            "outside": any(isinstance(t, str) and w >= 1 and _outside(t, w) for (t, w) in calls)}


def run_impl(case):
    from clikit.ui.help import ApplicationHelp, CommandHelp
    app = build_app(case["config"])
    w, ansi = case["width"], case["ansi"]
    ss = app.config.style_set
    k = case.get("indent", 0)
    obs = {"app": _render(ApplicationHelp(app), w, ansi, ss, k), "cmds": [], "runs": []}
    for c in all_commands(app):
        obs["cmds"].append([ac.path_of(c), _render(CommandHelp(c), w, ansi, ss, k)])
    for toks in _lines_of(case):
        obs["runs"].append([toks, _run(app, toks, w)])
    return obs


# ----------------------------------------------------------------------------- the model
_CACHE = {}


def _model_input(case):
    key = json.dumps(case["config"], sort_keys=True)
    hit = _CACHE.get(key)
    if hit is None:
        app = build_app(case["config"])
        nodes = extract_app(app)
        paths = [ac.path_of(c) for c in all_commands(app)]
        texts = set()
        for c in all_commands(app):
            texts.update(pc.texts_of(pc.flatten(c.args_format), []))
        _CACHE.clear()
        hit = _CACHE[key] = (nodes, paths, texts)
    return hit


def model_requests(case):
    nodes, paths, texts = _model_input(case)
    lines = _lines_of(case)
    tx = set(texts)
    for l in lines:
        tx.update(pc.texts_of(EMPTY_FMT, l))
    ints, floats = pc.conv_tables(tx)
    # every case is built on DefaultApplicationConfig (build_app): the model also DECIDES, on the tree read from
    # the real objects, the structural hypotheses of help_same_page_default / help_same_page_wired (c13.wired)
    return [{"m": "c13.all", "app": nodes, "width": case["width"], "indent": case.get("indent", 0), "paths": paths,
             "lines": lines,
             "ints": ints, "floats": floats},
            {"m": "c13.wired", "app": nodes}]


def _page_view(res, outside):
    """what is compared of one page: the error class, or the full text - unless a wrap call was outside the
    modelled alphabet (then only that it succeeded)"""
    if "err" in res:
        return {"err": res["err"]}
    if outside:
        return {"outside": True}
    return {"ok": res["ok"]}


def _model_page(p):
    """returns (view, outside)"""
    import textwrap
    outside = False
    wrap_bad = None
    for (w, t, lines) in p.get("wraps", []):
        if w < 1:
            continue
        if _outside(t, w):
            outside = True
            continue
        if textwrap.wrap(t, w) != lines:
            wrap_bad = [w, t]
    v = _page_view(p["page"], outside)
    if wrap_bad is not None:
        v = {"wrap_model_differs_from_textwrap": wrap_bad, "page": v}
    return v, outside


def _model_width(p):
    """the hypothesis `widthOKAt` of help_total_indented as the model decides it for this page and terminal, with the
    threshold `minWidthAt` (Props.C13.width_ok_decides); None when the page has no layout (help text with braces)"""
    if "min_width" not in p or p["page"].get("err") == "KeyError":
        return None
    return {"min_width": p["min_width"], "width_ok": p["width_ok"]}


def _real_width(case, res):
    """the same read off the REAL BlockLayout of the page (`_layout_of`: longest label + offset + 2, + outer indentation)"""
    if res.get("min_width") is None:
        return None
    return {"min_width": res["min_width"], "width_ok": case["width"] >= res["min_width"]}


def model_obs(case, answers):
    a = answers[0]
    _, paths, _ = _model_input(case)
    app_v, app_out = _model_page(a["app"])
    cmd_v = [_model_page(p) for p in a["cmds"]]
    out = {"app": app_v, "cmds": [v for (v, _) in cmd_v], "runs": [], "wired": answers[1],
           "width_hyp": [_model_width(a["app"])] + [_model_width(p) for p in a["cmds"]]}
    for t in a["targets"]:
        if "err" in t:
            out["runs"].append({"fails": True})
        elif t["ok"] is None:
            out["runs"].append({"not_help": True})
        else:
            tg, pg = t["ok"]["target"], t["ok"]["page"]
            # the COMPOSED model (Model/AppHelp.lean `helpRun` = the run model of C09 + the page of its outcome, the
            # subject of app_help_run_prints_page / app_help_command_same_text) answers for the run: outcome a help
            # page, status 0, no handler, and the text - which is what is compared with the real run below
            run = t["ok"]["run"]
            if not run["help_page"] or run["status"] != 0 or run["invoked"] != 0 or run["text"] != pg:
                out["runs"].append({"composed_model_disagrees": run, "page": pg})
                continue
            pg = run["text"]
            if "err" in pg:
                out["runs"].append({"fails": True})
                continue
            if "wraps" in t["ok"]:
                # the direct renderings were made at another indentation: the run's own wrap calls decide
                outside = any(w >= 1 and _outside(tx, w) for (w, tx) in t["ok"]["wraps"])
            else:
                outside = app_out if tg == "app" else cmd_v[paths.index(tg["cmd"])][1]
            out["runs"].append({"outside": True} if outside else {"ok": pg["ok"]})
    return out


WIRED = {"-h": True, "--help": True}


def impl_view(case, obs):
    out = {"app": _page_view(obs["app"], obs["app"]["outside"]),
           "cmds": [_page_view(r, r["outside"]) for (_, r) in obs["cmds"]], "runs": [],
           # the claim: the tree of EVERY application built on DefaultApplicationConfig satisfies the structural
           # hypotheses of help_same_page_default (wiredB, for both switches); a real tree that violates them is a
           # model/implementation disagreement
           "wired": WIRED,
           # the width hypothesis of help_total / help_total_indented, evaluated on the real layout of every page
           "width_hyp": [_real_width(case, obs["app"])] + [_real_width(case, r) for (_, r) in obs["cmds"]]}
    for (toks, r) in obs["runs"]:
        if r.get("status") == 0 and not r.get("err"):
            out["runs"].append({"outside": True} if r["outside"] else {"ok": ANSI_RE.sub("", r["out"])})
        else:
            out["runs"].append({"fails": True})
    return out


# ----------------------------------------------------------------------------- the statement, on the rendered text
def _labels_in_block(lines, title, indent):
    """labels of the block that starts at the line `title`: the text at exactly `indent` blanks, up to two blanks"""
    out = []
    try:
        i = lines.index(title)
    except ValueError:
        return None
    pre = " " * indent
    for l in lines[i + 1:]:
        if l and not l.startswith(" "):
            break
        if l.startswith(pre) and len(l) > indent and l[indent] != " ":
            out.append(re.split(r"  ", l[indent:])[0])
    return out


def _opt_label_ok(label, o):
    """the label shows the preferred name first and the alternative name in parentheses"""
    long_, short = "--" + o["long"], ("-" + o["short"]) if o.get("short") else None
    prefer_long = o.get("prefer") == "long" or (o.get("prefer") is None and not short)
    if prefer_long:
        return label == (long_ + (" (%s)" % short if short else ""))
    return label == "%s (%s)" % (short, long_)


GLOBALS = [{"long": "help", "short": "h"}, {"long": "quiet", "short": "q"}, {"long": "verbose", "short": "v"},
           {"long": "version", "short": "V"}, {"long": "ansi", "short": None}, {"long": "no-ansi", "short": None},
           {"long": "no-interaction", "short": "n"}]


def _find(tree_cmds, path):
    """spec nodes along a NAME path"""
    nodes = []
    level = ac.enabled(tree_cmds)
    for n in path:
        hit = [c for c in level if c["name"] == n]
        if not hit:
            return None
        nodes.append(hit[-1])
        level = ac.enabled(hit[-1]["subs"])
    return nodes


def _check_page(kind, res, width, expect, indent=0):
    """indent: the outer indentation the page was rendered at (already part of res["min_width"]);
    expect: {"commands": [names] | None, "cmd_title":…, "args": [...], "own": [opts], "inherited": [opts]}"""
    if res.get("min_width") is None:
        return "%s: the layout could not be built (%s)" % (kind, res.get("layout_err"))
    if width < res["min_width"]:
        return None                      # narrower than the longest label plus margin: nothing is demanded
    if "err" in res:
        return "%s: rendering raised %s at width %d (minimum width %d)" % (kind, res["err"], width, res["min_width"])
    lines = res["ok"].split("\n")
    for l in lines:
        if len(l) > width:
            return "%s: line of %d columns on a terminal of %d%s: %r" % (
                kind, len(l), width, " (page rendered at indentation %d)" % indent if indent else "", l[:80])
    if indent:
        # what the page lists is read relative to the outer indentation
        pre = " " * indent
        lines = [l[indent:] if l.startswith(pre) else l for l in lines]
    # commands
    if expect["commands"] is not None:
        got = _labels_in_block(lines, expect["cmd_title"], 2)
        want = sorted(expect["commands"])
        if (got or []) != want and not (got is None and not want):
            return "%s: lists the commands %s, the visible named commands are %s" % (kind, got, want)
    got = _labels_in_block(lines, "ARGUMENTS", 2) or []
    for a in expect["args"]:
        if "<%s>" % a not in got:
            return "%s: argument <%s> is not listed (%s)" % (kind, a, got)
    for title, opts in (("OPTIONS", expect["own"]), ("GLOBAL OPTIONS", expect["inherited"])):
        got = _labels_in_block(lines, title, 2) or []
        for o in opts:
            if not any(_opt_label_ok(g, o) for g in got):
                return "%s: option --%s is not listed under both names in %s (%s)" % (kind, o["long"], title, got)
    return None


def oracle(case, obs):
    tree = case["config"]["tree"]
    w = case["width"]
    k = case.get("indent", 0)
    top = ac.enabled(tree["commands"])
    gopts = GLOBALS + ([{"long": "gflag", "short": "g"}] if tree.get("global_flag") else [])
    v = _check_page("application help", obs["app"], w, {
        "commands": ["help"] + [c["name"] for c in top if not c["anonymous"] and not c["hidden"]],
        "cmd_title": "AVAILABLE COMMANDS", "args": ["command", "arg"], "own": [], "inherited": gopts}, k)
    if v:
        return v
    for (path, res) in obs["cmds"]:
        if path == ["help"]:
            continue
        nodes = _find(tree["commands"], path)
        if nodes is None:
            return "command %s of the application is not in the configuration" % path
        c = nodes[-1]
        inherited = [o for n in reversed(nodes[:-1]) for o in n["opts"]] + gopts
        v = _check_page("help of " + " ".join(path), res, w, {
            "commands": [s["name"] for s in ac.enabled(c["subs"]) if not s["anonymous"] and not s["hidden"]],
            "cmd_title": "COMMANDS", "args": [a["name"] for n in nodes for a in n["args"]],
            "own": c["opts"], "inherited": inherited}, k)
        if v:
            return v
    if any(w < r["min_width"] for (_, r) in obs["cmds"]) or w < obs["app"]["min_width"]:
        return None                      # some page needs a wider terminal: the runs are not judged
    runs = obs["runs"]
    for k in range(0, len(runs), 3):
        (t0, a), (t1, b), (t2, c) = runs[k], runs[k + 1], runs[k + 2]
        if t0[1:] != ["help"] and not _path_ok(tree["commands"], t0[1:]):
            # the tokens do not name a command path (an alias shadowed by a sibling's name): the statement speaks about
            # `help <path>` for command paths only (the built-in `help` command is one: known finding D35)
            continue
        for (t, r) in ((t0, a), (t1, b), (t2, c)):
            if r.get("status") != 0 or r.get("err"):
                return "`%s` ends with %s" % (" ".join(t), {k_: str(v_)[:200] for k_, v_ in r.items() if k_ != "out"})
            for l in ANSI_RE.sub("", r["out"]).split("\n"):
                if len(l) > w:
                    return "`%s`: line of %d columns on a terminal of %d" % (" ".join(t), len(l), w)
        if not (a["out"] == b["out"] == c["out"]):
            return "`%s`, `%s` and `%s` print different pages" % (" ".join(t0), " ".join(t1), " ".join(t2))
    return None


# ---- recorded findings ------------------------------------------------------------------------------
STYLE_TAGS = ("b", "u", "info", "comment", "question", "error", "c1", "c2")


def _arg_names(cmds):
    for c in cmds:
        for a in c["args"]:
            yield a["name"]
        for n in _arg_names(c["subs"]):
            yield n


def known_class(case, obs, verdict):
    if any(n in STYLE_TAGS for n in _arg_names(case["config"]["tree"]["commands"])):
        return "D34"
    if ["help"] in case.get("paths", []) and isinstance(verdict, str) and "`help help`" in verdict:
        return "D35"
    return None


def witnesses():
    def cmd(name, args):
        return {"name": name, "aliases": [], "default": False, "anonymous": False, "hidden": False, "enabled": True,
                "lenient": False, "description": "Run it", "help": None, "opts": [], "subs": [],
                "args": [{"name": a, "mode": "required", "type": "string", "nullable": False, "description": "the " + a}
                         for a in args]}
    meta = {"name": "app", "version": "1.2.3", "help": None}
    return {
        "D34": {"config": {"tree": {"commands": [cmd("run", ["info"])], "global_flag": False}, "meta": meta},
                "width": 80, "ansi": False, "paths": [["run"]]},
        "D35": {"config": {"tree": {"commands": [cmd("run", ["a1"])], "global_flag": False}, "meta": meta},
                "width": 80, "ansi": False, "paths": [["help"]]},
    }


def nontrivial_key(case, obs):
    def has(c):
        return bool(c["args"] or c["opts"]) or any(has(s) for s in c["subs"])
    if any(has(c) for c in case["config"]["tree"]["commands"]):
        return json.dumps([case["config"], case["width"], case["ansi"], case.get("indent", 0)], sort_keys=True)
    return None


def bucket(case, obs):
    w = case["width"]
    wb = "<40" if w < 40 else ("40-79" if w < 80 else ("80-119" if w < 120 else "120-200"))
    ok = "ok" if "ok" in obs["app"] and all("ok" in r for (_, r) in obs["cmds"]) else "too-narrow"
    k = case.get("indent", 0)
    return "w=%s|%s|cmds=%d|%s|%s" % (wb, "ansi" if case["ansi"] else "plain", min(len(obs["cmds"]), 12) // 4 * 4, ok,
                                     "indent=" + ("0" if k == 0 else ("1" if k == 1 else "2+")))


# ----------------------------------------------------------------------------- shrinking / neighbours
def _with_tree(case, cmds):
    c = json.loads(json.dumps(case))
    c["config"]["tree"]["commands"] = cmds
    return c


def _path_ok(cmds, p):
    level = ac.enabled(cmds)
    for n in p:
        hit = _denotes(level, n)
        if hit is None:
            return False
        level = ac.enabled(hit["subs"])
    return True


def _valid_paths(case):
    tree = case["config"]["tree"]["commands"]
    case["paths"] = [p for p in case["paths"] if _path_ok(tree, p)]
    return case


def _edits(cmds):
    """smaller variants of a list of command specs"""
    for i in range(len(cmds)):
        yield cmds[:i] + cmds[i + 1:]
    for i, c in enumerate(cmds):
        for key in ("opts", "args", "aliases"):
            for j in range(len(c[key])):
                d = dict(c)
                d[key] = c[key][:j] + c[key][j + 1:]
                yield cmds[:i] + [d] + cmds[i + 1:]
        for key, val in (("description", ""), ("help", None), ("hidden", False), ("default", False), ("anonymous", False),
                         ("lenient", False), ("enabled", True)):
            if c.get(key) != val and not (key == "default" and c.get("anonymous")):
                d = dict(c)
                d[key] = val
                yield cmds[:i] + [d] + cmds[i + 1:]
        for key in ("opts", "args"):
            for j, x in enumerate(c[key]):
                if x.get("description") not in (None, "x"):
                    y = dict(x)
                    y["description"] = None if x["description"] == "x" else "x"
                    d = dict(c)
                    d[key] = c[key][:j] + [y] + c[key][j + 1:]
                    yield cmds[:i] + [d] + cmds[i + 1:]
        for sub in _edits(c["subs"]):
            d = dict(c)
            d["subs"] = sub
            yield cmds[:i] + [d] + cmds[i + 1:]


def shrink(case):
    for i in range(len(case["paths"])):
        c = json.loads(json.dumps(case))
        c["paths"] = case["paths"][:i] + case["paths"][i + 1:]
        yield c
    for cmds in _edits(case["config"]["tree"]["commands"]):
        yield _valid_paths(_with_tree(case, cmds))
    if case["config"]["meta"].get("help"):
        c = json.loads(json.dumps(case))
        c["config"]["meta"]["help"] = None
        yield c
    if case["config"]["tree"].get("global_flag"):
        c = json.loads(json.dumps(case))
        c["config"]["tree"]["global_flag"] = False
        yield c
    if case["ansi"]:
        c = json.loads(json.dumps(case))
        c["ansi"] = False
        yield c
    for k in sorted({0, 2, case.get("indent", 0) - 1}):
        if 0 <= k < case.get("indent", 0):
            c = json.loads(json.dumps(case))
            c["indent"] = k
            yield c


def neighbours(case):
    for dw in (-1, 1, -7, 13, 40):
        w = case["width"] + dw
        if 26 <= w <= 200:
            c = json.loads(json.dumps(case))
            c["width"] = w
            yield c
    c = json.loads(json.dumps(case))
    c["ansi"] = not case["ansi"]
    yield c
    for k in (0, 1, 2, 4, 8):
        if k != case.get("indent", 0):
            c = json.loads(json.dumps(case))
            c["indent"] = k
            yield c

    def flips(cmds, path):
        for i, x in enumerate(cmds):
            for key in ("hidden", "enabled", "default"):
                yield path + [i], key
            for r in flips(x["subs"], path + [i]):
                yield r
    for (pos, key) in list(flips(case["config"]["tree"]["commands"], []))[:60]:
        c = json.loads(json.dumps(case))
        node = None
        level = c["config"]["tree"]["commands"]
        for i in pos:
            node = level[i]
            level = node["subs"]
        node[key] = not node[key]
        if key == "default" and not node[key]:
            node["anonymous"] = False
        yield _valid_paths(c)
    # every command of the tree as a path
    def names(cmds, pre):
        for x in ac.enabled(cmds):
            if not x["anonymous"]:
                yield pre + [x["name"]]
                for r in names(x["subs"], pre + [x["name"]]):
                    yield r
    allp = list(names(case["config"]["tree"]["commands"], []))
    for k in range(0, min(len(allp), 12), 3):
        c = json.loads(json.dumps(case))
        c["paths"] = allp[k:k + 3]
        yield c
