"""
C02 - malformed command lines are rejected with the documented errors and only those.

Cases: (a) exhaustive token sequences over an adversarial alphabet x a catalogue of small formats,
(b) random longer sequences, (c) single-fault mutants of well-formed lines (from the C01 generator)
with the error class the statement demands.  Every case is parsed strict and lenient by the real
parser and by the Lean model.  Where the format comes from is a dimension of its own: a fresh builder
per format, or (`ext`) ONE builder that hands out the format, is then given more arguments / options / command names and
hands out a second, richer format - the line is parsed against the first format afterwards, and the
model parses against what that format listed when it was taken.
"""
import itertools

from harness import parser_common as pc

ID = "C02"
DESIGN_REF = "6/C02"
LEAN_MODULES = ["Clikit.Props.C02"]
REQUIRED_THEOREMS = ["Clikit.Props.C02.parse_terminates", "Clikit.Props.C02.errors_classified",
                     "Clikit.Props.C02.lenient_never_parse_error", "Clikit.Props.C02.strict_ok_lenient_same",
                     "Clikit.Props.C02.no_foreign_exception", "Clikit.Props.C02.lenient_only_value_error",
                     "Clikit.Props.C02.d24_guard_needed", "Clikit.Props.C02.fault_unknown_long",
                     "Clikit.Props.C02.fault_unknown_short", "Clikit.Props.C02.fault_value_for_flag",
                     "Clikit.Props.C02.fault_required_value_missing", "Clikit.Props.C02.fault_missing_required",
                     "Clikit.Props.C02.parse_of_loop_error", "Clikit.Props.C02.fault_surplus_positional",
                     "Clikit.Props.C02.wf_decides", "Clikit.Props.C02.wf_keys_nodup", "Clikit.Props.C02.wf_short_names",
                     "Clikit.Props.C02.no_foreign_exception_decided", "Clikit.Props.C02.lenient_only_value_error_decided",
                     "Clikit.Props.C02.fault_value_for_flag_decided", "Clikit.Props.C02.fault_required_value_missing_decided",
                     "Clikit.Props.C02.fault_surplus_positional_decided"]
TECHNIQUE = ("Lean 4 theorems on the parser model (no foreign exception, lenient never raises a parse error, "
             "strict-ok implies lenient-identical, termination of the token loop) + exhaustive/differential correspondence")
LEVEL_TEXT = ("Proved in Lean for ALL formats, token lists and both modes, on a model of DefaultArgsParser.parse/Args that "
              "carries an explicit foreign error at every partial Python operation and a fuel-indexed token loop: termination "
              "(fuel = tokens+1 is never exhausted), lenient mode never raises either parse error, strict success implies the "
              "identical lenient result, and - for well-formed formats, via invariants of the parser's scratch dictionaries "
              "through the token loop and the command-name re-alignment - no exception other than cannot-parse, "
              "no-such-option and ValueError escapes; and after ANY well-formed prefix an unknown long/short option is rejected "
              "with no-such-option, a value attached to a flag, a missing required value or a surplus positional with cannot-parse (strict), while "
              "lenient mode continues from the state before the fault. The model is tied to the code by differential runs (exhaustive short "
              "token sequences over an adversarial alphabet x catalogue formats, random longer ones, single-fault mutants "
              "with the required error class).")
LEVEL_NOTE = ("Trusted: Lean kernel + standard axioms; the hand-written parser model (modelled, not verified; compared with "
              "the real parser on every generated case in strict and lenient mode); CPython int()/float() as conversion "
              "tables. The hypotheses about the FORMAT - FmtWF for no_foreign_exception (unique argument names, C07 option "
              "normal form, defaults of single-valued optional-value options convertible inside the model), LongOK for the "
              "value-for-flag / missing-value faults (the option is found under its long name, which has no '='), multi-valued "
              "argument last and distinct keys for the surplus-positional fault - are decided by the model on every format read "
              "from the real builder (entry c02.wf, theorem wf_decides, compared with true on every case; the *_decided "
              "corollaries take the decided form). The hypotheses about the LINE (a well-formed prefix before the fault, "
              "SpellsPrefix) describe the case a fault theorem is about; the generated mutants exercise them through the oracle. "
              "The format handed to the model is the listing read from the real format object at the moment it is taken "
              "from its builder; the real parse happens after the builder was used further, so a format that changes with "
              "its builder shows as a disagreement and, on the fault mutants, as a wrong error class. "
              "A default outside the model (e.g. a float default on an INTEGER optional-value option: int(2.5)) is rejected by the "
              "check and is not generated.")
RULE = ("(a) all token sequences up to length L (quick 2, thorough 3) over a 38-token adversarial alphabet x 7 catalogue "
        "formats; (b) random sequences of length 3-6; (c) single-fault mutants of well-formed C01 lines. Non-trivial = the "
        "sequence contains an option-like token or more positionals than the format takes; distinct = (format, tokens). "
        "Formats: built by a fresh builder, or (all catalogue formats x sequences up to L-1, 30 % of (b), 40 % of (c)) taken "
        "from a builder that is extended afterwards (further arguments where the ordering rules allow them, options spelled "
        "like the unknown options of the faults, command names with aliases spelled like the words the lines use) and has built a second format before the line is parsed")
TRUSTED_BASE = [
    "Lean 4.33 kernel; axioms within propext, Classical.choice, Quot.sound (audited per theorem on every run)",
    "lean/Clikit/Model/Parser.lean: hand-written model of DefaultArgsParser/Args (modelled, not verified; tied by the correspondence)",
    "harness/parser_common.py + harness/props/c02.py: format construction through the real builder (fresh, or one builder "
    "reused for a second format), generators, canonical encoding",
    "CPython int()/float(): parameters of the model, supplied as tables by the running interpreter",
]
ASSUMPTIONS = [
    "FmtWF for no_foreign_exception: unique argument names, accepts-value options are required/optional/multi (C07), "
    "optional-value defaults convert inside the model - no longer only assumed: decided by the model (fmtWFB) on every "
    "generated real format and compared with true; what remains a restriction of the quantifier is the last clause "
    "(defaults whose Python type the conversion model does not cover, e.g. a float default on an INTEGER option)",
    "fault-class -> error-class claims: theorems after any well-formed prefix (unknown long/short option, value for a flag, "
    "required value missing, surplus positional, required argument missing); the generated single-fault mutants "
    "exercise the same claims on the real parser through the oracle",
]
BATCH = 4000

ALPHABET = ["", "-", "--", "---", "--=", "-=", "--foo", "--foo=x", "--bar", "--bar=x", "--bar=", "--unknown",
            "--unknown=x", "-f", "-b", "-bx", "-fx", "-fb", "-z", "-fz", "x", "-5", "5", "null", "abc", "--opt",
            "--opt=7", "--num", "--num=abc", "-o", "-o7", "-n", "-n5", "--multi=a", "-m", "server", "srv", "--f"]


def _o(long, short, mode, ty="string", nullable=False, default=None):
    d = {"long": long, "short": short, "mode": mode, "type": ty, "nullable": nullable}
    if mode != "flag":
        d["default"] = pc.enc(default)
    return d


def _a(name, mode, ty="string", nullable=False, default=None):
    d = {"name": name, "mode": mode, "type": ty, "nullable": nullable}
    if mode in ("optional", "multi"):
        d["default"] = pc.enc(default)
    return d


CATALOGUE = [
    {"levels": [{"cmds": [], "args": [], "opts": []}]},
    {"levels": [{"cmds": [], "args": [_a("a1", "required"), _a("a2", "optional")],
                 "opts": [_o("foo", "f", "flag"), _o("bar", "b", "required")]}]},
    {"levels": [{"cmds": [], "args": [_a("m1", "multi")],
                 "opts": [_o("opt", "o", "optional", "integer"), _o("num", "n", "required", "integer"),
                          _o("multi", "m", "multi")]}]},
    {"levels": [{"cmds": [{"name": "server", "aliases": ["srv"]}, {"name": "add", "aliases": []}],
                 "args": [_a("host", "required")], "opts": [_o("foo", "f", "flag")]}]},
    {"levels": [{"cmds": [], "args": [_a("n1", "required", "integer"), _a("m1", "multi_required", "float")],
                 "opts": [_o("opt", "o", "optional", "float"), _o("bar", "b", "required", "boolean", True)]}]},
    {"levels": [{"cmds": [], "args": [], "opts": [_o("foo", "f", "flag"), _o("bar", "b", "flag"),
                                                   _o("num", "n", "required"), _o("opt", None, "optional", "string", True, "dflt")]}]},
    {"levels": [{"cmds": [], "args": [_a("a1", "optional", "integer", True)], "opts": [_o("foo", "f", "flag")]},
                {"cmds": [{"name": "server", "aliases": []}], "args": [_a("a2", "optional")],
                 "opts": [_o("multi", "m", "multi", "integer", True)]}]},
]


# an earlier line per catalogue format: what a shared parser object has parsed before the line under test
PREV = [[], ["alice", "bob", "-f", "--bar", "v"], ["p", "q", "-o7", "--num", "5", "-m", "a"],
        ["server", "add", "h1", "-f"], ["5", "1.5", "2.5", "--opt=2.5", "-b", "true"],
        ["-f", "-b", "--num", "v", "--opt=x"], ["server", "3", "x", "-f", "-m", "4"]]


# what the builder of each catalogue format receives AFTER the format was taken from it (a second command's format
# derived from the same builder): one more positional where the argument rules allow one, and options spelled like the
# alphabet's unknown ones
EXT = [{"cmds": [{"name": "server", "aliases": ["srv"]}], "args": [_a("x1", "required")], "opts": [_o("unknown", "z", "flag")]},
       {"cmds": [{"name": "abc", "aliases": ["x", "5"]}], "args": [_a("x1", "optional")], "opts": [_o("unknown", "z", "required")]},
       {"cmds": [{"name": "x", "aliases": []}], "args": [], "opts": [_o("unknown", "z", "flag"), _o("foo", "f", "flag")]},
       {"cmds": [{"name": "x", "aliases": ["abc"]}], "args": [_a("x1", "optional"), _a("x2", "multi")],
        "opts": [_o("bar", "b", "required")]},
       {"cmds": [], "args": [], "opts": [_o("unknown", "z", "optional")]},
       {"cmds": [{"name": "server", "aliases": ["srv", "null"]}, {"name": "abc", "aliases": []}],
        "args": [_a("x1", "required"), _a("x2", "optional")], "opts": [_o("unknown", "z", "flag")]},
       {"cmds": [], "args": [_a("x1", "optional")], "opts": [_o("unknown", "z", "flag"), _o("bar", "b", "flag")]}]


def _mutants(rng, spec, tokens, intent):
    """single-fault mutants of a well-formed line, with the error class required in strict mode"""
    cmds, args, opts = pc.spec_flat(spec)
    out = []
    dd = tokens.index("--") if "--" in tokens else len(tokens)
    # insert at an item boundary: never between an option and its separate value
    cand = [p for p in range(0, dd + 1) if p == 0 or not tokens[p - 1].startswith("-") or tokens[p - 1] == "-"]
    pos = rng.choice(cand)
    # unknown long / short option
    out.append((tokens[:pos] + ["--nosuchopt"] + tokens[pos:], "NoSuchOptionException", "unknown-long"))
    out.append((tokens[:pos] + ["-Y"] + tokens[pos:], "NoSuchOptionException", "unknown-short"))
    flags = [o for o in opts if o["mode"] == "flag"]
    if flags:
        o = rng.choice(flags)
        out.append((tokens[:pos] + ["--%s=v" % o["long"]] + tokens[pos:], "CannotParseArgsException", "value-for-flag"))
    reqs = [o for o in opts if o["mode"] in ("required", "multi")]
    if reqs:
        o = rng.choice(reqs)
        # a required value missing: at the very end of the option tokens (nothing usable follows)
        if dd == len(tokens):
            out.append((tokens + ["--" + o["long"]], "CannotParseArgsException", "required-value-missing"))
        out.append((tokens[:pos] + ["--%s=" % o["long"]] + tokens[pos:], "CannotParseArgsException", "required-value-empty"))
    # a value that does not convert to the declared type (typed options of every mode, nullable or not)
    # (a single-valued option spelled again later would override the faulty value: take one the line does not give)
    typed = [o for o in opts if o["mode"] != "flag" and o["type"] != "string"
             and (o["mode"] == "multi" or o["long"] not in intent["opts"])]
    if typed:
        o = rng.choice(typed)
        out.append((tokens[:pos] + ["--%s=zzz" % o["long"]] + tokens[pos:], "ValueError", "value-does-not-convert"))
    targs = [i for i, a in enumerate(args) if a["type"] != "string"]
    if targs:
        i = rng.choice(targs)
        toks = [c["name"] for c in cmds] + [("zzz" if j == i else pc.value_for(rng, a["type"], a["nullable"]))
                                            for j, a in enumerate(args[: i + 1])]
        n_req = len([a for a in args if a["mode"] in ("required", "multi_required")])
        if i + 1 >= n_req:
            out.append((toks, "ValueError", "argument-does-not-convert"))
    # a required argument left out: command names + values for all but the last required argument
    n_req = len([a for a in args if a["mode"] in ("required", "multi_required")])
    if n_req >= 1:
        toks = [c["name"] for c in cmds] + [pc.value_for(rng, a["type"], a["nullable"]) for a in args[: n_req - 1]]
        toks = [t for t in toks]
        out.append((toks, "CannotParseArgsException", "required-argument-missing"))
    # surplus positionals (no trailing multi-valued argument to absorb them)
    if not (args and args[-1]["mode"].startswith("multi")):
        toks = [c["name"] for c in cmds] + [pc.value_for(rng, a["type"], a["nullable"]) for a in args] + ["zzz"]
        out.append((toks, "CannotParseArgsException", "surplus-positional"))
    return out


def _with_ext(case, ext):
    """the format of the case is taken from a builder that goes on to build a second, richer format (`ext` = the
    elements it receives afterwards); the line is parsed against the FIRST format once the second exists"""
    if ext is not None and (ext["args"] or ext["opts"] or ext["cmds"]):
        case["ext"] = ext
    return case


def generate(tier, rng):
    L = 2 if tier == "quick" else 3
    for fi, spec in enumerate(CATALOGUE):
        for n in range(0, L + 1):
            for seq in itertools.product(ALPHABET, repeat=n):
                yield {"spec": spec, "tokens": list(seq), "kind": "exh", "fmt": fi, "prev": PREV[fi]}
    # the catalogue formats taken from a builder that is extended afterwards (one builder, two formats)
    for fi, spec in enumerate(CATALOGUE):
        for n in range(0, L):
            for seq in itertools.product(ALPHABET, repeat=n):
                yield _with_ext({"spec": spec, "tokens": list(seq), "kind": "exh", "fmt": fi, "prev": PREV[fi]}, EXT[fi])
    nrand = 6000 if tier == "quick" else 150000
    for _ in range(nrand):
        spec = rng.choice(CATALOGUE) if rng.random() < 0.6 else pc.gen_format(rng)
        n = rng.randint(3, 6)
        yield _with_ext({"spec": spec, "tokens": [rng.choice(ALPHABET) for _ in range(n)], "kind": "rand",
                         "prev": [rng.choice(ALPHABET) for _ in range(rng.randint(0, 4))]},
                        pc.gen_ext(rng, spec) if rng.random() < 0.3 else None)
    nmut = 1500 if tier == "quick" else 20000
    for _ in range(nmut):
        spec = pc.gen_format(rng)
        tokens, intent = pc.gen_line(rng, spec, omit_cmd_suffix=False)
        ext = pc.gen_ext(rng, spec) if rng.random() < 0.4 else None
        for toks, want, what in _mutants(rng, spec, tokens, intent):
            yield _with_ext({"spec": spec, "tokens": toks, "kind": "fault", "want": want, "fault": what, "prev": tokens}, ext)


def exhaustive(tier):
    return False   # the exhaustive part is complete, the random part is not


def _format(case):
    """the format the line is parsed against.  With `ext` it comes from a builder that has meanwhile been given more
    elements and has built a second format."""
    if case.get("ext"):
        return pc.build_format_reused(case["spec"], case["ext"])[0]
    return pc.build_format(case["spec"])


def run_impl(case):
    from clikit.args.default_args_parser import DefaultArgsParser
    fmt = _format(case)
    return {"strict": pc.run_parse(DefaultArgsParser(), fmt, case["tokens"], False),
            "lenient": pc.run_parse(DefaultArgsParser(), fmt, case["tokens"], True),
            "strict_reused": pc.run_reused(fmt, case.get("prev", []), case["tokens"], False),
            "lenient_reused": pc.run_reused(fmt, case.get("prev", []), case["tokens"], True)}


def model_requests(case):
    # a format is what it listed when it was taken from its builder: what the builder is used for afterwards is not
    # part of the parse request
    # (the listing is read before any later use of the builder: `ext` plays no part here)
    flat = pc.flatten(pc.build_format(case["spec"]))
    reqs = [pc.model_request(flat, case["tokens"], False), pc.model_request(flat, case["tokens"], True)]
    # the hypotheses ABOUT THE FORMAT of the C02 theorems (FmtWF, LongOK of every option, MultiLast, distinct keys),
    # decided by the model on the format the REAL builder produced (theorem wf_decides), with the same conversion tables
    reqs.append({"m": "c02.wf", "fmt": flat, "ints": reqs[0]["ints"], "floats": reqs[0]["floats"]})
    return reqs


def model_obs(case, answers):
    # the model's parse is a function of the line: a reused parser object must answer the same
    return {"strict": pc.canon_model_answer(answers[0]), "lenient": pc.canon_model_answer(answers[1]),
            "strict_reused": pc.canon_model_answer(answers[0]), "lenient_reused": pc.canon_model_answer(answers[1]),
            "wf": answers[2]}


WF_TRUE = {"fmt_wf": True, "long_ok": True, "short_ok": True, "multi_last": True, "nodup_keys": True}


def impl_view(case, obs):
    # every format the builder accepts has distinct argument names, its multi-valued argument last (C06), options in the
    # C07 normal form with long names matching ^[a-zA-Z][a-zA-Z0-9-]+$ and unique; the generated optional-value defaults
    # are of the declared type or texts: the model must answer true to every check
    return dict(obs, wf=WF_TRUE)


DOCUMENTED = ("CannotParseArgsException", "NoSuchOptionException", "ValueError")


def oracle(case, obs):
    return _oracle(case, obs["strict"], obs["lenient"], "") or _oracle(
        case, obs["strict_reused"], obs["lenient_reused"], "on a parser object that parsed %r before: " % (case.get("prev", []),))


def _oracle(case, s, l, pre):
    r = _oracle1(case, s, l)
    return pre + r if r else None


KIND = {"string": "s", "boolean": "b", "integer": "i", "float": "f"}


def _typed(case, r):
    """every value of a successful result has the declared type (or is None): a text that does not convert is a
    ValueError, never a value of another type"""
    if "ok" not in r:
        return None
    cmds, args, opts = pc.spec_flat(case["spec"])

    def ok(v, ty, multi):
        if v is None:
            return True
        if "l" in v:
            return multi and all(ok(x, ty, False) for x in v["l"])
        return list(v.keys()) == [KIND[ty]]
    for o in opts:
        for name, v in r["ok"]["opts_set"]:
            if name == o["long"]:
                want = "boolean" if o["mode"] == "flag" else o["type"]
                if not ok(v, want, o["mode"] == "multi"):
                    return "option --%s (%s) holds %s: a value that does not convert must be a ValueError" % (name, want, v)
    for a in args:
        for name, v in r["ok"]["args_set"]:
            if name == a["name"] and not ok(v, a["type"], a["mode"].startswith("multi")):
                return "argument %s (%s) holds %s: a value that does not convert must be a ValueError" % (name, a["type"], v)
    return None


def _oracle1(case, s, l):
    t = _typed(case, s) or _typed(case, l)
    if t:
        return t
    if "err" in s and s["err"] not in DOCUMENTED:
        return "strict parse raised %s (only the cannot-parse, no-such-option errors and ValueError are documented)" % s["err"]
    if "err" in l and l["err"] != "ValueError":
        return "lenient parse raised %s" % l["err"]
    if "ok" in s and l != s:
        return "strict parsing succeeded but lenient parsing gives a different result"
    if case.get("kind") == "fault":
        # a conversion failure elsewhere in the line may legitimately come first only for ValueError
        if s.get("err") != case["want"]:
            return "fault %s: strict parse gave %s, the statement requires %s" % (
                case["fault"], s.get("err", "a result"), case["want"])
    return None


def nontrivial_key(case, obs):
    import json
    t = case["tokens"]
    if any(x.startswith("-") and x != "-" for x in t) or len(t) >= 2:
        return json.dumps([case.get("fmt", case["spec"]), t] + ([case["ext"]] if case.get("ext") else []), sort_keys=True)
    return None


def bucket(case, obs):
    s = obs["strict"].get("err", "ok")
    l = obs["lenient"].get("err", "ok")
    return "%s%s|strict=%s|lenient=%s" % (case["kind"], "+builder-reused" if case.get("ext") else "", s, l)


def shrink(case):
    t = case["tokens"]
    ext = case.get("ext")
    if ext:
        # fewer additions to the builder after the format was taken (the fault class of a mutant is about `spec`)
        for key in ("opts", "args", "cmds"):
            for i in range(len(ext[key]) - 1, -1, -1):
                e2 = dict(ext)
                e2[key] = ext[key][:i] + ext[key][i + 1:]
                c = dict(case)
                if e2["args"] or e2["opts"] or e2["cmds"]:
                    c["ext"] = e2
                    yield c
    for i in range(len(t)):
        c = dict(case)
        c["tokens"] = t[:i] + t[i + 1:]
        c["kind"] = "shrunk"
        c.pop("want", None)
        yield c


def neighbours(case):
    t = case["tokens"]
    for i in range(len(t) + 1):
        for a in ALPHABET:
            c = dict(case)
            c["tokens"] = t[:i] + [a] + t[i:]
            c["kind"] = "nb"
            c.pop("want", None)
            yield c
