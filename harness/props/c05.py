"""
C05 - parsing is a pure function of the command line, the format and the mode.

Cases: histories (1-6 parse requests drawn from the C01/C02 generators, same or different formats,
strict or lenient, succeeding or failing) issued to ONE DefaultArgsParser - directly, or installed
as the shared parser of a config and reached through Command.parse - each compared with what a
fresh parser gives.  Snapshots: the argv list handed to ArgvArgs, RawArgs.tokens and the format's
listings before/after every call (checked, not proved: Python object identity has no counterpart
in the functional model).
"""
from harness import parser_common as pc
from harness.props import c02

ID = "C05"
DESIGN_REF = "6/C05"
LEAN_MODULES = ["Clikit.Props.C05"]
REQUIRED_THEOREMS = ["Clikit.Props.C05.parseFrom_fresh", "Clikit.Props.C05.parseFrom_result",
                     "Clikit.Props.C05.history_independent", "Clikit.Props.C05.leak_without_reset"]
TECHNIQUE = ("Lean 4 theorem: the parser model started from ANY previous scratch state equals the fresh parse, lifted "
             "to all histories by induction + differential histories on one real parser object, with mutation snapshots")
LEVEL_TEXT = ("history_independent is proved for ALL request sequences and all initial scratch states of the parser object: "
              "each request on a re-used parser equals the fresh parse. Which scratch dictionaries parse() re-initialises is "
              "regenerated from the source on every run (a removed reset breaks the proof; a new self attribute breaks the "
              "translator), the rest of the parser model is hand-written and tied to the code by differential histories on "
              "one real DefaultArgsParser (also through Config.set_args_parser/Command.parse).")
LEVEL_NOTE = ("Trusted: Lean kernel + standard axioms, tools/genparts/c05.py, the hand-written parser model (validated by "
              "the correspondence), harness. Checked, not proved: that ArgvArgs/parse do not mutate the argv list, the raw "
              "args or the format (before/after snapshots; object mutation has no counterpart in a functional model).")
RULE = ("histories of 1-6 requests from a pool (C02 catalogue formats x adversarial tokens, C01 well-formed lines on "
        "generated formats), exhaustive over a 10-request pool for length <= 2 (quick) / 3 (thorough), random beyond; "
        "non-trivial = length >= 2 with an option set or an error in an earlier request; distinct = the history")
TRUSTED_BASE = [
    "Lean 4.33 kernel; axioms within propext, Classical.choice, Quot.sound (audited per theorem on every run)",
    "tools/genparts/c05.py: reads which scratch dictionaries DefaultArgsParser.parse re-initialises, and that the class keeps no other state",
    "lean/Clikit/Model/Parser.lean: hand-written model of the parser (modelled, not verified; tied by the correspondence runs of C01/C02/C05)",
    "harness/props/c05.py, harness/parser_common.py: generators, snapshots, canonical encoding; int()/float() tables taken from CPython",
]
ASSUMPTIONS = [
    "non-mutation of argv / RawArgs.tokens / format listings is checked by snapshots on every generated request, not proved",
    "float()/int() of CPython are parameters of the model (conversion tables computed by the running interpreter)",
]
BATCH = 1000

POOL_TOKENS = [["--foo", "x"], ["y"], ["--bar=v", "a"], ["-f"], ["--unknown"], ["a", "b", "c", "d"],
               ["--bar"], ["--", "--foo"], [], ["-fb", "v", "p"]]


def _pool():
    spec = c02.CATALOGUE[1]
    out = []
    for t in POOL_TOKENS:
        for len_ in (False, True):
            out.append({"spec": spec, "tokens": t, "lenient": len_})
    return out


def generate(tier, rng):
    import itertools
    pool = _pool()
    L = 2 if tier == "quick" else 3
    for n in range(1, L + 1):
        for seq in itertools.product(range(0, len(pool), 2 if n == 3 else 1), repeat=n):
            yield {"requests": [pool[i] for i in seq], "via": "direct"}
    nrand = 1500 if tier == "quick" else 25000
    for _ in range(nrand):
        reqs = []
        for _ in range(rng.randint(2, 6)):
            r = rng.random()
            if r < 0.4:
                spec = pc.gen_format(rng)
                tokens, _ = pc.gen_line(rng, spec, omit_cmd_suffix=rng.random() < 0.2)
            elif r < 0.8:
                spec = rng.choice(c02.CATALOGUE)
                tokens = [rng.choice(c02.ALPHABET) for _ in range(rng.randint(0, 5))]
            else:
                spec = rng.choice(c02.CATALOGUE)
                tokens = rng.choice(POOL_TOKENS)
            reqs.append({"spec": spec, "tokens": tokens, "lenient": rng.random() < 0.4})
        yield {"requests": reqs, "via": rng.choice(["direct", "direct", "config"])}


def exhaustive(tier):
    return False


def _listing(fmt):
    try:
        return [[c.string for c in fmt.get_command_names()], list(fmt.get_arguments().keys()),
                list(fmt.get_options().keys()),
                [repr(pc.enc(a.default)) for a in fmt.get_arguments().values()],
                [repr(pc.enc(o.default)) for o in fmt.get_options().values()]]
    except Exception as e:  # noqa - a format that can no longer be listed has been changed by the parse
        return ["unreadable: " + type(e).__name__]


def run_impl(case):
    from clikit.args.argv_args import ArgvArgs
    from clikit.args.default_args_parser import DefaultArgsParser
    shared = DefaultArgsParser()
    results, fresh, mutated = [], [], []
    fmt = args = None
    for rq in case["requests"]:
        # every request brings its own format OBJECT, and the previous one is gone by then (formats assembled per
        # request are the usual case): nothing the parser remembers about an earlier format object may matter
        fmt = args = cmd = None
        fmt = pc.build_format(rq["spec"])
        argv = ["prog"] + list(rq["tokens"])
        argv_before = list(argv)
        raw = ArgvArgs(argv)
        tokens_before = list(raw.tokens)
        listing_before = _listing(fmt)
        if case["via"] == "config":
            from clikit.api.config.command_config import CommandConfig
            from clikit.api.command.command import Command
            cfg = CommandConfig("cmd")
            cfg.set_args_parser(shared)
            # the command parses against ITS format; give it the generated one
            cmd = Command(cfg)
            cmd._args_format = fmt
            try:
                args = cmd.parse(raw, rq["lenient"])
                r = {"ok": pc.observe_args(fmt, args)}
            except Exception as e:  # noqa
                r = {"err": type(e).__name__}
        else:
            try:
                args = shared.parse(raw, fmt, rq["lenient"])
                r = {"ok": pc.observe_args(fmt, args)}
            except Exception as e:  # noqa
                r = {"err": type(e).__name__}
        results.append(r)
        m = []
        if argv != argv_before:
            m.append("argv list")
        if list(raw.tokens) != tokens_before:
            m.append("raw args tokens")
        if _listing(fmt) != listing_before:
            m.append("format")
        mutated.append(m)
        fresh.append(pc.run_parse(DefaultArgsParser(), fmt, rq["tokens"], rq["lenient"]))
    return {"results": results, "fresh": fresh, "mutated": mutated}


def model_requests(case):
    reqs = []
    for rq in case["requests"]:
        flat = pc.flatten(pc.build_format(rq["spec"]))
        r = pc.model_request(flat, rq["tokens"], rq["lenient"])
        del r["m"]
        reqs.append(r)
    return [{"m": "c05.history", "requests": reqs}]


def model_obs(case, answers):
    return {"results": [pc.canon_model_answer(a) for a in answers[0]]}


def impl_view(case, obs):
    return {"results": obs["results"]}


def oracle(case, obs):
    for k, (r, f, m) in enumerate(zip(obs["results"], obs["fresh"], obs["mutated"])):
        if r != f:
            return "request %d on the re-used parser gives %s, a fresh parser gives %s" % (k, str(r)[:300], str(f)[:300])
        if m:
            return "request %d modified its inputs: %s" % (k, ", ".join(m))
    return None


def nontrivial_key(case, obs):
    import json
    if len(case["requests"]) >= 2:
        return json.dumps(case, sort_keys=True)
    return None


def bucket(case, obs):
    return "%s|len=%d|errs=%d" % (case["via"], len(case["requests"]), sum(1 for r in obs["results"] if "err" in r))


def shrink(case):
    rq = case["requests"]
    for i in range(len(rq)):
        if len(rq) > 1:
            yield {"requests": rq[:i] + rq[i + 1:], "via": case["via"]}
    for i in range(len(rq)):
        t = rq[i]["tokens"]
        for j in range(len(t)):
            r2 = dict(rq[i])
            r2["tokens"] = t[:j] + t[j + 1:]
            yield {"requests": rq[:i] + [r2] + rq[i + 1:], "via": case["via"]}
