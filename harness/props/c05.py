"""
C05 - parsing is a pure function of the command line, the format and the mode.

Cases: histories (1-6 parse requests drawn from the C01/C02 generators, same or different formats,
strict or lenient, succeeding or failing) issued to ONE DefaultArgsParser - directly, or installed
as the shared parser of a config and reached through Command.parse - each compared with what a
fresh parser gives.  Through Command.parse the MODE is a dimension of its own: given explicitly
(True / False) or omitted, on a config whose lenient parsing was enabled, disabled or never touched -
per request (a command of its own) or on one command for the whole history; the reference is a fresh
parser with the explicit mode, or with the configured one when the mode is omitted.  Tokens (and the script name) may
carry line breaks, tabs and other white space at either end or inside: they are characters of the token, the caller's
list stays as it was and the raw arguments carry exactly its entries.  Snapshots: the argv list handed to ArgvArgs, RawArgs.tokens and the format's
listings before/after every call (checked, not proved: Python object identity has no counterpart
in the functional model).
"""
from harness import parser_common as pc
from harness.props import c02

ID = "C05"
DESIGN_REF = "6/C05"
LEAN_MODULES = ["Clikit.Props.C05"]
REQUIRED_THEOREMS = ["Clikit.Props.C05.parseFrom_fresh", "Clikit.Props.C05.parseFrom_result",
                     "Clikit.Props.C05.history_independent", "Clikit.Props.C05.leak_without_reset",
                     "Clikit.Props.C05.command_parse_explicit", "Clikit.Props.C05.command_parse_default",
                     "Clikit.Props.C05.command_parse_config_irrelevant", "Clikit.Props.C05.command_history_independent"]
TECHNIQUE = ("Lean 4 theorem: the parser model started from ANY previous scratch state equals the fresh parse, lifted "
             "to all histories by induction (also through Command.parse: an explicit mode is the mode whatever the config says) "
             "+ differential histories on one real parser object, with mutation snapshots")
LEVEL_TEXT = ("history_independent is proved for ALL request sequences and all initial scratch states of the parser object: "
              "each request on a re-used parser equals the fresh parse. Which scratch dictionaries parse() re-initialises is "
              "regenerated from the source on every run (a removed reset breaks the proof; a new self attribute breaks the "
              "translator), the rest of the parser model is hand-written and tied to the code by differential histories on "
              "one real DefaultArgsParser (also through Config.set_args_parser/Command.parse). command_history_independent: "
              "for every sequence of requests through Command.parse of commands sharing one parser object - mode given or "
              "omitted, configuration switched between requests - each request is the fresh parse of its tokens, format and "
              "mode (the explicit one, else the configured one); how Command.parse picks the mode is regenerated from its "
              "source (Gen.C05.commandMode).")
LEVEL_NOTE = ("Trusted: Lean kernel + standard axioms, tools/genparts/c05.py, the hand-written parser model (validated by "
              "the correspondence), harness; what a command's config answers for is_lenient_args_parsing_enabled() is "
              "followed by the harness from the setters it calls (last setter wins, strict when none was called) and "
              "handed to the model as a parameter. Checked, not proved: that ArgvArgs/parse do not mutate the argv list, the raw "
              "args or the format (before/after snapshots; object mutation has no counterpart in a functional model).")
RULE = ("histories of 1-6 requests from a pool (C02 catalogue formats x adversarial tokens, C01 well-formed lines on "
        "generated formats), exhaustive over a 10-request pool for length <= 2 (quick) / 3 (thorough), random beyond; "
        "through Command.parse: every pool line x mode {False, True, omitted} x config {untouched, enabled, disabled} as "
        "a single request, pairs of requests to ONE command with the config changed before or between them, and 60 % of the "
        "requests of the random histories that go through a command (one command per request or one for the history); "
        "white space in the argv list: a line break / CR LF / tab / blank / other Unicode space at the end, at the start, "
        "inside or as the whole of the LAST token, an earlier token or the script name (13 lines on 4 catalogue formats, "
        "single requests and 2-3 request histories directly and through a command; 12 % of the requests of the random "
        "histories) - the caller's list is compared before/after wrapping and after parsing, and the raw arguments must "
        "carry exactly the list's entries; "
        "non-trivial = length >= 2 with an option set or an error in an earlier request; distinct = the history")
TRUSTED_BASE = [
    "Lean 4.33 kernel; axioms within propext, Classical.choice, Quot.sound (audited per theorem on every run)",
    "tools/genparts/c05.py: reads which scratch dictionaries DefaultArgsParser.parse re-initialises, that the class keeps "
    "no other state, and how Command.parse chooses the mode it hands to the parser",
    "lean/Clikit/Model/Parser.lean: hand-written model of the parser (modelled, not verified; tied by the correspondence runs of C01/C02/C05)",
    "harness/props/c05.py, harness/parser_common.py: generators, snapshots, canonical encoding; int()/float() tables taken from CPython",
]
ASSUMPTIONS = [
    "non-mutation of argv / RawArgs.tokens / format listings is checked by snapshots on every generated request, not proved "
    "(the argv list is snapshotted before ArgvArgs(argv), compared right after the wrapping and again after the parse; "
    "RawArgs.tokens / script_name are compared with the list's entries, including entries with line breaks and other white space)",
    "float()/int() of CPython are parameters of the model (conversion tables computed by the running interpreter)",
]
BATCH = 1000

POOL_TOKENS = [["--foo", "x"], ["y"], ["--bar=v", "a"], ["-f"], ["--unknown"], ["a", "b", "c", "d"],
               ["--bar"], ["--", "--foo"], [], ["-fb", "v", "p"]]


def _pool():
    spec = c02.CATALOGUE[1]
    out = []
    for t in POOL_TOKENS:
        for len_ in (False, True):
            out.append({"spec": spec, "tokens": t, "lenient": len_})
    return out


# how a request reaches the parser when it goes through Command.parse(args, lenient=None):
#   "lenient": True / False (given explicitly) or None (parameter omitted: the command's config decides)
#   "cfg":     None (configuration untouched), "enable" / "disable" (Config.enable_/disable_lenient_args_parsing()
#              called on the command's config before the request)
# via "config": every request gets a command with a config of its own; via "command": ONE command and config for the
# whole history (what a setter did stays in force for the later requests); the parser object is shared in both.
MODES = [False, True, None]
CFGS = [None, "enable", "disable"]


def _command_cases(tier):
    import itertools
    spec = c02.CATALOGUE[1]
    lines = POOL_TOKENS if tier != "quick" else [POOL_TOKENS[i] for i in (0, 1, 4, 5, 6, 7)]
    # one request: every line x every way of giving the mode x every configuration
    for t in lines:
        for mode, cfg in itertools.product(MODES, CFGS):
            yield {"requests": [{"spec": spec, "tokens": t, "lenient": mode, "cfg": cfg}], "via": "config"}
    # two requests to ONE command: the configuration is changed before the first or between the two
    pairs = [(["--foo", "x"], ["a", "b", "c", "d"]), (["--unknown"], ["y"])]
    for (t1, t2) in pairs if tier == "quick" else itertools.product(POOL_TOKENS, repeat=2):
        for m1, c1, m2, c2 in itertools.product(MODES, CFGS, MODES, CFGS):
            if c1 is None and c2 is None and tier == "quick":
                continue
            yield {"requests": [{"spec": spec, "tokens": t1, "lenient": m1, "cfg": c1},
                                {"spec": spec, "tokens": t2, "lenient": m2, "cfg": c2}], "via": "command"}


# tokens that carry line breaks, tabs and other white space (a command line taken from a CRLF script, read line by
# line from a file, handed over by another program): at the end, at the start, inside a token, or the whole token -
# on the LAST token, on an earlier one, or on the script name.  They are characters of the token like any other.
WS = ["\n", "\r\n", "\r", "\t", " ", "\n\r", "\x0b", "\x0c", "\u2028", "\u00a0", "\n\n"]
WS_FORMS = ["end", "start", "inside", "alone"]
WS_LINES = [(1, ["y", "z"]), (1, ["--foo", "x"]), (1, ["a", "--bar", "v"]), (1, ["--bar=v", "a"]), (1, ["-fb", "v", "p"]),
            (2, ["p", "--num", "5"]), (2, ["q", "-o7"]), (2, ["--multi=a", "p", "q"]),
            (4, ["5", "1.5", "-b", "true"]), (4, ["7", "2.5", "--opt=2.5"]), (3, ["server", "add", "h1"]),
            (1, []), (1, ["y"])]


def _decorate(t, ws, form):
    if form == "end":
        return t + ws
    if form == "start":
        return ws + t
    if form == "inside":
        return t[:max(1, len(t) // 2)] + ws + t[max(1, len(t) // 2):]
    return ws


def _ws_request(spec_i, tokens, pos, ws, form, lenient):
    """pos: index of the decorated token, -1 = the last one, "script" = the script name"""
    rq = {"spec": c02.CATALOGUE[spec_i], "tokens": list(tokens), "lenient": lenient}
    if pos == "script":
        rq["script"] = _decorate("prog", ws, form)
    elif tokens:
        rq["tokens"][pos] = _decorate(tokens[pos], ws, form)
    else:
        rq["script"] = _decorate("prog", ws, form)
    return rq


def _whitespace_cases(tier):
    import itertools
    quick = tier == "quick"
    wss = WS[:5] if quick else WS
    lines = [WS_LINES[i] for i in (0, 2, 5, 8, 11)] if quick else WS_LINES
    for (si, toks), ws, form in itertools.product(lines, wss, WS_FORMS):
        for pos in (-1, 0, "script"):
            if pos == 0 and len(toks) < 2:
                continue
            for len_ in ((False,) if quick else (False, True)):
                yield {"requests": [_ws_request(si, toks, pos, ws, form, len_)], "via": "direct"}
    # the same list contents handed in twice / after another line, on one parser, directly and through a command
    for (si, toks), ws in itertools.product(lines[:3], wss[:3] if quick else wss):
        for via in ("direct", "command"):
            a = _ws_request(si, toks, -1, ws, "end", False)
            b = {"spec": c02.CATALOGUE[si], "tokens": list(toks), "lenient": False}
            yield {"requests": [a, b], "via": via}
            yield {"requests": [b, a, dict(a)], "via": via}


def _sprinkle(rng, rq):
    """one token of the request (or its script name) gets white space"""
    ws, form = rng.choice(WS), rng.choice(WS_FORMS)
    r = rng.random()
    if not rq["tokens"] or r < 0.15:
        rq["script"] = _decorate("prog", ws, form)
        return
    pos = len(rq["tokens"]) - 1 if r < 0.6 else rng.randrange(len(rq["tokens"]))
    rq["tokens"] = list(rq["tokens"])
    rq["tokens"][pos] = _decorate(rq["tokens"][pos], ws, form)


def generate(tier, rng):
    import itertools
    pool = _pool()
    L = 2 if tier == "quick" else 3
    for n in range(1, L + 1):
        for seq in itertools.product(range(0, len(pool), 2 if n == 3 else 1), repeat=n):
            yield {"requests": [pool[i] for i in seq], "via": "direct"}
    for case in _command_cases(tier):
        yield case
    for case in _whitespace_cases(tier):
        yield case
    nrand = 1500 if tier == "quick" else 25000
    for _ in range(nrand):
        reqs = []
        for _ in range(rng.randint(2, 6)):
            r = rng.random()
            if r < 0.4:
                spec = pc.gen_format(rng)
                tokens, _ = pc.gen_line(rng, spec, omit_cmd_suffix=rng.random() < 0.2)
            elif r < 0.8:
                spec = rng.choice(c02.CATALOGUE)
                tokens = [rng.choice(c02.ALPHABET) for _ in range(rng.randint(0, 5))]
            else:
                spec = rng.choice(c02.CATALOGUE)
                tokens = rng.choice(POOL_TOKENS)
            reqs.append({"spec": spec, "tokens": tokens, "lenient": rng.random() < 0.4})
        via = rng.choice(["direct", "direct", "config", "command"])
        if via != "direct":
            for rq in reqs:
                if rng.random() < 0.6:
                    rq["lenient"] = rng.choice(MODES)
                    rq["cfg"] = rng.choice(CFGS)
        for rq in reqs:
            if rng.random() < 0.12:
                _sprinkle(rng, rq)
        yield {"requests": reqs, "via": via}


def exhaustive(tier):
    return False


def _listing(fmt):
    try:
        return [[c.string for c in fmt.get_command_names()], list(fmt.get_arguments().keys()),
                list(fmt.get_options().keys()),
                [repr(pc.enc(a.default)) for a in fmt.get_arguments().values()],
                [repr(pc.enc(o.default)) for o in fmt.get_options().values()]]
    except Exception as e:  # noqa - a format that can no longer be listed has been changed by the parse
        return ["unreadable: " + type(e).__name__]


def modes(case):
    """per request: (explicit mode or None, what the command's config answers, the mode of the parse) - the config's
    answer follows from the setters called so far (never called: the default, strict)"""
    out = []
    configured = False
    for rq in case["requests"]:
        if case["via"] == "config":
            configured = False
        if rq.get("cfg") == "enable":
            configured = True
        elif rq.get("cfg") == "disable":
            configured = False
        ex = rq["lenient"]
        out.append((ex, configured, configured if ex is None else ex))
    return out


def run_impl(case):
    from clikit.args.argv_args import ArgvArgs
    from clikit.args.default_args_parser import DefaultArgsParser
    shared = DefaultArgsParser()
    results, fresh, mutated = [], [], []
    fmt = args = None
    the_cfg = the_cmd = None      # via "command": one config / command for the whole history
    for rq, (explicit, _configured, mode) in zip(case["requests"], modes(case)):
        # every request brings its own format OBJECT, and the previous one is gone by then (formats assembled per
        # request are the usual case): nothing the parser remembers about an earlier format object may matter
        fmt = args = cmd = None
        if the_cmd is not None:
            the_cmd._args_format = None
        fmt = pc.build_format(rq["spec"])
        script = rq.get("script", "prog")
        argv = [script] + list(rq["tokens"])
        argv_before = list(argv)
        raw = ArgvArgs(argv)
        wrapped = []
        if argv != argv_before:
            wrapped.append("argv list (by wrapping it as raw arguments)")
        # the raw arguments carry exactly the list's entries: the script name, and the tokens after it
        if list(raw.tokens) != argv_before[1:]:
            wrapped.append("raw args tokens are not the tokens of the argv list")
        if raw.script_name != argv_before[0]:
            wrapped.append("raw args script name is not the first entry of the argv list")
        tokens_before = list(raw.tokens)
        listing_before = _listing(fmt)
        if case["via"] in ("config", "command"):
            from clikit.api.config.command_config import CommandConfig
            from clikit.api.command.command import Command
            if case["via"] == "config" or the_cmd is None:
                cfg = CommandConfig("cmd")
                cfg.set_args_parser(shared)
                cmd = Command(cfg)
                if case["via"] == "command":
                    the_cfg, the_cmd = cfg, cmd
            else:
                cfg, cmd = the_cfg, the_cmd
            if rq.get("cfg") == "enable":
                cfg.enable_lenient_args_parsing()
            elif rq.get("cfg") == "disable":
                cfg.disable_lenient_args_parsing()
            # the command parses against ITS format; give it the generated one
            cmd._args_format = fmt
            try:
                args = cmd.parse(raw) if explicit is None else cmd.parse(raw, explicit)
                r = {"ok": pc.observe_args(fmt, args)}
            except Exception as e:  # noqa
                r = {"err": type(e).__name__}
            cfg = cmd = None
        else:
            try:
                args = shared.parse(raw, fmt, rq["lenient"])
                r = {"ok": pc.observe_args(fmt, args)}
            except Exception as e:  # noqa
                r = {"err": type(e).__name__}
        results.append(r)
        m = list(wrapped)
        if argv != argv_before and not wrapped:
            m.append("argv list")
        if list(raw.tokens) != tokens_before:
            m.append("raw args tokens")
        if _listing(fmt) != listing_before:
            m.append("format")
        mutated.append(m)
        # the reference: a fresh parser on the same tokens, format and MODE (an explicit mode is the mode; omitted, it is
        # what the command's config was told)
        fresh.append(pc.run_parse(DefaultArgsParser(), fmt, rq["tokens"], mode))
    return {"results": results, "fresh": fresh, "mutated": mutated}


def model_requests(case):
    reqs = []
    for rq, (explicit, configured, mode) in zip(case["requests"], modes(case)):
        flat = pc.flatten(pc.build_format(rq["spec"]))
        r = pc.model_request(flat, rq["tokens"], mode)
        del r["m"]
        if case["via"] != "direct":
            # through Command.parse: the model decides the mode (Gen.C05.commandMode, read from the source)
            del r["lenient"]
            r["explicit"], r["configured"] = explicit, configured
        reqs.append(r)
    return [{"m": "c05.history" if case["via"] == "direct" else "c05.command_history", "requests": reqs}]


def model_obs(case, answers):
    return {"results": [pc.canon_model_answer(a) for a in answers[0]]}


def impl_view(case, obs):
    return {"results": obs["results"]}


def oracle(case, obs):
    ms = modes(case)
    for k, (r, f, m) in enumerate(zip(obs["results"], obs["fresh"], obs["mutated"])):
        if r != f:
            ex, configured, mode = ms[k]
            how = "" if case["via"] == "direct" else (
                " through Command.parse(%s) of a command whose config answers lenient=%s"
                % ("mode omitted" if ex is None else "lenient=%s" % ex, configured))
            return "request %d%s on the re-used parser gives %s, a fresh parser with lenient=%s gives %s" % (
                k, how, str(r)[:300], mode, str(f)[:300])
        if m:
            return "request %d modified its inputs: %s" % (k, ", ".join(m))
    return None


def nontrivial_key(case, obs):
    import json
    if len(case["requests"]) >= 2:
        return json.dumps(case, sort_keys=True)
    return None


def bucket(case, obs):
    how = ""
    if case["via"] != "direct":
        ms = modes(case)
        how = "|explicit=%d omitted=%d against-config=%d" % (
            sum(1 for e, c, m in ms if e is not None), sum(1 for e, c, m in ms if e is None),
            sum(1 for e, c, m in ms if e is not None and e != c))
    return "%s|len=%d|errs=%d%s" % (case["via"], len(case["requests"]), sum(1 for r in obs["results"] if "err" in r), how)


def shrink(case):
    rq = case["requests"]
    for i in range(len(rq)):
        if len(rq) > 1:
            yield {"requests": rq[:i] + rq[i + 1:], "via": case["via"]}
    for i in range(len(rq)):
        if rq[i].get("cfg") is not None and case["via"] == "config":
            r2 = dict(rq[i], cfg=None)
            yield {"requests": rq[:i] + [r2] + rq[i + 1:], "via": case["via"]}
    for i in range(len(rq)):
        t = rq[i]["tokens"]
        for j in range(len(t)):
            r2 = dict(rq[i])
            r2["tokens"] = t[:j] + t[j + 1:]
            yield {"requests": rq[:i] + [r2] + rq[i + 1:], "via": case["via"]}
    for i in range(len(rq)):
        if "script" in rq[i]:
            r2 = {k: v for k, v in rq[i].items() if k != "script"}
            yield {"requests": rq[:i] + [r2] + rq[i + 1:], "via": case["via"]}
