"""
C17 - what is rendered does not depend on what was processed before.

Five case kinds:
  proto  - HelpResolver.create_resolved_command on a real command config whose leniency setting is
           None / True / False, with the inner call succeeding or raising; compared with the Lean protocol
  styles - sequences of TableStyle factory calls and border customisations on the real objects; the
           border fields of every created style compared with the Lean heap model
  hist   - sequences (2-6) of command lines on ONE default-config application vs fresh applications
           (status, both streams, handler arguments, the I/O state every handler finds and its probe lines as they
           reach the streams - also compared with the Lean model of the run's I/O, Model/RunIO.lean), in the same process.  Every handler shows, in what it writes, the
           state of the I/O object it was given (tagged text with predefined and private tags, lines at every verbosity,
           both streams, the indentation); the handler of the `tweak` command CHANGES the I/O objects it was given through
           their public setters (formatter styles added / a predefined one restyled, another formatter, verbosity, quiet,
           interaction, indentation, terminal dimensions): the I/O of a run belongs to that run
  twice  - components rendered twice (tables with every predefined style, help pages, error traces)
  render - histories of renderings and indentation scopes on ONE I/O object of varying CONSTRUCTION (BufferedIO; two
           Output objects on two streams / on one stream; ONE Output object for both channels, IO(input, out, out);
           section I/O; one section output for both channels), plain or decorated, at every verbosity, with an initial
           indentation: tables, paragraphs, labeled paragraphs, name/version, help pages, error traces (which indent the
           I/O while they render), user components writing to both channels and user components that open indentation
           scopes of their own, rendered repeatedly, inside / after `with io.indent(n)`, `io.increment_indent(n)`,
           `io.output.indent(n)`, ... scopes (nested, left by exceptions).  Every rendering is compared with the same
           component as the FIRST thing rendered on a fresh I/O of the same construction inside the same scopes; the
           `_indent` of both outputs before / after every rendering with the Lean model (Model/IndentShared.lean)
"""
from harness import app_common as ac
from harness import parser_common as pc

ID = "C17"
DESIGN_REF = "6/C17"
LEAN_MODULES = ["Clikit.Props.C17"]
REQUIRED_THEOREMS = ["Clikit.Props.C17." + n for n in (
    "help_restores", "run_restores", "history_independent", "parser_history_independent", "style_noninterference",
    "factories_copy", "d20_aliasing_interferes", "style_noninterference_of_copies", "makeStyle_fresh",
    "styles_wf_decides", "refs_fresh", "refs_fresh_source", "style_noninterference_dec", "style_noninterference_after",
    # history independence on the stateful composed application model (Model/AppState.lean)
    "app_run_restores_state", "app_run_keeps_configured", "app_run_stateless", "app_history_results",
    "app_run_history_independent", "app_reused_eq_fresh", "d21_protocol_history_dependent",
    "app_io_of_tokens", "app_io_history_independent",
    # the I/O objects of a run - formatters with their style registries, outputs - created per run (Model/RunIO.lean)
    "io_state_fresh_per_run", "tweaks_do_not_leak", "world_cache_unread", "cached_formatter_leaks",
    # renderings and indentation scopes on one I/O whose outputs may be ONE object (Model/IndentShared.lean)
    "indent_restores_shared", "indent_enter_leave", "render_history_restores", "render_history_indentation_kept",
    "render_independent_of_history", "render_twice_same", "late_snapshot_same_when_distinct",
    "late_snapshot_leaks_when_shared")]
TECHNIQUE = ("Lean 4 theorems over the two hidden-state protocols read from the source on every run (help resolver's "
             "leniency save/restore, table-style factories copying cached border styles) + C05 for the parser; differential "
             "histories on one real application vs fresh ones, style construction orders, render-twice")
LEVEL_TEXT = ("How HelpResolver.create_resolved_command restores the leniency it switches on (finally block, previous value) and "
              "which TableStyle factory copies its cached BorderStyle and assigns which fields are regenerated from the source "
              "into Lean on every run. Proved: the help resolver leaves the setting as it found it on every exit path; hence, "
              "for ANY sequence of command lines on one application, each run observes what a fresh application observes "
              "(history_independent, for every outcome function that reads the state through the leniency settings; parser "
              "scratch state by C05); and for ANY sequence of factory calls and customisations of other styles the border "
              "style of a given style object is unchanged (heap model; D20 kept as a proved counterexample for aliasing "
              "factories); every created style owns a FRESH border object (refs_fresh_source: heap object 3 + j for the j-th style), "
              "which is also read off the real objects by identity and compared on every styles case (entry c17.styles_wf), so the "
              "reference `q` of the theorem is the border object of the real style. That no OTHER hidden state exists in the real objects is what the differential histories "
              "(one application vs fresh ones, same process) and the style-order / render-twice runs explore. "
              "On the COMPOSED model of a whole run (Model/App.lean runApp, the model of C04/C09 tied to ConsoleApplication.run) the "
              "hidden state is made explicit (Model/AppState.lean): runAppS threads, per command, the leniency setting as configured "
              "and as it is now (read by every Command.parse without explicit mode, toggled by the help resolver with the protocol "
              "read from the source) and, per installed parser object (Config.set_args_parser, possibly shared by commands), the "
              "scratch dictionaries its last parse left (C05's parseFrom). Proved for EVERY command tree, handler assignment, "
              "conversion table, configuration of settings and parser objects, history of command lines and final line: every run "
              "leaves every setting as it found it on every exit path (app_run_restores_state), a run on an application whose "
              "settings are the configured ones is the pure runApp whatever the parser objects hold (app_run_stateless), hence the "
              "run after any history equals the pure run (app_run_history_independent) and a re-used application equals a fresh "
              "one (app_reused_eq_fresh, no hypothesis); with the pre-repair protocol of D21 a failing help request provably "
              "changes the next run (d21_protocol_history_dependent). The stateful model is run through every generated history "
              "(entry c17.app_hist, on the tree, settings and parser wiring read from the real application) and compared with the "
              "runs of the real REUSED application: status, what happened, the command and arguments selected, the handler calls "
              "with their arguments, the I/O configuration every handler finds on entry (app_io_history_independent: decided by the "
              "tokens of that line alone, whatever earlier runs and their handlers did to THEIR I/O), and the "
              "_lenient_args_parsing of every command's config after every run. "
              "The I/O OBJECTS of a run are modelled (Model/RunIO.lean): create_io builds, per run, formatter objects whose style "
              "registry is a COPY of the configuration's style set on top of pastel's own styles (one object for both outputs under "
              "--ansi / --no-ansi, else one per output), two outputs (formatter object, _format_output, verbosity, quiet, "
              "indentation) and the interaction flag; a handler is ANY function of that state; what a tagged line shows is decided "
              "by the state at that moment (nothing / indentation, tag literal / removed / ANSI). What outlives a run is the "
              "configuration's style set only. Proved for every application, history and handler assignment: the handler of every run "
              "finds the state create_io builds from the style set and the tokens of THAT line (io_state_fresh_per_run), every run "
              "shows and finds what it does on the application as built and the style set is afterwards what it was "
              "(tweaks_do_not_leak); with ONE formatter object per configuration - the protocol of the seeded change C17-8 - a style "
              "added in run 1 is provably registered in run 2 (cached_formatter_leaks). Tied by c17.app_hist: per handler call the "
              "I/O state found (per output: formatter class, forced, the WHOLE registry in order, _format_output, verbosity, quiet, "
              "indentation; whether both outputs hold one formatter object; interaction) and 16 probe lines as they reached the "
              "streams after the handler's own changes (written or not, indentation, literal / tag removed / ANSI, the look "
              "registered), and the configuration's style set after every run, all compared with the real objects. "
              "Renderings on one I/O (Model/IndentShared.lean): the outputs of an I/O are OBJECTS and both channels may be one "
              "object, which every scope of the I/O then lists twice. Proved for every list of outputs (repetitions included), "
              "every history of renderings and nested scopes, left normally or by exceptions: the indentation of every output "
              "object afterwards is the one before (render_history_restores), every rendering finds the indentation of its "
              "enclosing scopes only, hence the same whatever was rendered before (render_independent_of_history, "
              "render_twice_same); recording the value to restore inside the loop of Indent.__init__ is the same protocol on two "
              "objects and provably leaks on a shared one (late_snapshot_*). Tied by c17.render_hist: `_indent` of both outputs "
              "before and after every rendering and at the end, on the objects of the real I/O (which are shared is read off by identity).")
LEVEL_NOTE = ("Trusted: Lean kernel + standard axioms; tools/genparts/c17.py (AST matching of the try/finally and of the "
              "factories); the hand-written state model (only leniency + parser scratch + border heap are modelled: other "
              "state would be invisible to the theorems and is looked for by the history runs); harness. Render-twice "
              "idempotence is a comparison, not a theorem. Model/AppState.lean (the state-threading re-statement of the resolver "
              "loops is proved equal to the originals; WHICH state the real objects keep is the modelling decision, sampled by "
              "c17.app_hist and by the reused-vs-fresh runs). Model/RunIO.lean: that create_io stores nothing of the I/O it "
              "builds (FmtProto.perRun, keysOf) is read from the source by hand; tools/genparts/c09.py matches the text of the formatter "
              "selection of create_io (constructor calls `PlainFormatter(style_set)` / `AnsiFormatter(style_set[, True])` in every "
              "branch, `io = self.io_class(Input(..), Output(.., output_formatter), Output(.., error_formatter))`) and refuses to "
              "regenerate Gen/C09.lean when it differs (tie A note); beyond that it is what the comparison of the I/O "
              "state found by every handler with the real objects tests (a cached formatter object shows as a registry / "
              "shared-object difference in the next run). The protocol of cached_formatter_leaks (FmtProto.cachedPerConfig; "
              "c17.app_hist answers it when the request carries io.fmt_proto = \"cached\", which no case of this module does) was "
              "run once against the seeded checkout C17-8: it predicted the I/O state found and the probe lines of all 60 of 60 "
              "tweak histories tried, the per-run protocol of none.")
RULE = ("proto: 3 settings x inner ok/raises (exhaustive); styles: all op sequences of length <= 3 (quick) / 4 (thorough) over "
        "4 factories + customisations, plus random to length 8; hist: generated trees + a fixed probe command, sequences of "
        "2-6 lines from {valid, too many arguments, unknown option, unconvertible value, help in both spellings (also "
        "combined with a failing value), version, unknown command, `tweak <what>...` whose handler changes the I/O objects "
        "it was given (formatter styles, formatter, verbosity, quiet, interaction, indentation, terminal dimensions), lines "
        "with --ansi / -v / -vv / -q}, every handler writing tagged and verbosity-flagged lines to both streams and recording "
        "the I/O state it finds and 16 probe lines (predefined / private / unknown tags, both channels, every flag) as they reach "
        "the streams; each history is also run through the stateful composed model with the I/O of every run; "
        "twice: tables x 4 styles, help pages, traces; "
        "render: 6 constructions of the I/O (BufferedIO, two outputs on two streams / on one stream, ONE Output object for both "
        "channels, section I/O, one section output for both channels) x 13 components (tables, paragraphs, name/version, help "
        "pages, traces, user components writing to both channels / opening indentation scopes) x {twice; between two traces; "
        "inside and after an io scope; after an empty scope} (complete table), plus random histories (2-6 steps, scopes nested "
        "to depth 3 over io / output / error output x set / increment, try/raise, 1-4 random components, plain / decorated, "
        "every verbosity, width 40/80/120, initial indentation); table cells carry no style tags (D28); "
        "non-trivial = styles/hist cases of length >= 2, render cases with >= 2 renderings; distinct = the case")
TRUSTED_BASE = [
    "Lean 4.33 kernel; axioms within propext, Classical.choice, Quot.sound (audited per theorem on every run)",
    "tools/genparts/c17.py: what create_resolved_command restores and where; which factories copy; the border field tables",
    "lean/Clikit/Model/History.lean: the modelled hidden state (leniency per command, border-style heap); C05 for the parser object",
    "harness/props/c17.py: history generator, fresh-vs-reused comparison, style op interpreter, interpreter of render "
    "histories (builds the I/O constructions, reads `_indent` of the outputs and which output objects are one)",
    "lean/Clikit/Model/IndentShared.lean: Indent over numbered output objects (hand-written from api/io/indent.py, io.py, "
    "output.py); a rendering is taken to leave the indentation as it found it (compared after every rendering)",
    "lean/Clikit/Model/AppState.lean: the stateful composed application model (leniency settings per command, scratch state "
    "per installed parser object, the help resolver's toggle) on top of Model/App.lean; tied by c17.app_hist on every history",
    "lean/Clikit/Model/RunIO.lean: the I/O objects of a run (hand-written from DefaultApplicationConfig.create_io, "
    "AnsiFormatter / PlainFormatter.__init__ and add_style, Output, IO); harness/props/c17.py `_tweak_ops`: the `tweak` "
    "handler's setter calls restated as model operations (styles from ONE table); a style's look is opaque text (the colours "
    "and options StyleConverter / pastel make of it), read from the formatter's pastel registry (`_formatter._styles`)",
]
ASSUMPTIONS = [
    "hidden state other than the modelled one is searched for by differential histories, not excluded by proof",
    "render-twice idempotence is checked on generated components, not proved: the model of render histories knows the "
    "indentation of the outputs only (what a component writes is opaque to it); that a rendering equals the first "
    "rendering on a fresh I/O of the same construction inside the same scopes is the oracle's comparison",
    "render histories: table cells without style tags (a tagged word cut by the cell wrapper, known finding D28, stays "
    "open in the formatter and colours later renderings); scopes of the I/O objects only, not of further sections created "
    "during the history",
    "stateful composed model (runAppS): the state of an application object is taken to be the leniency setting of every "
    "command's config plus the scratch dictionaries of parser objects installed with set_args_parser; commands are identified "
    "by their name path (sibling commands with the same name are not generated); the tree's `lenient` field is the effective "
    "leniency under the CONFIGURED setting (the tree is extracted before any run), so a setting equal to the configured one "
    "reads that field, an explicit other value reads the value, and None over an explicit configured value (never written "
    "by any protocol: helpCreateP_none) reads the base default False",
    "c17.app_hist: every handler returns 0 - `_H` does; the `counter` command's handler is made by a FACTORY, a new object per "
    "run, so its status len(seen) - 1 is 0 and its printed line shows an empty history (checked on every run: the handler "
    "call of `counter` is accepted only with that line); a handler OBJECT keeping state of its own is outside the model; the "
    "`lenient` command (configured True) and the shared parser object (`shared_parser`) are modelled, nothing is excluded; "
    "the error class of a failing run and the help page shown are not compared here (c09.app_run / C13 do), the scratch "
    "dictionaries of the real parser object are not read (results only, as C05)",
    "handlers that change the I/O objects they were given: modelled (Model/RunIO.lean) are the formatter objects with "
    "their style registries, which output holds which formatter object, _format_output, verbosity, quiet and indentation "
    "per output, the interaction flag; in the THEOREMS a handler is any function of that state, in the comparison it is the "
    "`tweak` handler's table. Not modelled: the terminal dimensions (`narrow`), the streams (buffered, no ANSI support, in "
    "every run), what the application itself writes with the run's formatter (help pages, error reports), a look's ANSI "
    "codes (the look registered is compared, and that the line carries codes). That create_io keeps no reference to the "
    "objects it builds is a reading of the source (FmtProto.perRun), tested by the comparison on every handler call; what "
    "a handler does to objects that are NOT per run (application.config, its style set: `config.style_set.add` in a "
    "handler changes every later run by design) is outside - the handlers of the theorems get the I/O state only",
]
BATCH = 400

FIELDS = ["line_ht_char", "line_hc_char", "line_hb_char", "line_vl_char", "line_vc_char", "line_vr_char",
          "corner_tl_char", "corner_tr_char", "corner_bl_char", "corner_br_char", "crossing_c_char", "crossing_l_char",
          "crossing_t_char", "crossing_r_char", "crossing_b_char"]
FACTORIES = ["borderless", "compact", "ascii", "solid"]
OPTS = [[("force", "f"), ("wide", "w")], [("bar", "b"), ("count", "c")], [("extra", "x"), ("opt", "o")]]


def _style_ops(rng, n):
    ops, made = [], 0
    for _ in range(n):
        if made == 0 or rng.random() < 0.6:
            ops.append({"make": rng.randrange(4)})
            made += 1
        else:
            ops.append({"custom": [rng.randrange(made), rng.randrange(len(FIELDS)), rng.choice(["*", "", "#", "="])]})
    return ops


# what the handler of `tweak` does to the I/O objects it was given (public setters only): style, restyle, formatter,
# verbose, silent, quiet, batch, indent, narrow (see _Tweak).  Lines whose handler changes its I/O, and lines that show the I/O state of a run in colour / at other verbosities
IO_LINES = [["tweak", "style"], ["tweak", "restyle"], ["tweak", "restyle", "--ansi"], ["tweak", "formatter"],
            ["tweak", "verbose"], ["tweak", "silent"], ["tweak", "quiet"], ["tweak", "batch"], ["tweak", "indent"],
            ["tweak", "narrow"],
            ["tweak", "style", "verbose", "indent"], ["tweak"], ["probe", "1", "--ansi"], ["probe", "1", "-vv"],
            ["probe", "1", "2", "3", "--ansi"], ["-h", "--ansi"], ["probe", "1", "-q"]]
LINES = [["probe", "1"], ["probe", "1", "2", "3"], ["probe", "--nope"], ["probe", "--count=abc", "1"],
         ["probe", "--count=abc", "-h"], ["probe", "-h"], ["help", "probe"], ["--version"], ["nosuch"],
         ["probe", "--count=5", "1"], ["lenient", "a", "b", "c"], ["lenient", "-h"], ["help", "lenient"], ["-h"],
         ["counter", "x"], ["counter", "y"], ["counter", "-h"], ["counter"]]


def generate(tier, rng):
    import itertools
    for cur in (None, True, False):
        for ok in (True, False):
            yield {"k": "proto", "cur": cur, "inner_ok": ok}
    L = 3 if tier == "quick" else 4
    pool = [{"make": k} for k in range(4)] + [{"custom": [j, f, v]} for j in (0, 1) for f in (1, 4, 10) for v in ("*", "")]
    for n in range(1, L + 1):
        for seq in itertools.product(pool, repeat=n):
            made = 0
            ok = True
            for op in seq:
                if "make" in op:
                    made += 1
                elif op["custom"][0] >= made:
                    ok = False
                    break
            if ok:
                yield {"k": "styles", "ops": list(seq)}
    for _ in range(300 if tier == "quick" else 5000):
        yield {"k": "styles", "ops": _style_ops(rng, rng.randint(4, 8))}
    for _ in range(250 if tier == "quick" else 4000):
        tree = ac.gen_tree(rng, max_depth=2, fanout=2, opts_by_depth=OPTS)
        tree["global_flag"] = False
        lines = [rng.choice(LINES) for _ in range(rng.randint(2, 6))]
        yield {"k": "hist", "tree": tree, "lines": lines, "shared_parser": rng.random() < 0.4}
    # histories in which handlers change the I/O objects they were given (the `tweak` command) between ordinary lines
    for _ in range(100 if tier == "quick" else 2500):
        tree = ac.gen_tree(rng, max_depth=2, fanout=2, opts_by_depth=OPTS)
        tree["global_flag"] = False
        lines = [rng.choice(IO_LINES) if rng.random() < 0.6 else rng.choice(LINES) for _ in range(rng.randint(2, 6))]
        yield {"k": "hist", "tree": tree, "lines": lines, "shared_parser": rng.random() < 0.4}
    # the `twice` cases are by far the most expensive ones: spread among the (cheap) render cases, so that the chunks the
    # pipeline hands to its workers contain one of them at most
    twice = [{"k": "twice", "seed": rng.randrange(10 ** 6)} for _ in range(40 if tier == "quick" else 400)]
    for i, case in enumerate(_gen_render(tier, rng)):
        if i % 10 == 0 and twice:
            yield twice.pop(0)
        yield case
    for case in twice:
        yield case


# ---- generator of `render` cases --------------------------------------------------------------------------------
WORDS = ["a", "bb", "ccc", "dddd", "<b>bold</b>", "<info>tag</info>", "longer-word", "x"]
PLAIN_WORDS = [w for w in WORDS if "<" not in w]
# one component of every kind (the systematic part renders each of them on every construction of the I/O)
COMP_POOL = [
    {"c": "table", "style": 2, "header": ["ISBN", "Title"], "rows": [["99921-58-10-7", "Divine Comedy"], ["9971-5-0210-0", "A Tale of Two Cities"]], "ind": 0},
    {"c": "table", "style": 0, "header": None, "rows": [["a <b>b</b>", "c"]], "ind": 2},
    {"c": "para", "text": "Lorem ipsum dolor sit amet, consetetur sadipscing elitr, sed diam nonumy eirmod tempor invidunt ut labore", "ind": 0},
    {"c": "labeled", "label": "<c1>--option</c1>", "text": "what the option does, in more words than fit on a narrow line", "ind": 2},
    {"c": "nv"},
    {"c": "help"},
    {"c": "help", "cmd": "probe"},
    {"c": "trace", "e": 0},
    {"c": "trace", "e": 1},
    {"c": "trace", "e": 0, "simple": True},
    {"c": "lines", "text": "one line per channel", "ind": 0},
    {"c": "block", "text": "section", "t": "io", "inc": True, "n": 2, "nested": True},
    {"c": "block", "text": "part", "t": "out", "inc": False, "n": 3},
]


def _gen_comp(rng):
    c = rng.choice(["table", "para", "labeled", "empty", "nv", "help", "help", "trace", "trace", "trace", "lines", "lines",
                    "block", "block"])
    text = " ".join(rng.choice(WORDS) for _ in range(rng.randint(1, 14)))
    if c == "table":
        ncol = rng.randint(1, 3)
        return {"c": c, "style": rng.randrange(4), "header": ["h%d" % i for i in range(ncol)] if rng.random() < 0.7 else None,
                # cells without style tags: a tagged word in a cell that must wrap is cut inside the tag (known finding
                # D28 / c14_styled_cell_wrapped, C14's generator keeps them out as well) - and the half tag then stays
                # open in the formatter, see the report of this round
                "rows": [[" ".join(rng.choice(PLAIN_WORDS) for _ in range(rng.randint(1, 6))) for _ in range(ncol)]
                         for _ in range(rng.randint(1, 3))], "ind": rng.choice([0, 0, 2, 5])}
    if c in ("para", "lines"):
        return {"c": c, "text": text, "ind": rng.choice([0, 0, 1, 4])}
    if c == "labeled":
        return {"c": c, "label": rng.choice(WORDS), "text": text, "ind": rng.choice([0, 2])}
    if c == "help":
        return {"c": c, "cmd": rng.choice([None, "probe", "lenient", "tweak"])}
    if c == "trace":
        return {"c": c, "e": rng.randrange(2), "simple": rng.random() < 0.15}
    if c == "block":
        return {"c": c, "text": rng.choice(["section", "part", "chapter"]), "t": rng.choice(["io", "io", "out", "err"]),
                "inc": rng.random() < 0.6, "n": rng.choice([0, 1, 2, 4]), "nested": rng.random() < 0.4}
    return {"c": c}


def _gen_steps(rng, ncomp, depth, n, in_try):
    steps = []
    for _ in range(n):
        r = rng.random()
        if depth < 3 and r < 0.3:
            steps.append({"scope": rng.choice(["io", "io", "out", "err"]), "inc": rng.random() < 0.5,
                          "n": rng.choice([0, 1, 2, 3, 4, 8]),
                          "body": _gen_steps(rng, ncomp, depth + 1, rng.randint(0, 3), in_try)})
        elif depth < 3 and r < 0.4:
            steps.append({"try": _gen_steps(rng, ncomp, depth + 1, rng.randint(1, 3), True)})
        elif r > (0.85 if in_try else 0.99):
            steps.append({"raise": True})
        else:
            steps.append({"render": rng.randrange(ncomp)})
    return steps


def _gen_io(rng, kind=None):
    from clikit.api.io.flags import DEBUG, NORMAL, VERBOSE, VERY_VERBOSE
    kind = kind or rng.choice(IO_KINDS + ["merged", "merged"])
    base = rng.choice([[0, 0], [0, 0], [0, 0], [2, 2], [3, 0], [0, 5]])
    if kind in ("merged", "merged_section"):
        base = [base[0], base[0]]
    return {"kind": kind, "ansi": rng.random() < 0.4, "verbosity": rng.choice([NORMAL, NORMAL, VERBOSE, VERY_VERBOSE, DEBUG]),
            "width": rng.choice([None, None, 40, 120]), "base": base}


def _gen_render(tier, rng):
    # systematic: every kind of component on every construction of the I/O - twice; between two traces (components that
    # indent the I/O while they render); after a scope that enclosed it; after an empty scope
    pool = list(range(len(COMP_POOL)))
    pats = [lambda c: [{"render": c}, {"render": c}],
            lambda c: [{"render": 7}, {"render": c}, {"render": 8}, {"render": c}],
            lambda c: [{"scope": "io", "inc": True, "n": 2, "body": [{"render": c}]}, {"render": c}],
            lambda c: [{"scope": "io", "inc": False, "n": 4, "body": []}, {"render": c}]]
    for kind in IO_KINDS:
        for c in pool:
            for j, pat in enumerate(pats):
                yield {"k": "render", "io": {"kind": kind, "ansi": False, "verbosity": 0, "width": None, "base": [0, 0]},
                       "comps": COMP_POOL, "steps": pat(c)}
    for _ in range(200 if tier == "quick" else 4000):
        ncomp = rng.randint(1, 4)
        yield {"k": "render", "io": _gen_io(rng), "comps": [_gen_comp(rng) for _ in range(ncomp)],
               "steps": _gen_steps(rng, ncomp, 0, rng.randint(2, 6), False)}


def exhaustive(tier):
    return False


# ---- implementation side ---------------------------------------------------------------------------
def _proto(case):
    from clikit.api.args.format.option import Option
    from clikit.api.config.command_config import CommandConfig
    from clikit.api.command.command import Command
    from clikit.args.argv_args import ArgvArgs
    from clikit.resolver.help_resolver import HelpResolver
    from clikit.resolver.resolve_result import ResolveResult
    cfg = CommandConfig("cmd")
    cfg.add_option("count", "c", Option.REQUIRED_VALUE | Option.INTEGER)
    if case["cur"] is True:
        cfg.enable_lenient_args_parsing()
    elif case["cur"] is False:
        cfg.disable_lenient_args_parsing()
    cmd = Command(cfg)
    tokens = ["cmd"] if case["inner_ok"] else ["cmd", "--count=abc"]
    res = ResolveResult(cmd, ArgvArgs(["prog"] + tokens))
    try:
        HelpResolver().create_resolved_command(res)
        raised = None
    except Exception as e:  # noqa
        raised = type(e).__name__
    return {"after": cfg._lenient_args_parsing, "raised": raised}


def _styles(case):
    from clikit.ui.style.table_style import TableStyle
    made = []
    for op in case["ops"]:
        if "make" in op:
            made.append(getattr(TableStyle, FACTORIES[op["make"]])())
        else:
            j, f, v = op["custom"]
            setattr(made[j].border_style, FIELDS[f], v)
    # which border-style OBJECT each created style owns, by identity: 0/1/2 = the cached BorderStyle.none/ascii/solid()
    # instances, 3.. = further objects in order of first appearance (the heap positions of the Lean model)
    from clikit.ui.style.border_style import BorderStyle
    heap = [BorderStyle.none(), BorderStyle.ascii(), BorderStyle.solid()]
    refs = []
    for s in made:
        b = s.border_style
        idx = next((k for k, o in enumerate(heap) if o is b), None)
        if idx is None:
            heap.append(b)
            idx = len(heap) - 1
        refs.append(idx)
    return {"borders": [[getattr(s.border_style, f) for f in FIELDS] for s in made], "refs": refs}


CALLS = []


def _io_seen(io):
    """the I/O configuration a handler finds on entry (plain buffered streams: `auto` selects the plain formatter
    there, so only `forced` is visible of the ANSI mode)"""
    from clikit.formatter.ansi_formatter import AnsiFormatter
    f = io.output.formatter
    return {"forced": isinstance(f, AnsiFormatter) and bool(f.force_ansi()), "verbosity": io.verbosity,
            "quiet": io.is_quiet(), "interactive": io.is_interactive()}


def _show_io(io):
    """lines in which the state of the I/O object of this run is visible: predefined and private tags on both streams,
    every verbosity, the indentation, the terminal width"""
    from clikit.api.io.flags import DEBUG, VERBOSE, VERY_VERBOSE
    io.write_line("<info>info</info> <comment>comment</comment> <brand>brand</brand> <hl>hl</hl> <b>b</b> plain")
    io.write_line("verbose <info>line</info>", VERBOSE)
    io.write_line("very verbose <brand>line</brand>", VERY_VERBOSE)
    io.write_line("debug line", DEBUG)
    io.error_line("<error>error</error> <brand>brand</brand> <warning>warning</warning>")
    io.write_line("width %d, interactive %s" % (io.terminal_dimensions.width, io.is_interactive()))


def _tweak_styles():
    """the styles the `tweak` handler registers (ONE table for the handler and for the model's description of it)"""
    from clikit.api.formatter import Style
    return {"brand_out": Style("brand").fg("magenta").bold(), "brand_err": Style("brand").fg("magenta"),
            "hl": Style("hl").bg("yellow"), "info": Style("info").fg("red").underlined(),
            "error": Style("error").fg("black").bg("white"), "f_brand": Style("brand").fg("cyan"),
            "f_info": Style("info").fg("blue")}


def _look(ps):
    """what a registered (pastel) style looks like: the SGR codes of its colours and options"""
    return "fg=%s;bg=%s;opt=%s" % (ps.foreground, ps.background, "+".join(sorted(str(o) for o in ps.options)))


def _look_of(style):
    """the look a clikit Style gets when a formatter registers it (`add_style`: StyleConverter.convert, then
    Pastel.add_style builds a pastel style from foreground, background and options)"""
    import pastel.style
    from clikit.adapter.style_converter import StyleConverter
    c = StyleConverter.convert(style)
    return _look(pastel.style.Style(c.foreground, c.background, c.options))


def _registry(formatter):
    """the registry of a formatter's own Pastel object, in registration order"""
    return [[t, _look(ps)] for t, ps in formatter._formatter._styles.items()]


def _io_found(io):
    """the state of the I/O objects a handler was given (Model/RunIO.lean `IOState`): per output the formatter (class,
    forced, registry), `_format_output`, verbosity, quiet, indentation; whether both outputs hold ONE formatter object"""
    from clikit.formatter.ansi_formatter import AnsiFormatter

    def out(o):
        f = o.formatter
        return {"ansi": isinstance(f, AnsiFormatter), "forced": bool(f.force_ansi()), "styles": _registry(f),
                "format_output": bool(o.supports_ansi()), "verbosity": o.verbosity, "quiet": bool(o.is_quiet()),
                "indent": o._indent}
    return {"out": out(io.output), "err": out(io.error_output),
            "same_formatter": io.output.formatter is io.error_output.formatter, "interactive": bool(io.is_interactive())}


# probe lines `<tag>tag</tag>` every recording handler writes: channel, tag, flag (0 = none)
PROBES = [["out", "info", 0], ["out", "comment", 0], ["out", "brand", 0], ["out", "hl", 0], ["out", "b", 0],
          ["out", "error", 0], ["out", "nosuchtag", 0], ["err", "error", 0], ["err", "brand", 0], ["err", "info", 0],
          ["err", "hl", 0], ["out", "info", 1], ["out", "brand", 2], ["out", "c1", 4], ["err", "brand", 1],
          ["err", "error", 4]]


def _probe(io):
    """writes the probe lines and reads back what reached the stream: nothing / indentation and whether the tag stayed
    (literal), was removed (stripped) or was replaced by ANSI codes; the look is the one in the formatter's registry"""
    shown = []
    for chan, tag, need in PROBES:
        o = io.output if chan == "out" else io.error_output
        n0 = len(o.stream.fetch())
        o.write_line("<%s>%s</%s>" % (tag, tag, tag), need or None)
        text = o.stream.fetch()[n0:]
        rec = {"on": chan, "tag": tag, "need": need, "written": text != "", "indent": None, "how": "", "look": None}
        if text != "":
            body = text[:-1] if text.endswith("\n") else text
            rest = body.lstrip(" ")
            rec["indent"] = len(body) - len(rest)
            if rest == "<%s>%s</%s>" % (tag, tag, tag):
                rec["how"] = "literal"
            elif rest == tag:
                rec["how"] = "stripped"
            elif rest.startswith("\x1b[") and rest.endswith(tag + "\x1b[0m"):
                rec["how"] = "ansi"
            else:
                rec["how"] = "other:" + rest
            ps = o.formatter._formatter._styles.get(tag)
            rec["look"] = _look(ps) if ps is not None and rec["how"] != "literal" else None
        shown.append(rec)
    return shown


class _H(object):
    def __init__(self, path):
        self.path = path

    def handle(self, args, io, command):
        seen = _io_seen(io)
        found = _io_found(io)
        # a handler reads its arguments every way the API offers (set values, full listings with defaults, by name)
        CALLS.append([list(self.path), sorted((k, repr(v)) for k, v in args.arguments(False).items()),
                      sorted((k, repr(v)) for k, v in args.options(False).items()),
                      sorted((k, repr(v)) for k, v in args.arguments().items()),
                      sorted((k, repr(v)) for k, v in args.options().items()),
                      sorted((k, repr(args.option(k)), args.is_option_set(k)) for k in args.options())])
        # appended for the composed model (c17.app_hist): the SET arguments / options in the canonical encoding, the
        # I/O state found on entry and (below) the probe lines as they reached the streams
        CALLS[-1].append({"args_set": sorted([[k, pc.enc(v)] for k, v in args.arguments(False).items()]),
                          "opts_set": sorted([[k, pc.enc(v)] for k, v in args.options(False).items()]),
                          "io": seen, "found": found, "shown": None})
        self.before(args, io)
        CALLS[-1][-1]["shown"] = _probe(io)
        io.write_line("ran " + " ".join(self.path))
        _show_io(io)
        return 0

    def before(self, args, io):
        pass


class _Tweak(_H):
    """a handler that CHANGES the I/O objects it was given, through their public setters, before it writes: the I/O of
    a run is created for that run, so nothing of this may show in a later run.  `_tweak_ops` is the same in the
    operations of the model."""

    def before(self, args, io):
        from clikit.api.formatter.style_set import StyleSet
        from clikit.api.io.flags import DEBUG
        from clikit.formatter.ansi_formatter import AnsiFormatter
        from clikit.formatter.plain_formatter import PlainFormatter
        from clikit.ui.rectangle import Rectangle
        st = _tweak_styles()
        for what in args.argument("what") or []:
            if what == "style":
                # private tags, on the formatter of each output
                io.formatter.add_style(st["brand_out"])
                io.error_output.formatter.add_style(st["brand_err"])
                io.output.formatter.add_style(st["hl"])
            elif what == "restyle":
                # a predefined tag looks different in this run
                io.formatter.add_style(st["info"])
                io.error_output.formatter.add_style(st["error"])
            elif what == "formatter":
                ss = StyleSet()
                ss.add(st["f_brand"])
                ss.add(st["f_info"])
                io.set_formatter(AnsiFormatter(ss, True) if isinstance(io.formatter, PlainFormatter) else PlainFormatter(ss))
            elif what == "verbose":
                io.set_verbosity(DEBUG)
            elif what == "silent":
                io.error_output.set_quiet(True)
            elif what == "quiet":
                io.set_quiet(True)
            elif what == "batch":
                io.set_interactive(False)
            elif what == "indent":
                io.indent(3)
                io.error_output.increment_indent(2)
            elif what == "narrow":
                io.set_terminal_dimensions(Rectangle(33, 7))


def _tweak_ops():
    """what `_Tweak.before` does per value of `what`, in the operations of Model/RunIO.lean (`HOp`)"""
    from clikit.api.io.flags import DEBUG
    st = dict((k, _look_of(v)) for k, v in _tweak_styles().items())
    ss = [["brand", st["f_brand"]], ["info", st["f_info"]]]
    return [
        ["style", [{"op": "add_style", "on": "out", "tag": "brand", "look": st["brand_out"]},
                   {"op": "add_style", "on": "err", "tag": "brand", "look": st["brand_err"]},
                   {"op": "add_style", "on": "out", "tag": "hl", "look": st["hl"]}]],
        ["restyle", [{"op": "add_style", "on": "out", "tag": "info", "look": st["info"]},
                     {"op": "add_style", "on": "err", "tag": "error", "look": st["error"]}]],
        ["formatter", [{"op": "set_formatter", "if_plain": {"ansi": True, "forced": True, "ss": ss},
                        "if_ansi": {"ansi": False, "forced": False, "ss": ss}}]],
        ["verbose", [{"op": "set_verbosity", "n": DEBUG}]],
        ["silent", [{"op": "set_quiet", "on": "err", "b": True}]],
        ["quiet", [{"op": "set_quiet", "on": None, "b": True}]],
        ["batch", [{"op": "set_interactive", "b": False}]],
        ["indent", [{"op": "indent", "on": None, "inc": False, "n": 3}, {"op": "indent", "on": "err", "inc": True, "n": 2}]],
        ["narrow", []],      # the terminal dimensions are not modelled
    ]


def _style_set_of(app):
    """the configuration's style set, as the formatters would register it"""
    return [[t, _look_of(st)] for t, st in app.config.style_set.styles.items()]


class _Counting(object):
    def __init__(self):
        self.seen = []

    def handle(self, args, io, command):
        self.seen.append(args.argument("a"))
        io.write_line("seen so far: %r" % (self.seen,))
        return len(self.seen) - 1


def _new_app(tree, shared_parser=False):
    from clikit.api.args.format.argument import Argument
    from clikit.api.args.format.option import Option
    from clikit.config.default_application_config import DefaultApplicationConfig
    config = DefaultApplicationConfig("app", "1.2.3")
    p = config.create_command("probe")
    p.add_argument("a", Argument.REQUIRED)
    p.add_option("count", "c", Option.REQUIRED_VALUE | Option.INTEGER)
    p.set_handler(_H(("probe",)))
    l = config.create_command("lenient")
    l.add_argument("a", Argument.OPTIONAL)
    l.enable_lenient_args_parsing()
    l.set_handler(_H(("lenient",)))
    # a handler given as a FACTORY (Config.set_handler accepts a callable): every run gets a handler of its own,
    # so state kept by a handler object cannot leak into the next run
    k = config.create_command("counter")
    k.add_argument("a", Argument.OPTIONAL)
    k.set_handler(lambda: _Counting())
    # a command whose handler changes the I/O objects it was given (its arguments say how)
    t = config.create_command("tweak")
    t.add_argument("what", Argument.OPTIONAL | Argument.MULTI_VALUED)
    t.set_handler(_Tweak(("tweak",)))
    if shared_parser:
        # one parser object installed for several commands (Config.set_args_parser)
        from clikit.args.default_args_parser import DefaultArgsParser
        shared = DefaultArgsParser()
        p.set_args_parser(shared)
        l.set_args_parser(shared)
    tree = dict(tree)
    tree["commands"] = [c for c in tree["commands"] if c["name"] not in ("probe", "lenient", "help", "counter", "tweak")]
    return ac.build_app(tree, config=config, handler_for=lambda path: _H(path), catch=True)


def _run(app, line):
    from clikit.args.argv_args import ArgvArgs
    from clikit.io.input_stream.string_input_stream import StringInputStream
    from clikit.io.output_stream.buffered_output_stream import BufferedOutputStream
    out, err = BufferedOutputStream(), BufferedOutputStream()
    del CALLS[:]
    try:
        st = app.run(ArgvArgs(["prog"] + list(line)), StringInputStream(""), out, err)
    except BaseException as e:  # noqa
        st = "escaped:" + type(e).__name__
    return {"status": st, "out": out.fetch(), "err": err.fetch(), "calls": [list(c) for c in CALLS]}


def _hist(case):
    sp = bool(case.get("shared_parser"))
    app = _new_app(case["tree"], sp)
    reused = [_run(app, l) for l in case["lines"]]
    fresh = [_run(_new_app(case["tree"], sp), l) for l in case["lines"]]
    return {"reused": reused, "fresh": fresh}


# ---- the tie to the stateful composed model (Model/AppState.lean, entry c17.app_hist) -----------------------------
def _walk_cmds(app):
    """(name path, Command) of every enabled command of a real application, parents first"""
    out = []

    def walk(cmd, path):
        path = path + [cmd.name]
        out.append((path, cmd))
        for s in cmd.sub_commands:
            walk(s, path)
    for c in app.commands:
        walk(c, [])
    return out


def _state_of(app):
    """the hidden state the model carries, read off the REAL application: `_lenient_args_parsing` of every command's
    config (None / True / False) and which parser OBJECT is installed where (numbered by identity)"""
    raw, parsers, objs = [], [], []
    for path, cmd in _walk_cmds(app):
        raw.append([path, cmd.config._lenient_args_parsing])
        po = cmd.config._args_parser
        if po is not None:
            k = next((i for i, o in enumerate(objs) if o is po), None)
            if k is None:
                objs.append(po)
                k = len(objs) - 1
            parsers.append([path, k])
    return raw, parsers


def _hist_probed(case):
    """the history once more on ONE application that carries a late PRE_HANDLE listener (it runs after the default
    ones and touches nothing): per run the command and args selected, whether the version listener handled the
    event, and the leniency setting of every command AFTER the run"""
    from clikit.api.event import PRE_HANDLE
    sp = bool(case.get("shared_parser"))
    app = _new_app(case["tree"], sp)
    probe = {}

    def pre_handle(event, name, dispatcher):
        a = event.args
        probe["selected"] = {"path": ac.path_of(event.command),
                             "args_set": sorted([[k, pc.enc(v)] for k, v in a.arguments(False).items()]),
                             "opts_set": sorted([[k, pc.enc(v)] for k, v in a.options(False).items()])}
        probe["handled"] = bool(event.is_handled())
    app.config.add_event_listener(PRE_HANDLE, pre_handle, -10)
    configured = _state_of(app)[0]
    runs = []
    for line in case["lines"]:
        probe.clear()
        r = _run(app, line)
        runs.append({"status": r["status"], "out": r["out"], "calls": r["calls"], "selected": probe.get("selected"),
                     "handled": probe.get("handled"), "len": _state_of(app)[0], "style_set": _style_set_of(app)})
    return {"configured": configured, "runs": runs}


def _hist_tied(case):
    obs = _hist(case)
    obs["tied"] = _hist_probed(case)
    return obs


def _invoked_of(run):
    """the handlers that ran with the arguments they got, from what the handlers themselves recorded (`_H`: CALLS,
    canonical encoding appended to every record; `_Counting`: the line it prints shows its argument and that its
    `seen` list was empty, i.e. the factory made a new handler object for this run)"""
    inv = []
    for c in run["calls"]:
        inv.append({"path": list(c[0]), "args_set": c[-1]["args_set"], "opts_set": c[-1]["opts_set"]})
    sel = run.get("selected")
    if sel is not None and sel["path"] == ["counter"] and not run.get("handled"):
        a = dict((k, pc.dec(v)) for k, v in sel["args_set"]).get("a")
        if run["out"] == "seen so far: %r\n" % ([a],):
            inv.append(sel)
    return inv


def _kind_of(run):
    if run["selected"] is None:
        return "error"                      # PRE_HANDLE was not reached: resolve_command raised
    if run["handled"]:
        return "version"
    if run["selected"]["path"] == ["help"]:
        return "help" if run["status"] == 0 else "error"     # HelpTextHandler returned / raised
    return "ran"


def _hist_view(obs):
    """what the stateful model is compared with: the runs of the REUSED application of `_hist` (status, handler calls)
    and of the probed one (status, handler calls, selection, kind, settings after the run)"""
    t = obs["tied"]
    runs = []
    for r0, r in zip(obs["reused"], t["runs"]):
        runs.append({"status": r0["status"], "status_probed": r["status"],
                     "invoked": [x for x in _invoked_of(dict(r, calls=r0["calls"], out=r0["out"]))],
                     "invoked_probed": _invoked_of(r),
                     "kind": _kind_of(r),
                     "selected": {"ok": r["selected"]} if r["selected"] is not None else "err",
                     # the I/O configuration every recording handler found on entry (reused and probed application)
                     "io_seen": [c[-1]["io"] for c in r0["calls"]], "io_seen_probed": [c[-1]["io"] for c in r["calls"]],
                     # the I/O state found on entry and the probe lines as they reached the streams (Model/RunIO.lean)
                     "io_calls": [{"found": c[-1]["found"], "shown": c[-1]["shown"]} for c in r0["calls"]],
                     "io_calls_probed": [{"found": c[-1]["found"], "shown": c[-1]["shown"]} for c in r["calls"]],
                     # the configuration's style set after the run
                     "style_set": r["style_set"],
                     "len": r["len"], "restored": r["len"] == t["configured"]})
    return {"runs": runs}


def _twice(case):
    import random
    from clikit.io.buffered_io import BufferedIO
    from clikit.ui.components.table import Table
    from clikit.ui.style.table_style import TableStyle
    rng = random.Random(case["seed"])
    diffs = []
    for fac in FACTORIES:
        t = Table(getattr(TableStyle, fac)())
        ncol = rng.randint(1, 4)
        t.set_header_row(["h%d" % i for i in range(ncol)])
        for _ in range(rng.randint(1, 4)):
            t.add_row([" ".join(rng.choice(["a", "bb", "ccc", "dddd"]) for _ in range(rng.randint(1, 12))) for _ in range(ncol)])
        outs = []
        for _ in range(2):
            io = BufferedIO()
            t.render(io)
            outs.append(io.fetch_output())
        if outs[0] != outs[1]:
            diffs.append("table/" + fac)
        # the same on ONE decorated I/O (one formatter object for both renders), with styled cells that contain tags,
        # and a tagged line written before and after: rendering leaves nothing behind in the formatter
        from clikit.api.formatter import Style
        from clikit.formatter import AnsiFormatter
        st = getattr(TableStyle, fac)()
        st.cell_style = Style().fg("green")
        st.header_cell_style = Style().bold()
        t2 = Table(st)
        t2.set_header_row(["h%d" % i for i in range(ncol)])
        t2.add_row(["<b>x%d</b> y" % i for i in range(ncol)])
        io = BufferedIO(formatter=AnsiFormatter(forced=True))
        chunks, pos = [], 0
        for step in ("line", "table", "line", "table", "line"):
            if step == "line":
                io.write_line("plain <info>tagged</info> plain")
            else:
                t2.render(io)
            buf = io.fetch_output()
            chunks.append(buf[pos:])
            pos = len(buf)
        if chunks[1] != chunks[3]:
            diffs.append("styled table rendered twice on one decorated I/O/" + fac)
        if not (chunks[0] == chunks[2] == chunks[4]):
            diffs.append("a tagged line before/after a styled table on one decorated I/O/" + fac)
    # help page twice, and a help page after an unrelated failing run
    tree = ac.gen_tree(rng, max_depth=2, fanout=2, opts_by_depth=OPTS)
    tree["global_flag"] = False
    app = _new_app(tree)
    a = _run(app, ["-h"])
    b = _run(app, ["-h"])
    if a != b:
        diffs.append("application help")
    a = _run(app, ["probe", "-h"])
    _run(app, ["probe", "--count=abc", "1"])
    b = _run(app, ["probe", "-h"])
    if a != b:
        diffs.append("command help")
    a = _run(app, ["probe", "--count=abc", "1"])
    b = _run(app, ["probe", "--count=abc", "1"])
    if a != b:
        diffs.append("error report")
    # an error trace rendered for an output without UTF-8 support, after the same frames were rendered for a
    # UTF-8 output, must equal what a fresh process renders (class-level caches cleared = fresh)
    from clikit.api.io.flags import DEBUG
    from clikit.ui.components.exception_trace import ExceptionTrace
    from harness import c04_handlers as H

    def render(utf8, verbosity):
        # utf8 = (standard output, error output): the two streams of an I/O need not have the same capability
        io = BufferedIO()
        io.set_verbosity(verbosity)
        io.output._supports_utf8 = utf8[0]
        io.error_output._supports_utf8 = utf8[1]
        try:
            H.raise_it({"type": "RuntimeError", "msg": "plain"})
        except RuntimeError as e:
            ExceptionTrace(e).render(io)
        return io.fetch_output() + io.fetch_error()

    kinds = [(True, True), (True, False), (False, True), (False, False)]
    for verbosity in (DEBUG, 1):
        for first in kinds:
            for second in kinds:
                if first == second:
                    continue
                ExceptionTrace._FRAME_SNIPPET_CACHE.clear()
                render(first, verbosity)
                again = render(second, verbosity)
                ExceptionTrace._FRAME_SNIPPET_CACHE.clear()
                if again != render(second, verbosity):
                    diffs.append("error trace for an I/O with UTF-8 support %s after a render for one with %s "
                                 "(verbosity %d)" % (second, first, verbosity))
    return {"diffs": diffs}


# ---- renderings on ONE I/O object (case kind `render`) -------------------------------------------------------------
# how the I/O is constructed.  What matters is which OBJECTS sit behind the two channels:
#   buffered        BufferedIO: two Output objects, one formatter object
#   split           IO(input, Output(s1, f1), Output(s2, f2)): two outputs, two streams, two formatters
#   merged          IO(input, out, out): ONE Output object serves the standard and the error channel
#   stream          two Output objects writing to ONE stream
#   section         the section I/O of a split I/O (IO.section(): two SectionOutput objects)
#   merged_section  IO(input, sec, sec) with one SectionOutput object
IO_KINDS = ["buffered", "split", "merged", "stream", "section", "merged_section"]


class _Stop(Exception):
    pass


def _make_io(spec):
    """the I/O of a `render` case and the distinct stream objects behind it (standard channel first)"""
    from clikit.api.io import IO, Input, Output
    from clikit.formatter import AnsiFormatter, PlainFormatter
    from clikit.io.buffered_io import BufferedIO
    from clikit.io.input_stream.string_input_stream import StringInputStream
    from clikit.io.output_stream.buffered_output_stream import BufferedOutputStream
    from clikit.ui.rectangle import Rectangle

    def fmt():
        return AnsiFormatter(forced=True) if spec["ansi"] else PlainFormatter()
    kind = spec["kind"]
    if kind == "buffered":
        io = BufferedIO(formatter=fmt())
    else:
        s1 = BufferedOutputStream()
        out = Output(s1, fmt())
        if kind in ("merged", "merged_section"):
            err = out
        else:
            err = Output(s1 if kind == "stream" else BufferedOutputStream(), fmt())
        if kind == "merged_section":
            out = err = out.section()
        io = IO(Input(StringInputStream("")), out, err)
        if kind == "section":
            io = io.section()
    io.set_verbosity(spec["verbosity"])
    if spec.get("width"):
        io.set_terminal_dimensions(Rectangle(spec["width"], 20))
    # the indentation the outputs have from the beginning (set outside any `with`: it stays)
    base = spec.get("base") or [0, 0]
    if base[0]:
        io.output.indent(base[0])
    if io.error_output is not io.output and base[1]:
        io.error_output.indent(base[1])
    streams = [io.output.stream]
    if io.error_output.stream is not io.output.stream:
        streams.append(io.error_output.stream)
    return io, streams


def _drain(streams):
    texts = []
    for st in streams:
        texts.append(st.fetch())
        st.clear()
    return texts


def _indents(io):
    return [io.output._indent, io.error_output._indent]


class _Lines(object):
    """a user component: one line on each channel"""

    def __init__(self, text):
        self.text = text

    def render(self, io, indentation=0):
        io.write_line(" " * indentation + self.text)
        io.error_line(" " * indentation + "<error>" + self.text + "</error>")


class _Block(object):
    """a user component that indents the I/O while it renders (as ExceptionTrace does): a heading, then an indented
    body on both channels, through `io.indent` / `io.increment_indent` or through the scopes of the single outputs"""

    def __init__(self, d):
        self.d = d

    def render(self, io, indentation=0):
        from clikit.ui.components.paragraph import Paragraph
        d = self.d
        io.write_line("<b>" + d["text"] + "</b>")
        tgt = {"io": io, "out": io.output, "err": io.error_output}[d["t"]]
        with (tgt.increment_indent(d["n"]) if d["inc"] else tgt.indent(d["n"])):
            Paragraph("body of " + d["text"]).render(io)
            io.error_line("note on " + d["text"])
            if d.get("nested"):
                with io.increment_indent(1):
                    io.write_line("deeper")
        io.write_line("end of " + d["text"])


class _Rendered(object):
    def __init__(self, fn):
        self.render = fn


def _render_ctx():
    """what the components of a case are built from: an application (help pages, name and version) and raised
    exceptions (traces); built once per case, the SAME objects for the history and for the fresh references"""
    from harness import c17_raise
    app = _new_app({"commands": [], "global_flag": False})
    excs = [c17_raise.caught(depth, msg) for depth, msg in ((0, "plain failure"), (2, "nested <b>failure</b>\nsecond line"))]
    return {"app": app, "excs": excs}


def _make_comp(d, ctx):
    from clikit.ui.components.empty_line import EmptyLine
    from clikit.ui.components.exception_trace import ExceptionTrace
    from clikit.ui.components.labeled_paragraph import LabeledParagraph
    from clikit.ui.components.name_version import NameVersion
    from clikit.ui.components.paragraph import Paragraph
    from clikit.ui.components.table import Table
    from clikit.ui.help.application_help import ApplicationHelp
    from clikit.ui.help.command_help import CommandHelp
    from clikit.ui.style.table_style import TableStyle
    c = d["c"]
    ind = d.get("ind", 0)
    if c == "table":
        t = Table(getattr(TableStyle, FACTORIES[d["style"]])())
        if d.get("header"):
            t.set_header_row(list(d["header"]))
        for r in d["rows"]:
            t.add_row(list(r))
        return _Rendered(lambda io: t.render(io, ind))
    if c == "para":
        x = Paragraph(d["text"])
        return _Rendered(lambda io: x.render(io, ind))
    if c == "labeled":
        x = LabeledParagraph(d["label"], d["text"])
        return _Rendered(lambda io: x.render(io, ind))
    if c == "empty":
        x = EmptyLine()
        return _Rendered(lambda io: x.render(io, ind))
    if c == "nv":
        x = NameVersion(ctx["app"].config)
        return _Rendered(lambda io: x.render(io, ind))
    if c == "help":
        x = ApplicationHelp(ctx["app"]) if not d.get("cmd") else CommandHelp(ctx["app"].get_command(d["cmd"]))
        return _Rendered(lambda io: x.render(io, ind))
    if c == "trace":
        x = ExceptionTrace(ctx["excs"][d["e"]])
        simple = bool(d.get("simple"))
        return _Rendered(lambda io: x.render(io, simple))
    if c == "lines":
        x = _Lines(d["text"])
        return _Rendered(lambda io: x.render(io, ind))
    if c == "block":
        x = _Block(d)
        return _Rendered(lambda io: x.render(io, ind))
    raise AssertionError(c)


def _scope_of(io, st):
    tgt = {"io": io, "out": io.output, "err": io.error_output}[st["scope"]]
    return tgt.increment_indent(st["n"]) if st["inc"] else tgt.indent(st["n"])


def _render_one(io, streams, comp):
    try:
        comp.render(io)
        err = None
    except _Stop:
        raise
    except Exception as e:  # noqa
        err = type(e).__name__
    return _drain(streams), err


def _fresh_render(case, ctx, chain, k, memo):
    """component `k` (a NEW component object made from the same description) as the first thing rendered on a
    fresh I/O of the same construction, inside the scopes `chain` only"""
    import contextlib
    import json
    key = json.dumps([chain, k])
    if key not in memo:
        io, streams = _make_io(case["io"])
        comp = _make_comp(case["comps"][k], ctx) if k >= 0 else _Lines("the end")
        with contextlib.ExitStack() as es:
            for st in chain:
                es.enter_context(_scope_of(io, st))
            memo[key] = _render_one(io, streams, comp)
    return memo[key]


def _exec_steps(case, ctx, steps, io, streams, comps, chain, log, memo):
    for st in steps:
        if "render" in st:
            k = st["render"]
            before = _indents(io)
            text, err = _render_one(io, streams, comps[k])
            fresh, ferr = _fresh_render(case, ctx, chain, k, memo)
            log.append({"c": k, "ind": before + _indents(io), "text": text, "raised": err, "fresh": fresh,
                        "fresh_raised": ferr, "depth": len(chain)})
        elif "scope" in st:
            with _scope_of(io, st):
                _exec_steps(case, ctx, st["body"], io, streams, comps,
                            chain + [{"scope": st["scope"], "inc": st["inc"], "n": st["n"]}], log, memo)
        elif "try" in st:
            try:
                _exec_steps(case, ctx, st["try"], io, streams, comps, chain, log, memo)
            except _Stop:
                pass
        elif "raise" in st:
            raise _Stop()
        else:
            raise AssertionError(st)


def _render_hist(case):
    ctx = _render_ctx()
    io, streams = _make_io(case["io"])
    comps = [_make_comp(d, ctx) for d in case["comps"]]
    log, memo = [], {}
    raised = False
    _drain(streams)
    try:
        _exec_steps(case, ctx, case["steps"], io, streams, comps, [], log, memo)
    except _Stop:
        raised = True
    end_ind = _indents(io)
    # whatever happened: a line on each channel now looks as on a fresh I/O
    end, _ = _render_one(io, streams, _Lines("the end"))
    end_fresh, _ = _fresh_render(case, ctx, [], -1, memo)
    return {"shared": io.output is io.error_output, "renders": log, "indent": end_ind, "raised": raised,
            "end": end, "end_fresh": end_fresh}


def _model_steps(steps):
    out = []
    for st in steps:
        if "scope" in st:
            out.append({"scope": st["scope"], "inc": st["inc"], "n": st["n"], "body": _model_steps(st["body"])})
        elif "try" in st:
            out.append({"try": _model_steps(st["try"])})
        else:
            out.append(st)
    return out


def _render_requests(case):
    # which Output OBJECTS sit behind the two channels is read off the real I/O, by identity
    io, _ = _make_io(case["io"])
    shared = io.output is io.error_output
    return [{"m": "c17.render_hist", "out": 0, "err": 0 if shared else 1, "base": _indents(io) if not shared
             else [io.output._indent, 0], "steps": _model_steps(case["steps"])}]


def run_impl(case):
    return {"proto": _proto, "styles": _styles, "hist": _hist_tied, "twice": _twice,
            "render": _render_hist}[case["k"]](case)


# ---- model side ------------------------------------------------------------------------------------
def model_requests(case):
    if case["k"] == "proto":
        return [{"m": "c17.help_protocol", "cur": case["cur"], "inner_ok": case["inner_ok"]}]
    if case["k"] == "styles":
        ops, made = [], 0
        for op in case["ops"]:
            if "make" in op:
                ops.append({"make": op["make"]})
                made += 1
            else:
                j, f, v = op["custom"]
                ops.append({"custom": [3 + j, f, v]})     # the j-th created style owns heap object 3 + j (checked: "wf")
        return [{"m": "c17.styles", "ops": ops}, {"m": "c17.styles_wf", "ops": ops}]
    if case["k"] == "hist":
        return _hist_requests(case)
    if case["k"] == "render":
        return _render_requests(case)
    return []


def _hist_requests(case):
    # the stateful composed model gets the command tree, the configured leniency settings and the installed parser
    # objects from the REAL application (as c09.app_run gets the tree)
    app = _new_app(case["tree"], bool(case.get("shared_parser")))
    nodes = ac.extract_app(app)
    raw, parsers = _state_of(app)
    ints, floats = pc.conv_tables(ac.all_texts(nodes, [t for l in case["lines"] for t in l]))
    # the I/O side (Model/RunIO.lean): the styles pastel registers itself and the configuration's style set read off
    # the REAL objects, the streams `_run` hands to run() (buffered: no ANSI support), the `tweak` handler's table
    import pastel
    io = {"pastel": [[t, _look(ps)] for t, ps in pastel.Pastel()._styles.items()], "style_set": _style_set_of(app),
          "streams": [False, False], "tweaks": _tweak_ops(), "tweak_path": ["tweak"],
          "probe": [{"op": "write", "on": c, "tag": t, "need": n} for c, t, n in PROBES]}
    return [{"m": "c17.app_hist", "commands": nodes, "lines": case["lines"], "ints": ints, "floats": floats,
             "raw": raw, "parsers": parsers, "io": io}]


def _sel(o):
    return {"path": o["path"], "args_set": sorted(o["args_set"]), "opts_set": sorted(o["opts_set"])}


def _run_io(io):
    return {"forced": io["ansi"] == "forced", "verbosity": io["verbosity"], "quiet": io["quiet"],
            "interactive": io["interactive"]}


def _hist_model_view(answer):
    runs = []
    for r in answer:
        inv = [_sel(x) for x in r["invoked"]]
        runs.append({"status": r["status"], "status_probed": r["status"], "invoked": inv, "invoked_probed": inv,
                     "kind": r["what"]["kind"],
                     "selected": {"ok": _sel(r["selected"]["ok"])} if "ok" in r["selected"] else "err",
                     # create_io of THIS line, for every invoked handler that records (`counter` does not)
                     "io_seen": [_run_io(r["io"]) for x in inv if x["path"] != ["counter"]],
                     "io_seen_probed": [_run_io(r["io"]) for x in inv if x["path"] != ["counter"]],
                     "io_calls": [c for x, c in zip(inv, r["io_calls"]) if x["path"] != ["counter"]],
                     "io_calls_probed": [c for x, c in zip(inv, r["io_calls"]) if x["path"] != ["counter"]],
                     "style_set": r["style_set"],
                     "len": r["len"], "restored": r["restored"]})
    return {"runs": runs}


def model_obs(case, answers):
    if case["k"] == "proto":
        return {"after": answers[0]}
    if case["k"] == "styles":
        made = len([op for op in case["ops"] if "make" in op])
        return {"borders": answers[0][3:3 + made], "wf": answers[1]}
    if case["k"] == "hist":
        return _hist_model_view(answers[0])
    if case["k"] == "render":
        # a rendering leaves the indentation as it found it (the scopes a component opens are closed again)
        a = answers[0]
        return {"seen": [[c, o, e, o, e] for c, o, e in a["seen"]], "indent": a["indent"], "raised": a["raised"]}
    return {}


def impl_view(case, obs):
    if case["k"] == "proto":
        return {"after": obs["after"]}
    if case["k"] == "styles":
        # "wf": what Props.C17.style_noninterference takes about the real factories - they copy, hence the border
        # object of the j-th created style is a fresh one, heap object 3 + j (refs_fresh_source).  Both are read off
        # the REAL objects by identity (fresh objects only <=> every factory that was called copied) and compared
        # with the model's answers (copiesB of the regenerated table, refsOf)
        made = len(obs["borders"])
        return {"borders": obs["borders"],
                "wf": {"copies": obs["refs"] == list(range(3, 3 + made)), "refs": obs["refs"]}}
    if case["k"] == "hist":
        return _hist_view(obs)
    if case["k"] == "render":
        # `_indent` of the two outputs before and after every rendering, and at the end
        return {"seen": [[r["c"]] + r["ind"] for r in obs["renders"]], "indent": obs["indent"], "raised": obs["raised"]}
    return {}


# ---- the statement ---------------------------------------------------------------------------------
def oracle(case, obs):
    k = case["k"]
    if k == "proto":
        if obs["after"] != case["cur"]:
            return "help resolution left lenient parsing at %r, it was %r before" % (obs["after"], case["cur"])
        return None
    if k == "styles":
        # every created style must look like a freshly created one with only ITS OWN customisations
        from clikit.ui.style.table_style import TableStyle  # noqa
        made = []
        for op in case["ops"]:
            if "make" in op:
                made.append([op["make"], {}])
            else:
                j, f, v = op["custom"]
                made[j][1][f] = v
        fresh = _fresh_borders()
        for idx, (fac, custom) in enumerate(made):
            want = list(fresh[fac])
            for f, v in custom.items():
                want[f] = v
            if obs["borders"][idx] != want:
                return "style #%d (%s) has border %r, created alone it has %r" % (idx, FACTORIES[fac], obs["borders"][idx], want)
        return None
    if k == "hist":
        for i, (r, f) in enumerate(zip(obs["reused"], obs["fresh"])):
            if r != f:
                return "run %d (%r) on the re-used application: %s; on a fresh application: %s" % (
                    i, case["lines"][i], str(r)[:300], str(f)[:300])
        return None
    if k == "render":
        # every rendering gives what the component gives as the FIRST thing rendered on a fresh I/O of the same
        # construction, inside the same enclosing scopes - whatever was rendered or scoped before
        where = "an I/O (%s%s)" % (case["io"]["kind"], ", one Output object for both channels" if obs["shared"] else "")
        for i, r in enumerate(obs["renders"]):
            if r["text"] != r["fresh"] or r["raised"] != r["fresh_raised"]:
                return ("rendering #%d on %s: component %d (%s)%s gives %r%s; as the first thing rendered on a fresh I/O of the "
                        "same construction it gives %r%s" % (
                            i, where, r["c"], case["comps"][r["c"]]["c"],
                            " inside %d indentation scope(s)" % r["depth"] if r["depth"] else "",
                            [t[:200] for t in r["text"]], " raising " + r["raised"] if r["raised"] else "",
                            [t[:200] for t in r["fresh"]], " raising " + r["fresh_raised"] if r["fresh_raised"] else ""))
        if obs["end"] != obs["end_fresh"]:
            return "after the history on %s a line on each channel is written as %r, on a fresh I/O as %r" % (
                where, obs["end"], obs["end_fresh"])
        return None
    if obs["diffs"]:
        return "rendered differently the second time: %s" % ", ".join(obs["diffs"])
    return None


_FRESH = None


def _fresh_borders():
    """borders of the four predefined styles as the FIRST thing constructed in a pristine interpreter"""
    global _FRESH
    if _FRESH is None:
        import json
        import subprocess
        import sys
        code = ("import json;from clikit.ui.style.table_style import TableStyle;F=%r;out=[]\n"
                "import subprocess,sys\n" % (FIELDS,))
        res = []
        for fac in FACTORIES:
            p = subprocess.run([sys.executable, "-c",
                                "import json;from clikit.ui.style.table_style import TableStyle;"
                                "s=TableStyle.%s();print(json.dumps([getattr(s.border_style,f) for f in %r]))" % (fac, FIELDS)],
                               stdout=subprocess.PIPE, universal_newlines=True, timeout=60)
            res.append(json.loads(p.stdout))
        _FRESH = res
    return _FRESH


def nontrivial_key(case, obs):
    import json
    if case["k"] == "styles" and len(case["ops"]) >= 2 or case["k"] == "hist":
        return json.dumps(case, sort_keys=True)
    if case["k"] == "render" and len(obs["renders"]) >= 2:
        return json.dumps(case, sort_keys=True)
    return None


def bucket(case, obs):
    if case["k"] == "hist":
        tw = any(l and l[0] == "tweak" for l in case["lines"])
        return "hist|len=%d%s" % (len(case["lines"]), "|handler changes its I/O" if tw else "")
    if case["k"] == "styles":
        return "styles|len=%d" % len(case["ops"])
    if case["k"] == "render":
        used = set(r["c"] for r in obs["renders"])
        ind = any(case["comps"][c]["c"] in ("trace", "block") and not case["comps"][c].get("simple") for c in used)
        return "render|io=%s%s%s" % (case["io"]["kind"], "|a component indents the I/O" if ind else "",
                                     "|scopes" if any("render" not in st for st in case["steps"]) else "")
    return case["k"]


def shrink(case):
    if case["k"] == "hist":
        l = case["lines"]
        for i in range(len(l)):
            if len(l) > 1:
                yield {"k": "hist", "tree": case["tree"], "lines": l[:i] + l[i + 1:], "shared_parser": case.get("shared_parser")}
        yield {"k": "hist", "tree": {"commands": [], "global_flag": False}, "lines": l, "shared_parser": case.get("shared_parser")}
    if case["k"] == "render":
        st = case["steps"]
        for i in range(len(st)):
            if len(st) > 1:
                yield dict(case, steps=st[:i] + st[i + 1:])
            inner = st[i].get("body", st[i].get("try"))
            if inner is not None:
                yield dict(case, steps=st[:i] + list(inner) + st[i + 1:])
        io = case["io"]
        for key, plain in (("ansi", False), ("verbosity", 0), ("width", None), ("base", [0, 0])):
            if io.get(key) != plain:
                yield dict(case, io=dict(io, **{key: plain}))
    if case["k"] == "styles":
        o = case["ops"]
        for i in range(len(o)):
            cand = o[:i] + o[i + 1:]
            made, ok = 0, True
            for op in cand:
                if "make" in op:
                    made += 1
                elif op["custom"][0] >= made:
                    ok = False
            if ok and cand:
                yield {"k": "styles", "ops": cand}
