"""
C10 - quiet and verbosity gate every write path identically.

Correspondence: EXHAUSTIVE table  (every public writing entry point found by reflection on
IO / Output / SectionOutput and the I/O kinds of clikit.io) x verbosity x flags (None, 0..7)
x quiet x ANSI/plain; observable = did bytes reach the stream.  Model = the Lean translation
of `Output._may_write` (regenerated from the source on every run).

The I/O facade additionally on I/Os whose two outputs carry DIFFERENT settings (SPLIT_KINDS): each of the eight
entry points is gated by the output it writes to and leaves the other stream alone (model: Gate.facadeWrite).
"""
import inspect
import itertools

ID = "C10"
DESIGN_REF = "6/C10"
TECHNIQUE = ("Lean 4 proof about the gate translated from Output._may_write on every run (py2lean) + "
             "exhaustive correspondence table over all reflected writing entry points")
LEVEL_TEXT = ("The gate function is translated from the current source into Lean on every run and the theorems "
              "(mayWrite_iff for ALL flag words and verbosity values, monotonicity in verbosity and quiet) are re-checked "
              "by the kernel against that translation; that every public writing entry point of IO/Output/SectionOutput "
              "goes through this gate is established by an exhaustive table (entry point x kind x verbosity x flags x "
              "quiet x ANSI/plain, the I/O facade also with its two outputs configured differently: "
              "facade_gated_by_own_output) compared with the model and with the property statement; the Lean reading of "
              "'lowest requested level' (Gate.lowest) and the declarative statement (Gate.shouldWrite) are compared with "
              "the oracle's own on every case.")
LEVEL_NOTE = ("Trusted: Lean kernel + propext/Quot.sound/Classical.choice, the py2lean translator, the reflection "
              "harness. Not proved: that each entry point calls the gate (exhaustively tested instead).")
LEAN_MODULES = ["Clikit.Props.C10"]
REQUIRED_THEOREMS = ["Clikit.Props.C10.mayWrite_iff", "Clikit.Props.C10.mayWrite_mono_verbosity",
                     "Clikit.Props.C10.mayWrite_unquiet_mono", "Clikit.Props.C10.raising_never_removes",
                     "Clikit.Props.C10.lowest_is_least", "Clikit.Props.C10.quiet_writes_nothing",
                     "Clikit.Props.C10.mayWrite_eq_shouldWrite", "Clikit.Props.C10.facade_gated_by_own_output",
                     "Clikit.Props.C10.facade_other_irrelevant", "Clikit.Props.C10.facade_entry_points"]
RULE = ("exhaustive product: writing entry points found by reflection (public methods of IO, Output, "
        "SectionOutput whose name starts with write/error/overwrite) x object kind x verbosity {0,1,2,4} x "
        "flags {None,0..7} x quiet x ANSI/plain; the eight entry points of the I/O facade also on I/Os whose TWO "
        "OUTPUTS ARE CONFIGURED DIFFERENTLY (through io.output / io.error_output, pre-configured Output objects "
        "handed to IO(...) / ConsoleIO(...), the outputs of a section I/O, facade setters followed by a setter of one "
        "output) x settings of the other output (thorough: all 8; quick: other quiet flag, verbosity at the other end, "
        "both; the last three kinds: both); a case is non-trivial when the flags request a level or quiet is on (on either output); distinct = "
        "distinct (entry point, kind, verbosity, flags, quiet, ansi, settings of the other output)")
TRUSTED_BASE = [
    "Lean 4.33 kernel; axioms propext, Classical.choice, Quot.sound only (audited per theorem on every run)",
    "tools/py2lean.py + tools/gen_lean.py: statement-by-statement translation of Output._may_write and the IOFlags constants",
    "harness/props/c10.py: reflection over the writing entry points, BufferedIO streams",
    "the payload of a write (formatting, indentation) is C11's subject; here only whether bytes reach the stream",
]
ASSUMPTIONS = [
    "every writing entry point funnels through Output._may_write: checked exhaustively by the correspondence table, not proved",
    "the I/O facade (Gate.facadeWrite: write* -> standard output, error* -> error output, each gated by the settings of "
    "THAT output only) is a hand-written model compared with IO / BufferedIO / ConsoleIO on every combination of "
    "differently configured outputs; an entry point must leave the stream of the other output untouched",
    "the statement is read per output object, against the quiet/verbosity THAT object reports (is_quiet(), verbosity): "
    "a section taken from an output whose settings were changed before or after is gated by what the section reports",
]
PARALLEL = False
BATCH = 100000

VERBOSITIES = [0, 1, 2, 4]
FLAGS = [None, 0, 1, 2, 3, 4, 5, 6, 7]


def _entry_points():
    from clikit.api.io.io import IO
    from clikit.api.io.output import Output
    from clikit.api.io.section_output import SectionOutput
    eps = []
    # "section2": the written section is the NEWER of two sections of one output and an OLDER one is written
    # to afterwards (a redraw re-emits recorded content: gated text must not have been recorded)
    # "section_hist": the section already shows a line written while it was neither quiet nor gated; the settings
    # change afterwards (what a later write, overwrite or clear sends - text or cursor codes - is gated the same)
    # "section_of" / "section_after": quiet and verbosity are set on the OUTPUT the section is taken from, before /
    # after the section is created, and never on the section: the gate follows what the section itself reports
    # SPLIT_KINDS: ONE I/O whose two outputs are configured DIFFERENTLY (each output has its own quiet flag and
    # verbosity; `quiet`/`verbosity` of the case belong to the output the entry point writes to, `other_quiet`/
    # `other_verbosity` to the other one): through the public accessors (io.output / io.error_output), by handing
    # pre-configured Output objects to IO(...) / ConsoleIO(...), on the outputs of a section I/O, and by first
    # setting both through the facade and then one output individually
    for cls, kinds in ((IO, ["io", "io_section"] + SPLIT_KINDS), (Output, ["output", "error_output"]), (SectionOutput, ["section", "section2", "section_of", "section_after", "section_hist"])):
        for name, fn in inspect.getmembers(cls, predicate=inspect.isfunction):
            if name.startswith("_"):
                continue
            if name == "clear" and cls is SectionOutput:
                # not a text-writing method, but it writes (cursor codes) once the section has content
                eps.append(("section_hist", "clear", False))
                continue
            if not (name.startswith("write") or name.startswith("error") or name.startswith("overwrite")):
                continue
            params = list(inspect.signature(fn).parameters)
            for k in kinds:
                eps.append((k, name, "flags" in params))
    return sorted(set(eps))


SPLIT_KINDS = ["io_split", "io_ctor", "console_ctor", "io_section_split", "io_resplit"]


def _others(tier, kind, quiet, v):
    """settings of the OTHER output of a split I/O: everything in the thorough tier; in the quick tier the three
    ways of differing from the written output (quiet flag, verbosity at the opposite end, both) for the accessor
    and constructor kinds, 'both' for the rest"""
    if tier != "quick":
        return [(oq, ov) for oq in (False, True) for ov in VERBOSITIES]
    far = 4 if v < 2 else 0
    if kind not in ("io_split", "io_ctor"):
        return [(not quiet, far)]
    return [(not quiet, v), (quiet, far), (not quiet, far)]


def generate(tier, rng):
    for (kind, name, has_flags) in _entry_points():
        for ansi in (False, True):
            for quiet in (False, True):
                for v in VERBOSITIES:
                    for f in (FLAGS if has_flags else [None]):
                        if name == "clear" and not ansi:
                            continue        # without ANSI support clear() has nothing to send
                        if kind in SPLIT_KINDS:
                            for (oq, ov) in _others(tier, kind, quiet, v):
                                yield {"kind": kind, "method": name, "ansi": ansi, "quiet": quiet, "verbosity": v,
                                       "flags": f, "has_flags": has_flags, "other_quiet": oq, "other_verbosity": ov}
                            continue
                        yield {"kind": kind, "method": name, "ansi": ansi, "quiet": quiet,
                               "verbosity": v, "flags": f, "has_flags": has_flags}
                        if "line" in name and kind != "section2":
                            # an EMPTY message written as a line is a line break: gated like any other text
                            yield {"kind": kind, "method": name, "ansi": ansi, "quiet": quiet,
                                   "verbosity": v, "flags": f, "has_flags": has_flags, "text": ""}


def exhaustive(tier):
    return True


def _make(case):
    from clikit.io.buffered_io import BufferedIO
    from clikit.formatter import AnsiFormatter, PlainFormatter
    fmt = AnsiFormatter(forced=True) if case["ansi"] else PlainFormatter()
    io = BufferedIO(formatter=fmt)
    return io


def _fmt(case):
    from clikit.formatter import AnsiFormatter, PlainFormatter
    return AnsiFormatter(forced=True) if case["ansi"] else PlainFormatter()


def _split(case):
    """an I/O whose two outputs carry different settings -> (io, written output, other output, fetch written,
    fetch other)"""
    from clikit.api.io import IO, Input, Output
    from clikit.io.buffered_io import BufferedIO
    from clikit.io.console_io import ConsoleIO
    from clikit.io.input_stream import StringInputStream
    from clikit.io.output_stream import BufferedOutputStream
    kind = case["kind"]
    err = case["method"].startswith("error")
    mine = (case["quiet"], case["verbosity"])
    other = (case["other_quiet"], case["other_verbosity"])
    std_cfg, err_cfg = (other, mine) if err else (mine, other)

    def conf(out, cfg):
        out.set_quiet(cfg[0])
        out.set_verbosity(cfg[1])

    if kind in ("io_ctor", "console_ctor"):
        so, eo = BufferedOutputStream(), BufferedOutputStream()
        std = Output(so, _fmt(case))
        erro = Output(eo, _fmt(case))
        conf(std, std_cfg)
        conf(erro, err_cfg)
        cls = IO if kind == "io_ctor" else ConsoleIO
        io = cls(Input(StringInputStream("")), std, erro)
        fo, fe = so.fetch, eo.fetch
    else:
        base = _make(case)
        io = base.section() if kind == "io_section_split" else base
        if kind == "io_resplit":
            # both outputs through the facade first, then the written one on its own
            io.set_quiet(other[0])
            io.set_verbosity(other[1])
            conf(io.error_output if err else io.output, mine)
        else:
            conf(io.output, std_cfg)
            conf(io.error_output, err_cfg)
        fo, fe = base.fetch_output, base.fetch_error
    if err:
        return io, io.error_output, io.output, fe, fo
    return io, io.output, io.error_output, fo, fe


def _target(case):
    """the object written to, with the case's settings applied the way its kind says"""
    kind = case["kind"]
    if kind in SPLIT_KINDS:
        io, written, _other, fetch, _fo = _split(case)
        return io, io, None, fetch
    io = _make(case)
    older = None
    if kind == "io":
        target = io
        io.set_quiet(case["quiet"])
        io.set_verbosity(case["verbosity"])
        err = case["method"].startswith("error")
        fetch = io.fetch_error if err else io.fetch_output
    elif kind == "io_section":
        # BufferedIO.section() builds the section I/O and assigns its outputs afterwards
        target = io.section()
        target.set_quiet(case["quiet"])
        target.set_verbosity(case["verbosity"])
        err = case["method"].startswith("error")
        fetch = io.fetch_error if err else io.fetch_output
    elif kind in ("output", "error_output"):
        target = io.output if kind == "output" else io.error_output
        target.set_quiet(case["quiet"])
        target.set_verbosity(case["verbosity"])
        fetch = io.fetch_output if kind == "output" else io.fetch_error
    elif kind == "section_of":
        io.output.set_quiet(case["quiet"])
        io.output.set_verbosity(case["verbosity"])
        target = io.output.section()
        fetch = io.fetch_output
    elif kind == "section_hist":
        target = io.output.section()
        target.write_line("before")
        target.set_quiet(case["quiet"])
        target.set_verbosity(case["verbosity"])
        fetch = io.fetch_output
    elif kind == "section_after":
        target = io.output.section()
        io.output.set_quiet(case["quiet"])
        io.output.set_verbosity(case["verbosity"])
        fetch = io.fetch_output
    else:
        older = io.output.section() if kind == "section2" else None
        target = io.output.section()
        target.set_quiet(case["quiet"])
        target.set_verbosity(case["verbosity"])
        fetch = io.fetch_output
    return io, target, older, fetch


def _reported(target):
    """the settings the object itself reports: the statement is about these"""
    return [bool(target.is_quiet()), int(target.verbosity)]


def _run_split(case):
    io, written, other, fetch, fetch_other = _split(case)
    base, base_o = len(fetch()), len(fetch_other())
    getattr(io, case["method"])("payload", flags=case["flags"])
    out, out_o = fetch()[base:], fetch_other()[base_o:]
    return {"wrote": bool(out), "contains_payload": "payload" in out, "reported": _reported(written),
            "other_wrote": bool(out_o), "other_reported": _reported(other)}


def run_impl(case):
    if case["kind"] in SPLIT_KINDS:
        return _run_split(case)
    io, target, older, fetch = _target(case)
    kind = case["kind"]
    fn = getattr(target, case["method"])
    base = len(fetch())        # fetch() does not empty the buffer: what the set-up wrote is not counted
    if case["method"] == "clear":
        fn()
    elif case["has_flags"]:
        fn(case.get("text", "payload"), flags=case["flags"])
    else:
        fn(case.get("text", "payload"))
    out = fetch()[base:]
    rep = _reported(target)
    if kind == "section2":
        # anything that reaches the stream later counts as well
        older.write_line("later")
        out = fetch()[base:]
        return {"wrote": "payload" in out, "contains_payload": "payload" in out, "reported": rep}
    return {"wrote": bool(out), "contains_payload": "payload" in out or "text" in case, "reported": rep}


def model_requests(case):
    if case["kind"] in SPLIT_KINDS:
        _io, written, other, _f, _fo = _split(case)
        (q, v), (oq, ov) = _reported(written), _reported(other)
        err = case["method"].startswith("error")
        std, erro = ((oq, ov), (q, v)) if err else ((q, v), (oq, ov))
        return [{"m": "c10.gate", "quiet": q, "verbosity": v, "flags": case["flags"]},
                {"m": "c10.facade", "method": case["method"], "flags": case["flags"],
                 "std": {"quiet": std[0], "verbosity": std[1]}, "err": {"quiet": erro[0], "verbosity": erro[1]}}]
    q, v = _reported(_target(case)[1])
    return [{"m": "c10.gate", "quiet": q, "verbosity": v, "flags": case["flags"]}]


def model_obs(case, answers):
    # "lowest": the Lean reading of "the lowest level requested by the flags" (Gate.lowest, the right-hand side of
    # mayWrite_iff); "should": the declarative statement (Gate.shouldWrite, proved equal to the translated gate)
    m = {"wrote": answers[0]["may_write"], "should": answers[0]["should_write"], "lowest": answers[0]["lowest"]}
    if case["kind"] in SPLIT_KINDS:
        # the facade model (Gate.facadeWrite): which of the two streams of the I/O receives the text
        err = case["method"].startswith("error")
        m["facade"] = {"written": answers[1]["err" if err else "std"], "other": answers[1]["std" if err else "err"]}
    return m


def impl_view(case, obs):
    # the implementation's behaviour must match the translated gate AND the declarative statement; the oracle's own
    # reading of "lowest requested level" must be the one the theorems use
    v = {"wrote": obs["wrote"], "should": obs["wrote"], "lowest": _lowest(case["flags"])}
    if case["kind"] in SPLIT_KINDS:
        v["facade"] = {"written": obs["wrote"], "other": obs["other_wrote"]}
    return v


def _lowest(flags):
    f = flags or 0
    for lvl in (1, 2, 4):
        if f & lvl:
            return lvl
    return 0


def oracle(case, obs):
    """the statement itself: text reaches the stream iff not quiet and verbosity >= lowest requested level"""
    quiet, verbosity = obs["reported"]
    if case["kind"] not in ("section_of", "section_after") and [quiet, verbosity] != [case["quiet"], case["verbosity"]]:
        return "%s reports quiet=%s verbosity=%s after set_quiet(%s), set_verbosity(%s)" % (
            case["kind"], quiet, verbosity, case["quiet"], case["verbosity"])
    if case["kind"] in SPLIT_KINDS:
        # each output of the I/O keeps the settings given to IT, and an entry point of the facade touches only the
        # stream of the output it writes to
        if obs["other_reported"] != [case["other_quiet"], case["other_verbosity"]]:
            return "%s: the other output reports quiet=%s verbosity=%s after being given quiet=%s verbosity=%s" % (
                case["kind"], obs["other_reported"][0], obs["other_reported"][1], case["other_quiet"],
                case["other_verbosity"])
        if obs["other_wrote"]:
            return "%s.%s wrote to the stream of the other output" % (case["kind"], case["method"])
    want = (not quiet) and verbosity >= _lowest(case["flags"])
    if obs["wrote"] != want:
        return "%s.%s(flags=%r) on an object reporting quiet=%s verbosity=%s: wrote=%s, required=%s" % (
            case["kind"], case["method"], case["flags"], quiet, verbosity, obs["wrote"], want)
    if obs["wrote"] and not obs["contains_payload"] and case["method"] != "clear":
        return "bytes were written but not the text"
    return None


def nontrivial_key(case, obs):
    if case["quiet"] or _lowest(case["flags"]) > 0 or case.get("other_quiet"):
        return (case["kind"], case["method"], case["ansi"], case["quiet"], case["verbosity"], case["flags"],
                case.get("text", "payload"), case.get("other_quiet"), case.get("other_verbosity"))
    return None


def bucket(case, obs):
    return "%s.%s:%s" % (case["kind"], case["method"], "wrote" if obs["wrote"] else "gated")


def neighbours(case):
    for v in VERBOSITIES:
        for f in FLAGS:
            c = dict(case)
            c["verbosity"], c["flags"] = v, (f if case["has_flags"] else None)
            yield c
    if case["kind"] in SPLIT_KINDS:
        for oq in (False, True):
            for ov in VERBOSITIES:
                c = dict(case)
                c["other_quiet"], c["other_verbosity"] = oq, ov
                yield c
