"""
C08 - splitting a command string never fails and inverts shell-style quoting.

Streams (all compared with the Lean model `Clikit.Tokenizer`, all judged by `oracle`):

  s  EXHAUSTIVE: every string up to length 5 (quick) / 7 (thorough) over {a, space, tab, ', ", \\, -}.
     impl = StringArgs(s).tokens / option_tokens or the exception class.  Strings up to length 5 are
     also used *as a token*: quoted in single and in double quotes and tokenised again.  Plus seeded
     random strings (length 0-12) over the wide alphabet of stream q.
  q  generated token lists (0-4 tokens of 0-5 characters over letters, ASCII and non-ASCII whitespace,
     both quotes, backslash, '-', '=', non-ASCII letters, an astral character) written down with a random
     style per token (single/double/bare) and random whitespace separators (incl. tab, newline, NBSP,
     U+3000), optional leading/trailing whitespace.  A negative sub-stream breaks one hypothesis of the
     round trip (inexpressible token, bare token that needs quoting, empty separator): there the oracle
     demands totality only.
  a  the same rendering over a command-line vocabulary, and then StringArgs(string) against
     ArgvArgs([script] + tokens): tokens, option_tokens, the real DefaultArgsParser on a fixed format
     (strict and lenient), the real resolver and `create_io` of a small application.
  h  HISTORIES on one parser object: 2-4 command lines over the same vocabulary (earlier lines often contain `--`),
     each given as a command string AND as the equivalent argv list, one right after the other, to ONE
     DefaultArgsParser - used directly on the fixed format (strict or lenient per line), or installed with
     Config.set_args_parser on every command config of a fresh application and reached through resolve_command.
     The direct form is compared with the composed model (`Lines.lineHistory`: tokenizer model + parser model on one
     object, entry c08.line_history); the oracle demands string form = argv form, that only tokens before the line's
     first `--` are reported as options, that (strict success) every flag token before it is, and that everything
     after it is an argument.
  v  argv lists given to ArgvArgs directly (script name first; the empty list raises IndexError in the
     implementation and in the model, and the oracle demands nothing there).
  d  a few deeply nested strings (alternating quotes) - the recursion of `_parse_quoted_string`.
  w  the whitespace table: for every block of 8192 code points (all of Unicode) the code points the model's
     generated `isSpace` table calls whitespace against `str.isspace` of the interpreter running the real tokenizer.

The hypotheses of the theorems are decidable conditions on the input (`wfPieces` / trailing whitespace for
quote_roundtrip, `expressible` for quote_roundtrip_single/_iff, `unquoted` for unquoted_split); the model's
decisions are part of the correspondence: they are compared with the same conditions stated in Python over the
real `str.isspace` (`py_wf`, `py_expressible`, "no quote or backslash"), and so is the conclusion's `runs`.

The oracle is the property statement over the implementation's behaviour; it uses its own Python
definitions of "quote", "expressible", "maximal non-whitespace runs" and never the Lean model.
"""
import itertools
import signal

ID = "C08"
DESIGN_REF = "6/C08"
TECHNIQUE = ("Lean 4 proofs about a fuel-indexed executable model of TokenParser/StringArgs/ArgvArgs (List Char; written "
             "method by method on the object state and proved equal to the remaining-text form the theorems use; "
             "str.isspace table regenerated from the running interpreter) + exhaustive small-scope and generated "
             "differential correspondence against the real classes + the property statement as a Python oracle")
LEVEL_TEXT = ("Proved for ALL strings / token lists about the model: tokenize_total (the entry fuel |s|+1 is never used "
              "up and no other error is returned: termination and totality), quote_roundtrip (every list of tokens "
              "written in single quotes, double quotes (expressible tokens, the empty token included) or bare, separated "
              "by arbitrary non-empty whitespace with optional leading/trailing whitespace, tokenises back to exactly "
              "that list), unquoted_split (text without quotes/backslashes splits into its maximal non-whitespace runs), "
              "option_tokens_* (option tokens = tokens before the first '--'; nothing after it counts) and "
              "string_argv_same; on the composition with the parser model (Model/Lines.lean): string_argv_same_parse (the "
              "command string on a parser object in ANY state and the argv list of its tokens on an object in any other "
              "state are parsed to the same result), line_history_fresh / earlier_lines_inert / line_history_form_irrelevant "
              "(for every sequence of lines in either form on one parser object each line gets the fresh parse of its "
              "tokens: a `--` ends the options of ITS line only).  The model is tied to the code by an exhaustive comparison on every string up to length "
              "5/7 over a seven-character alphabet and by generated quoted token lists, and by histories of lines in both forms on one real "
              "parser object (entry c08.line_history); that the RESOLVER cannot tell a command string from the argv list of "
              "its tokens is checked on the real classes (also with one parser object installed on the command configs), not proved.")
LEVEL_NOTE = ("Trusted: Lean kernel + propext/Quot.sound/Classical.choice; the hand-written model (fidelity = what the "
              "correspondence sampled, exhaustively up to length 7 in the thorough tier); this harness.  The generated "
              "str.isspace table is no longer only trusted: the model's table is compared with str.isspace of the running "
              "interpreter on every code point (stream w), and the model's decisions of the theorems' hypotheses (wfPieces, "
              "expressible, unquoted) are compared with the same conditions stated in Python on every case.  Not modelled: CPython's recursion limit (about 990 nested alternating quotes raise "
              "RecursionError), lone surrogates.")
LEAN_MODULES = ["Clikit.Props.C08"]
REQUIRED_THEOREMS = ["Clikit.Props.C08." + n for n in (
    "tokenize_total", "tokenize_never_fails", "tokenize_fuel_independent", "stringArgs_total", "cursor_refinement",
    "object_model_eq", "object_model_total", "quote_roundtrip", "quote_roundtrip_single", "quote_roundtrip_iff", "roundtrip_needs_expressible", "unquoted_split",
    "runs_nonempty_nospace", "option_tokens_takeWhile", "option_tokens_raw", "option_tokens_cut",
    "option_tokens_all", "option_tokens_prefix", "option_token_after_dashes", "string_argv_same",
    "quoted_string_is_argv", "string_argv_same_total", "option_tokens_split", "option_tokens_idem",
    "option_tokens_tail_irrelevant", "line_raw_total", "string_argv_same_parse", "line_history_fresh",
    "earlier_lines_inert", "line_history_form_irrelevant", "line_history_forms_same_parses", "freshOut_forms")]
RULE = ("s: exhaustive strings up to length 5 (quick) / 7 (thorough) over {a,space,tab,',\",\\,-}, each up to length 5 "
        "also quoted as a token in both quote styles, plus seeded random strings of length 0-12 over the wide alphabet; q: seeded random token lists (0-4 tokens x 0-5 chars over letters, "
        "ASCII/non-ASCII whitespace, quotes, backslash, '-', '=', non-ASCII) x style per token x separators, plus a negative "
        "sub-stream violating one round-trip hypothesis; a: command-line vocabulary rendered the same way, string form vs "
        "argv form through parser, resolver and create_io; h: 24 fixed + 800 (quick) / 30 000 (thorough) seeded histories of 2-4 such lines (a `--` inserted into 60 % of the first and 30 % of the later lines), every line in both forms back to back on ONE parser object, directly or through set_args_parser + resolve_command; v: argv lists over the same vocabulary given to ArgvArgs directly; d: nesting depth probes; w: the whitespace table on all code points in blocks of 8192.  Non-trivial = the input contains a "
        "quote or a backslash, or yields at least two tokens; distinct = distinct (stream, input string)")
TRUSTED_BASE = [
    "Lean 4.33 kernel; axioms propext, Classical.choice, Quot.sound only (audited per theorem on every run)",
    "lean/Clikit/Model/Tokenizer.lean: hand-written model of TokenParser on its object state (_string, _cursor, _current, "
    "_next_), method by method (proved equal to the remaining-text scanner: object_model_eq), StringArgs, ArgvArgs - "
    "fidelity is what the correspondence run compared",
    "lean/Clikit/Model/Lines.lean + Model/Parser.lean (hand-written parser model shared with C01/C02/C05, its resets read "
    "from the source: Gen/C05): the composed model the line histories are compared with",
    "tools/genparts/c08.py: str.isspace table of the running interpreter (checked on every code point by stream w), ast "
    "shape checks of token_parser.py / *_args.py",
    "harness/props/c08.py: generators, canonicalisation, Python statement of quote/expressible/runs used by the oracle",
    "CPython str semantics (code points, str.isspace), Lean.Data.Json and the compiled driver",
]
ASSUMPTIONS = [
    "unbounded call stack: _parse_quoted_string recurses once per nested alternating quote; CPython raises RecursionError "
    "at a nesting depth of about 990 (limit 1000) - outside the bounded scope, reported as a finding, not modelled",
    "strings are sequences of Unicode scalar values (no lone surrogates)",
    "string form vs argv form through the resolver / create_io / a whole run: checked on generated command lines, not proved "
    "(through DefaultArgsParser: proved on the composed model, which is compared with the real parser on the line histories)",
]
BUDGET_S = {"quick": 70, "thorough": 760}
BATCH = 20000

ALPHABET = "a \t'\"\\-"
QUOTES = "'\""
WS = [" ", "\t", "\n", "\r", "\x0b", "\x0c", "\x1c", "\x1f", "\x85", "\xa0", "\u1680", "\u2000", "\u2003",
      "\u200a", "\u2028", "\u2029", "\u202f", "\u205f", "\u3000"]
TOKEN_CHARS = ["a", "b", "Z", " ", "\t", "\n", "\xa0", "\u3000", "\x85", "'", '"', "\\", "-", "=", "\xe9", "\u2713",
               "\U0001F600", "0"]
VOCAB = ["pkg", "add", "ls", "help", "nope", "x", "a b", "it's", 'say "hi"', "--", "--", "-", "", "-f", "--force",
         "-t", "--to", "--to=a b", "--to=", "-tx y", "-v", "-vv", "-vvv", "-q", "--quiet", "-n", "--no-interaction",
         "-h", "--help", "--ansi", "--no-ansi", "--bad", "-z", "\xe9t\xe9", "a=b", "back\\slash", "tab\there",
         "first", "-o", "--opt=v", "--name", "--name=n m", "-nval"]
STYLES = ["single", "double", "bare"]


# ------------------------------------------------------------------ the statement's vocabulary, in Python
def py_escape(t):
    return "".join("\\" + c if c in QUOTES else c for c in t)


def py_write(style, t):
    if style == "single":
        return "'" + py_escape(t) + "'"
    if style == "double":
        return '"' + py_escape(t) + '"'
    return t


def py_expressible(t):
    """a backslash takes the next character with it; that character must exist and not be a quote"""
    i = 0
    while i < len(t):
        if t[i] == "\\":
            if i + 1 >= len(t) or t[i + 1] in QUOTES:
                return False
            i += 2
        else:
            i += 1
    return True


def py_plain(t):
    return t != "" and all((not c.isspace()) and c not in QUOTES and c != "\\" for c in t)


def py_admits(style, t):
    return py_plain(t) if style == "bare" else py_expressible(t)


def py_render(pieces, trail):
    return "".join(p["sep"] + py_write(p["style"], p["tok"]) for p in pieces) + trail


def py_wf(pieces, trail):
    for i, p in enumerate(pieces):
        if not all(c.isspace() for c in p["sep"]):
            return False
        if i > 0 and p["sep"] == "":
            return False
        if not py_admits(p["style"], p["tok"]):
            return False
    return all(c.isspace() for c in trail)


def py_runs(s):
    out, cur = [], ""
    for c in s:
        if c.isspace():
            if cur:
                out.append(cur)
            cur = ""
        else:
            cur += c
    if cur:
        out.append(cur)
    return out


def py_before_dashes(tokens):
    out = []
    for t in tokens:
        if t == "--":
            break
        out.append(t)
    return out


# ------------------------------------------------------------------ generation
def _strings(maxlen):
    for n in range(maxlen + 1):
        for tup in itertools.product(ALPHABET, repeat=n):
            yield "".join(tup)


def _rand_token(rng, want_expressible):
    for _ in range(50):
        n = rng.choice([0, 1, 1, 2, 2, 3, 3, 4, 5])
        t = "".join(rng.choice(TOKEN_CHARS) for _ in range(n))
        if rng.random() < 0.15:
            t = rng.choice(VOCAB)
        if py_expressible(t) == want_expressible:
            return t
    return "a" if want_expressible else "a\\"


def _sep(rng, allow_empty):
    n = rng.choice([0, 1] if allow_empty else [1]) if rng.random() < 0.7 else rng.choice([1, 2, 3])
    if n == 0:
        return ""
    return "".join(rng.choice(WS[:4] if rng.random() < 0.6 else WS) for _ in range(n))


def _style_for(rng, t):
    if py_plain(t) and rng.random() < 0.4:
        return "bare"
    return rng.choice(["single", "double"])


def _pieces(rng, tokens):
    ps = []
    for i, t in enumerate(tokens):
        ps.append({"sep": _sep(rng, i == 0), "style": _style_for(rng, t), "tok": t})
    return ps


def _gen_q(rng):
    n = rng.choice([0, 1, 1, 2, 2, 3, 3, 4])
    toks = [_rand_token(rng, True) for _ in range(n)]
    return {"k": "q", "pieces": _pieces(rng, toks), "trail": _sep(rng, True)}


def _gen_neg(rng):
    """break exactly one hypothesis of the round trip"""
    n = rng.choice([1, 2, 3])
    toks = [_rand_token(rng, True) for _ in range(n)]
    ps = _pieces(rng, toks)
    trail = _sep(rng, True)
    i = rng.randrange(n)
    how = rng.choice(["inexpressible", "inexpressible", "bare", "nosep", "trail"])
    if how == "inexpressible":
        ps[i]["tok"] = _rand_token(rng, False)
        ps[i]["style"] = rng.choice(["single", "double"])
    elif how == "bare":
        for _ in range(50):
            t = _rand_token(rng, True)
            if not py_plain(t):
                break
        ps[i]["tok"], ps[i]["style"] = t, "bare"
    elif how == "nosep":
        if n == 1:
            ps.append({"sep": "", "style": rng.choice(["single", "double"]), "tok": _rand_token(rng, True)})
        else:
            ps[max(1, i)]["sep"] = ""
    else:
        trail = trail + rng.choice(["a", "'", "\\", '"'])
    return {"k": "q", "pieces": ps, "trail": trail}


def _a_tokens(rng):
    n = rng.choice([0, 1, 2, 2, 3, 3, 4, 4, 5, 6])
    toks = []
    for i in range(n):
        r = rng.random()
        if i == 0 and r < 0.6:
            toks.append(rng.choice(["pkg", "ls", "help", "pkg", "nope"]))
        elif i == 1 and r < 0.3:
            toks.append("add")
        else:
            toks.append(rng.choice(VOCAB))
    return toks


def _gen_a(rng):
    toks = _a_tokens(rng)
    return {"k": "a", "pieces": _pieces(rng, toks), "trail": _sep(rng, True)}


def _h_line(rng, toks):
    return {"pieces": _pieces(rng, toks), "trail": _sep(rng, True), "first": rng.choice(["string", "argv"]),
            "lenient": rng.random() < 0.3}


def _gen_h(rng):
    """several command lines for ONE parser object (used directly, or installed with set_args_parser on the command
    configs of an application), each given in both forms one after the other; earlier lines often contain `--`"""
    lines = []
    for i in range(rng.choice([2, 2, 3, 3, 4])):
        toks = _a_tokens(rng)
        if rng.random() < (0.6 if i == 0 else 0.3):
            toks.insert(rng.randint(0, len(toks)), "--")
        lines.append(_h_line(rng, toks))
    return {"k": "h", "via": rng.choice(["parser", "command"]), "lines": lines}


# fixed histories: a line with `--` (options before it, option look-alikes after it), then lines with options
H_FIXED = [[["-v", "--", "-f"], ["-f", "x"]],
           [["pkg", "-f", "--", "--to"], ["pkg", "--to", "a", "-f"]],
           [["--"], ["-v"], ["pkg", "--force"]],
           [["x", "--", "--"], ["--", "-v"], ["-v", "y"]],
           [["pkg", "add", "--", "-f", "--"], ["pkg", "add", "-f", "i"], ["ls", "-v"]],
           [["pkg", "--force"], ["pkg", "--", "--force"], ["pkg", "--force"]]]


def _fixed_h():
    for hist in H_FIXED:
        for via in ("parser", "command"):
            for first in ("string", "argv"):
                yield {"k": "h", "via": via, "lines": [
                    {"pieces": [{"sep": " " if i else "", "style": "bare" if py_plain(t) else "single", "tok": t}
                                for i, t in enumerate(toks)], "trail": "", "first": first, "lenient": False}
                    for toks in hist]}


def _single_tokens(maxlen):
    """every token up to maxlen over a small alphabet, in both quote styles, as a one-piece q case"""
    for n in range(maxlen + 1):
        for tup in itertools.product("a '\"\\-=", repeat=n):
            t = "".join(tup)
            for st in ("single", "double"):
                yield {"k": "q", "pieces": [{"sep": "", "style": st, "tok": t}], "trail": ""}


def generate(tier, rng):
    quick = tier == "quick"
    wide0 = TOKEN_CHARS + WS + ["'", '"', "\\", " "]
    # fixed witnesses of the behaviours named in the design (repaired D8, nesting, empty token, `--`)
    for s in ["\\", "a\\", "'a\\", "''", "'' \"\"", "a''", "'a", "\"'x'\"", "'\"", "-- -v", "-v -- -q --", "a\xa0b\u3000c",
              "\x1c\x1d\x1e\x1f", "caf\xe9 '\U0001F600 \u2713'", "--to='a b' x", "\\'", "\\\"", "'\\\\'"]:
        yield {"k": "s", "s": s}
    for lo in range(0, 0x110000, 0x2000):
        yield {"k": "w", "lo": lo, "n": 0x2000}
    for depth in (10, 50, 200, 400):
        yield {"k": "d", "s": ("'\"" * depth)[:depth]}
        yield {"k": "d", "s": ("'\"" * depth)[:depth] + "x"}
    # ---- the same strings after EARLIER tokenisations in the same process, including ones that ended in an
    # exception half-way (nesting beyond the recursion limit = finding D30, a non-string): a tokenisation is a
    # function of its string
    pres = [[{"deep": 3000}], [{"bytes": "ab cd"}], ["'open"], ["a\\"], [{"deep": 3000}, "x y"], ["a b c"], [{"deep": 2999}]]
    shorts = ["", "a", "'", "\"", "\\", "ab", "a b", " ", "-", "--", "''", "a'"]
    for pre in pres:
        for t in shorts:
            yield {"k": "s", "s": t, "pre": pre}
    for _ in range(300 if quick else 5000):
        yield {"k": "s", "s": "".join(rng.choice(wide0) for _ in range(rng.randrange(0, 4))), "pre": rng.choice(pres)}
    for case in _fixed_h():
        yield case
    nq, nneg, na = (20000, 5000, 4000) if quick else (300000, 60000, 60000)
    for _ in range(800 if quick else 30000):
        yield _gen_h(rng)
    # interleave the exhaustive enumeration with the seeded streams so that a cut at the time budget
    # (reported, and clears the `exhaustive` flag) never starves one stream completely
    for case in _single_tokens(4 if quick else 5):
        yield case
    yield {"k": "v", "argv": []}
    for _ in range(na // 4):
        n = rng.choice([1, 1, 2, 3, 4, 5])
        yield {"k": "v", "argv": [rng.choice(VOCAB) if rng.random() < 0.8 else _rand_token(rng, rng.random() < 0.7)
                                  for _ in range(n)]}
    for _ in range(na):
        yield _gen_a(rng)
    for _ in range(nq):
        yield _gen_q(rng)
    for _ in range(nneg):
        yield _gen_neg(rng)
    # raw strings over the wide alphabet (every whitespace kind next to quotes and backslashes)
    wide = TOKEN_CHARS + WS + ["'", '"', "\\", "'", '"', "\\", " ", " "]
    for _ in range(nq // 4):
        yield {"k": "s", "s": "".join(rng.choice(wide) for _ in range(rng.randrange(0, 13)))}
    for s in _strings(5 if quick else 7):
        yield {"k": "s", "s": s}


def exhaustive(tier):
    return True


# ------------------------------------------------------------------ recorded finding D30
def witnesses():
    # nesting deeper than CPython's recursion limit: _parse_quoted_string recurses per level
    return {"D30": {"k": "d", "s": "'\"" * 1000}}


def known_class(case, obs, verdict):
    raw = obs.get("raw", {}) if isinstance(obs, dict) else {}
    s = case.get("s", "") if isinstance(case, dict) else ""
    if case.get("k") in ("d", "s") and raw.get("exc") == "RecursionError" and sum(s.count(q) for q in "'\"") >= 300:
        return "D30"
    return None


# ------------------------------------------------------------------ implementation side
class _Budget(BaseException):
    pass


def _alarm(signum, frame):
    raise _Budget()


def _guard(fn, seconds=10):
    """run fn(); an exception becomes its class name, a hang becomes `NonTermination`"""
    old = signal.signal(signal.SIGALRM, _alarm)
    signal.setitimer(signal.ITIMER_REAL, seconds)
    try:
        return fn()
    except _Budget:
        return {"exc": "NonTermination"}
    except RecursionError:
        return {"exc": "RecursionError"}
    except Exception as e:  # noqa: BLE001 - the class name is the observation
        return {"exc": type(e).__name__}
    finally:
        signal.setitimer(signal.ITIMER_REAL, 0)
        signal.signal(signal.SIGALRM, old)


def _string_raw(s):
    from clikit.args import StringArgs

    def go():
        a = StringArgs(s)
        return {"tokens": list(a.tokens), "option_tokens": list(a.option_tokens), "script_name": a.script_name}
    return _guard(go)


def _argv_raw(argv):
    from clikit.args import ArgvArgs

    def go():
        a = ArgvArgs(list(argv))
        return {"tokens": list(a.tokens), "option_tokens": list(a.option_tokens), "script_name": a.script_name}
    return _guard(go)


_APP = None


def _make_app(shared_parser=None):
    """the small application; with `shared_parser` every command config gets that ONE parser object
    (Config.set_args_parser) instead of a new DefaultArgsParser per parse"""
    from clikit import ConsoleApplication
    from clikit.config.default_application_config import DefaultApplicationConfig
    from clikit.api.args.format import Argument, Option
    config = DefaultApplicationConfig("app", "1.0")
    config.set_catch_exceptions(False)
    config.set_terminate_after_run(False)
    with config.command("pkg") as c:
        c.add_argument("name", Argument.OPTIONAL).add_option("force", "f").add_option("to", "t", Option.REQUIRED_VALUE)
        if shared_parser is not None:
            c.set_args_parser(shared_parser)
        with c.sub_command("add") as s:
            s.add_argument("items", Argument.MULTI_VALUED)
            if shared_parser is not None:
                s.set_args_parser(shared_parser)
    with config.command("ls") as c:
        c.default()
        c.add_argument("path", Argument.OPTIONAL)
        if shared_parser is not None:
            c.set_args_parser(shared_parser)
    return ConsoleApplication(config)


def _fmt():
    from clikit.api.args.format import ArgsFormat, Argument, Option
    return ArgsFormat([Argument("first", Argument.OPTIONAL), Argument("rest", Argument.MULTI_VALUED),
                       Option("verbose", "v"), Option("name", "n", Option.REQUIRED_VALUE),
                       Option("opt", "o", Option.OPTIONAL_VALUE), Option("force", "f")])


# the options of `_fmt()` as the oracle knows them: (long name, short name, is a flag)
FMT_OPTIONS = [("verbose", "v", True), ("name", "n", False), ("opt", "o", False), ("force", "f", True)]


def _app():
    global _APP
    if _APP is None:
        _APP = (_make_app(), _fmt())
    return _APP


def _jsonable(x):
    if isinstance(x, dict):
        return {str(k): _jsonable(v) for k, v in x.items()}
    if isinstance(x, (list, tuple)):
        return [_jsonable(v) for v in x]
    if x is None or isinstance(x, (bool, int, str)):
        return x
    return repr(x)


def _through_clikit(make_raw):
    """what the real parser, resolver and create_io make of a RawArgs (a fresh one for every use:
    the help resolver edits `tokens` in place)"""
    from clikit.args import DefaultArgsParser
    from clikit.io.input_stream import StringInputStream
    from clikit.io.output_stream import BufferedOutputStream
    app, fmt = _app()
    out = {}

    def parse(lenient):
        def go():
            a = DefaultArgsParser().parse(make_raw(), fmt, lenient)
            return {"arguments": _jsonable(a.arguments(False)), "options": _jsonable(a.options(False))}
        return _guard(go)
    out["parse_strict"] = parse(False)
    out["parse_lenient"] = parse(True)

    def resolve():
        rc = app.resolve_command(make_raw())
        a = rc.args
        return {"command": rc.command.name, "arguments": _jsonable(a.arguments(False)),
                "options": _jsonable(a.options(False))}
    out["resolve"] = _guard(resolve)

    def io():
        x = app.config.create_io(app, make_raw(), StringInputStream(""), BufferedOutputStream(), BufferedOutputStream())
        return {"verbosity": x.verbosity, "quiet": x.is_quiet(), "interactive": x.is_interactive(),
                "ansi": type(x.output.formatter).__name__}
    out["io"] = _guard(io)

    def run():
        # the whole run with the default configuration (its help command resolves the line a second time, after
        # deleting its own name from the tokens): status and page must not depend on how the line was given
        o, e = BufferedOutputStream(), BufferedOutputStream()
        status = app.run(make_raw(), StringInputStream(""), o, e)
        return {"status": status, "out": o.fetch(), "err": e.fetch()}
    out["run"] = _guard(run)
    return out


def _run_history(case):
    """stream h: the lines of the case, each in both forms one after the other, through ONE parser object"""
    from harness import parser_common as pc
    from clikit.args import StringArgs, ArgvArgs, DefaultArgsParser
    parser = DefaultArgsParser()
    via = case["via"]
    fmt = _fmt() if via == "parser" else None
    app = _make_app(parser) if via == "command" else None

    def parse(make_raw, lenient):
        def go():
            return {"ok": pc.observe_args(fmt, parser.parse(make_raw(), fmt, lenient))}
        r = _guard(go)
        return {"err": r["exc"]} if "exc" in r else r

    def resolve(make_raw):
        def go():
            rc = app.resolve_command(make_raw())
            a = rc.args
            return {"command": rc.command.name, "arguments": _jsonable(a.arguments(False)),
                    "options": _jsonable(a.options(False)),
                    "option_names": [[o.long_name, o.short_name] for o in rc.command.args_format.get_options().values()]}
        return _guard(go)

    out = []
    for ln in case["lines"]:
        s = py_render(ln["pieces"], ln["trail"])
        toks = [p["tok"] for p in ln["pieces"]]
        rec = {"string": s, "raw": _string_raw(s), "argv": _argv_raw(["script"] + toks)}
        for form in ((("string", "argv") if ln["first"] == "string" else ("argv", "string"))):
            mk = (lambda: StringArgs(s)) if form == "string" else (lambda: ArgvArgs(["script"] + toks))
            rec[form + "_form"] = parse(mk, ln["lenient"]) if via == "parser" else resolve(mk)
        out.append(rec)
    return {"string": "", "raw": {}, "lines": out}


def run_impl(case):
    from clikit.args import StringArgs, ArgvArgs
    k = case["k"]
    if k == "h":
        return _run_history(case)
    for pre in case.get("pre", []):
        # earlier tokenisations, whatever became of them
        x = pre if isinstance(pre, str) else ("'\"" * pre["deep"])[:pre["deep"]] if "deep" in pre else pre["bytes"].encode()
        try:
            StringArgs(x)
        except Exception:  # noqa: BLE001
            pass
    if k == "v":
        return {"string": "", "raw": _argv_raw(case["argv"])}
    if k == "w":
        return {"string": "", "raw": {}, "spaces": [cp for cp in range(case["lo"], case["lo"] + case["n"]) if chr(cp).isspace()]}
    if k in ("s", "d"):
        s = case["s"]
        obs = {"string": s, "raw": _string_raw(s)}
        if k == "s" and len(s) <= 5:
            obs["as_token"] = {st: _string_raw(py_write(st, s)) for st in ("single", "double")}
        if "tokens" in obs["raw"]:
            obs["argv"] = _argv_raw(["script"] + obs["raw"]["tokens"])
        return obs
    s = py_render(case["pieces"], case["trail"])
    obs = {"string": s, "raw": _string_raw(s)}
    if "tokens" in obs["raw"]:
        toks = obs["raw"]["tokens"]
        obs["argv"] = _argv_raw(["script"] + toks)
        if k == "a":
            obs["via_string"] = _through_clikit(lambda: StringArgs(s))
            obs["via_argv"] = _through_clikit(lambda: ArgvArgs(["script"] + toks))
            obs["via_argv_cut"] = _through_clikit(lambda: ArgvArgs(["script"] + py_before_dashes(toks)))["io"]
    return obs


# ------------------------------------------------------------------ model side
_FLAT = None


def _flat():
    global _FLAT
    if _FLAT is None:
        from harness import parser_common as pc
        _FLAT = pc.flatten(_fmt())
    return _FLAT


def model_requests(case):
    k = case["k"]
    if k == "h":
        if case["via"] != "parser":
            # through the application only the raw args are modelled here (the resolver is C03's / C17's model)
            return [{"m": "c08.roundtrip", "pieces": ln["pieces"], "trail": ln["trail"]} for ln in case["lines"]]
        from harness import parser_common as pc
        lines, toks_all = [], []
        for ln in case["lines"]:
            toks = [p["tok"] for p in ln["pieces"]]
            toks_all += toks
            two = {"string": {"form": "string", "pieces": ln["pieces"], "trail": ln["trail"], "lenient": ln["lenient"]},
                   "argv": {"form": "argv", "argv": ["script"] + toks, "lenient": ln["lenient"]}}
            lines += [two["string"], two["argv"]] if ln["first"] == "string" else [two["argv"], two["string"]]
        ints, floats = pc.conv_tables(pc.texts_of(_flat(), toks_all))
        return [{"m": "c08.line_history", "fmt": _flat(), "ints": ints, "floats": floats, "lines": lines}]
    if k == "v":
        return [{"m": "c08.argv", "argv": case["argv"]}]
    if k == "w":
        return [{"m": "c08.spaces", "lo": case["lo"], "n": case["n"]}]
    if k in ("s", "d"):
        s = case["s"]
        reqs = [{"m": "c08.tokenize", "s": s}]
        if k == "s" and len(s) <= 5:
            for st in ("single", "double"):
                reqs.append({"m": "c08.roundtrip", "pieces": [{"sep": "", "style": st, "tok": s}], "trail": ""})
        return reqs
    return [{"m": "c08.roundtrip", "pieces": case["pieces"], "trail": case["trail"]}]


def _dec(codes):
    return "".join(map(chr, codes))


def _m_raw(ans):
    r = ans["raw"]
    if "err" in r:
        return {"exc": r["err"]}
    r = r["ok"]
    return {"tokens": [_dec(t) for t in r["tokens"]], "option_tokens": [_dec(t) for t in r["option_tokens"]],
            "script_name": None if r["script_name"] is None else _dec(r["script_name"])}


def model_obs(case, answers):
    k = case["k"]
    if k == "h":
        if case["via"] != "parser":
            return {"lines": [{"string": _dec(a["string"]), "raw": _m_raw(a)} for a in answers]}
        from harness import parser_common as pc
        out = []
        for i, ln in enumerate(case["lines"]):
            a, b = answers[0][2 * i], answers[0][2 * i + 1]
            st, av = (a, b) if ln["first"] == "string" else (b, a)
            out.append({"raw": _m_raw(st), "argv": _m_raw(av),
                        "string_form": pc.canon_model_answer(st["parse"]), "argv_form": pc.canon_model_answer(av["parse"])})
        return {"lines": out}
    if k == "v":
        return {"string": "", "raw": _m_raw(answers[0])}
    if k == "w":
        return {"spaces": answers[0]["spaces"]}
    if k in ("s", "d"):
        # `unquoted` is the hypothesis of unquoted_split, `runs` its conclusion's right-hand side
        out = {"string": case["s"], "raw": _m_raw(answers[0]), "unquoted": answers[0]["unquoted"],
               "runs": [_dec(t) for t in answers[0]["runs"]]}
        if len(answers) == 3:
            out["as_token"] = {"single": _m_raw(answers[1]), "double": _m_raw(answers[2])}
            out["as_token_string"] = {"single": _dec(answers[1]["string"]), "double": _dec(answers[2]["string"])}
            # the hypothesis of quote_roundtrip_single / quote_roundtrip_iff (`expressible`), as the model decides it
            out["as_token_wf"] = {"single": answers[1]["wf"], "double": answers[2]["wf"]}
        return out
    # `wf` = the hypotheses of quote_roundtrip (wfPieces true ps, trailing whitespace), as the model decides them
    return {"string": _dec(answers[0]["string"]), "raw": _m_raw(answers[0]), "wf": answers[0]["wf"]}


def impl_view(case, obs):
    k = case["k"]
    if k == "h":
        if case["via"] != "parser":
            return {"lines": [{"string": r["string"], "raw": r["raw"]} for r in obs["lines"]]}
        return {"lines": [{"raw": r["raw"], "argv": r["argv"], "string_form": r["string_form"], "argv_form": r["argv_form"]}
                          for r in obs["lines"]]}
    if k == "w":
        return {"spaces": obs["spaces"]}
    out = {"string": obs["string"], "raw": obs["raw"]}
    if k in ("s", "d"):
        s = case["s"]
        out["unquoted"] = not any(c in s for c in "'\"\\")
        out["runs"] = py_runs(s)
    elif k in ("q", "a"):
        out["wf"] = py_wf(case["pieces"], case["trail"])
    if "as_token" in obs:
        out["as_token"] = obs["as_token"]
        out["as_token_string"] = {st: py_write(st, case["s"]) for st in ("single", "double")}
        out["as_token_wf"] = {st: py_expressible(case["s"]) for st in ("single", "double")}
    return out


# ------------------------------------------------------------------ the property statement
def _same(a, b, what):
    if a != b:
        return "%s: string form %r, argv form %r" % (what, a, b)
    return None


def _spelled_before_dashes(tokens, long, short):
    """does a token before the first `--` spell the option (generously: any short group containing its letter)"""
    for t in py_before_dashes(tokens):
        for n in (long, short):
            if n and (t == "--" + n or t.startswith("--" + n + "=")):
                return True
        if short and t.startswith("-") and not t.startswith("--") and short in t[1:]:
            return True
    return False


def _flat_values(vals):
    out = []
    for v in vals:
        out += list(v) if isinstance(v, list) else [v]
    return out


def _oracle_history(case, obs):
    """stream h: every line, in both forms, on one parser object that has parsed the earlier lines"""
    from harness import parser_common as pc
    via = case["via"]
    for i, (ln, r) in enumerate(zip(case["lines"], obs["lines"])):
        toks = [p["tok"] for p in ln["pieces"]]
        where = "line %d %r (after %d earlier line(s) on the same parser object)" % (i, toks, i)
        if "exc" in r["raw"]:
            return "StringArgs(%r) raised %s" % (r["string"], r["raw"]["exc"])
        if py_wf(ln["pieces"], ln["trail"]) and r["raw"]["tokens"] != toks:
            return "round trip: %r tokenises to %r, written tokens were %r" % (r["string"], r["raw"]["tokens"], toks)
        post = toks[toks.index("--") + 1:] if "--" in toks else []
        for form in ("string_form", "argv_form"):
            x = r[form]
            if via == "parser":
                if "ok" not in x:
                    continue
                given = [(n, pc.dec(v)) for n, v in x["ok"]["opts_set"]]
                names = [(lg, sh) for lg, sh, _ in FMT_OPTIONS]
                flags = [(lg, sh) for lg, sh, fl in FMT_OPTIONS if fl]
                positionals = _flat_values([pc.dec(v) for _, v in x["ok"]["args_set"]])
                strict_ok = not ln["lenient"]
            else:
                if "exc" in x:
                    continue
                given = list(x["options"].items())
                names = [tuple(p) for p in x["option_names"]]
                flags = [("force", "f")] if x["command"] in ("pkg", "add") else []
                positionals = _flat_values(list(x["arguments"].values()))
                strict_ok = True     # a resolved command's arguments are a strict parse
            # only tokens BEFORE the first `--` count as option tokens ...
            for n, v in given:
                sh = dict(names).get(n)
                if not _spelled_before_dashes(toks, n, sh):
                    return "%s, %s: option %r is reported as given (%r) but no token before the first '--' spells it" % (
                        where, form, n, v)
            if strict_ok:
                # ... and every one of them does (a successful strict parse has looked at every token)
                for lg, sh in flags:
                    if any(t in ("--" + lg, "-" + sh) for t in py_before_dashes(toks)) and (lg, True) not in given:
                        return "%s, %s: the option token for %r stands before the first '--' but the option is not reported" % (
                            where, form, lg)
                # everything after the first `--` is an argument, whatever it looks like (judged on the parser alone: for
                # a resolved command the parser re-aligns leading positionals that repeat the command's own name(s) -
                # `-- help` on the default command - so the reported arguments need not end with the tail there)
                if via == "parser" and post and positionals[len(positionals) - len(post):] != post:
                    return "%s, %s: the tokens after '--' are %r, the arguments reported are %r" % (where, form, post, positionals)
        # the command string and the equivalent argv list are indistinguishable to the parser / the resolver
        if r["string_form"] != r["argv_form"]:
            return "%s: given as a command string the %s answers %s, given as the argv list %s" % (
                where, "parser" if via == "parser" else "resolver", str(r["string_form"])[:300], str(r["argv_form"])[:300])
    return None


def oracle(case, obs):
    if case["k"] == "h":
        return _oracle_history(case, obs)
    if case["k"] == "w":
        return None   # the whitespace table is an engine fact: compared with the model, nothing is demanded of clikit
    s = obs["string"]
    raw = obs["raw"]
    if case["k"] == "v":
        # the argv form on its own: everything after the script name is a token, option tokens stop at `--`
        argv = case["argv"]
        if not argv:
            return None  # ArgvArgs([]) is not the argv form of any command line; nothing is demanded
        if "exc" in raw:
            return "ArgvArgs(%r) raised %s" % (argv, raw["exc"])
        if raw["tokens"] != argv[1:] or raw["option_tokens"] != py_before_dashes(argv[1:]):
            return "ArgvArgs(%r): tokens %r, option_tokens %r" % (argv, raw["tokens"], raw["option_tokens"])
        return None
    # 1. tokenising terminates without an error, for every string
    if "exc" in raw:
        return "StringArgs(%r) raised %s" % (s, raw["exc"])
    toks = raw["tokens"]
    # 2. quoting is inverted (where the quoting scheme can express the tokens)
    if case["k"] in ("q", "a") and py_wf(case["pieces"], case["trail"]):
        want = [p["tok"] for p in case["pieces"]]
        if toks != want:
            return "round trip: %r tokenises to %r, written tokens were %r" % (s, toks, want)
    if "as_token" in obs and py_expressible(s):
        for st, r in sorted(obs["as_token"].items()):
            if r.get("tokens") != [s]:
                return "round trip: token %r in %s quotes (%r) reads back as %r" % (s, st, py_write(st, s), r)
    if "as_token" in obs:
        for st, r in sorted(obs["as_token"].items()):
            if "exc" in r:
                return "StringArgs(%r) raised %s" % (py_write(st, s), r["exc"])
    # 3. unquoted text splits exactly at runs of whitespace
    if not any(c in s for c in "'\"\\"):
        if toks != py_runs(s):
            return "unquoted text %r split into %r, its whitespace-separated runs are %r" % (s, toks, py_runs(s))
    # 4. only tokens before the first `--` count as option tokens - in both forms
    if raw["option_tokens"] != py_before_dashes(toks):
        return "StringArgs(%r).option_tokens = %r, tokens before the first '--' are %r" % (
            s, raw["option_tokens"], py_before_dashes(toks))
    av = obs.get("argv")
    if av is not None:
        if "exc" in av:
            return "ArgvArgs(['script'] + %r) raised %s" % (toks, av["exc"])
        if av["option_tokens"] != py_before_dashes(av["tokens"]):
            return "ArgvArgs(['script'] + %r).option_tokens = %r" % (toks, av["option_tokens"])
        # 5. the string and the equivalent argv list are indistinguishable
        v = _same(toks, av["tokens"], "tokens") or _same(raw["option_tokens"], av["option_tokens"], "option_tokens")
        if v:
            return v
    if "via_string" in obs:
        for key in ("parse_strict", "parse_lenient", "resolve", "io", "run"):
            v = _same(obs["via_string"][key], obs["via_argv"][key], "%s of %r" % (key, s))
            if v:
                return v
        if obs["via_argv"]["io"] != obs["via_argv_cut"]:
            return ("tokens after '--' act as option tokens: create_io gives %r for %r but %r without the tail"
                    % (obs["via_argv"]["io"], toks, obs["via_argv_cut"]))
    return None


# ------------------------------------------------------------------ statistics, search
def nontrivial_key(case, obs):
    if case["k"] == "h":
        # non-trivial: a line with `--` before the last line
        if any("--" in [p["tok"] for p in ln["pieces"]] for ln in case["lines"][:-1]):
            return "h:%s:%s" % (case["via"], "\n".join(r["string"] for r in obs["lines"]))
        return None
    if case["k"] == "w":
        return None
    if case["k"] == "v":
        return "v:" + repr(case["argv"]) if "--" in case["argv"][1:] else None
    s = obs["string"]
    toks = obs["raw"].get("tokens", [])
    if any(c in s for c in "'\"\\") or len(toks) >= 2:
        return case["k"] + ":" + s
    return None


def bucket(case, obs):
    s = obs["string"]
    k = case["k"]
    raw = obs["raw"]
    if k == "h":
        dd = any("--" in [p["tok"] for p in ln["pieces"]] for ln in case["lines"][:-1])
        return "h one parser object via %s, %d lines x 2 forms, %s" % (
            case["via"], len(case["lines"]), "an earlier line has --" if dd else "no -- in earlier lines")
    if k == "w":
        return "w isspace table, %d whitespace code point(s) in the block" % min(len(obs["spaces"]), 9)
    if k == "v":
        return "v n=%d %s" % (len(case["argv"]), raw.get("exc") or ("with --" if "--" in raw["tokens"] else "no --"))
    feats = "".join(f for f, on in (("q", any(c in s for c in QUOTES)), ("b", "\\" in s),
                                   ("w", any(c.isspace() for c in s)), ("u", any(ord(c) > 127 for c in s)),
                                   ("-", "--" in raw.get("tokens", []))) if on) or "plain"
    if k in ("s", "d"):
        extra = ""
        if "as_token" in obs:
            ok = all(r.get("tokens") == [s] for r in obs["as_token"].values())
            extra = " as-token[%s: round trip %s]" % ("expressible" if py_expressible(s) else "inexpressible",
                                                     "holds" if ok else "fails")
        return "%s len=%s %s -> %s%s" % (k, len(s) if k == "s" else "deep", feats,
                                         raw.get("exc") or "%d tok" % min(len(raw["tokens"]), 4), extra)
    wf = py_wf(case["pieces"], case["trail"])
    if wf:
        kind = "wf"
    else:
        ps = case["pieces"]
        if any(p["style"] != "bare" and not py_expressible(p["tok"]) for p in ps):
            why = "inexpressible quoted token"
        elif any(p["style"] == "bare" and not py_plain(p["tok"]) for p in ps):
            why = "bare token needs quoting"
        elif any(i > 0 and p["sep"] == "" for i, p in enumerate(ps)):
            why = "empty separator"
        else:
            why = "non-whitespace tail"
        rt = raw.get("tokens") == [p["tok"] for p in ps]
        kind = "neg[%s: round trip %s]" % (why, "holds" if rt else "fails")
    return "%s %s n=%d %s" % (k, kind, len(case["pieces"]), feats)


def _edits(s, alphabet):
    seen = set()
    for i in range(len(s)):
        t = s[:i] + s[i + 1:]
        if t not in seen:
            seen.add(t)
            yield t
    for i in range(len(s) + 1):
        for c in alphabet:
            t = s[:i] + c + s[i:]
            if t not in seen:
                seen.add(t)
                yield t
            if i < len(s):
                t = s[:i] + c + s[i + 1:]
                if t not in seen and t != s:
                    seen.add(t)
                    yield t


def shrink(case):
    k = case["k"]
    if k == "h":
        ls = case["lines"]
        for i in range(len(ls)):
            if len(ls) > 1:
                yield dict(case, lines=ls[:i] + ls[i + 1:])
        for i, ln in enumerate(ls):
            ps = ln["pieces"]
            for j in range(len(ps)):
                yield dict(case, lines=ls[:i] + [dict(ln, pieces=ps[:j] + ps[j + 1:])] + ls[i + 1:])
            if ln["trail"]:
                yield dict(case, lines=ls[:i] + [dict(ln, trail="")] + ls[i + 1:])
            for j, p in enumerate(ps):
                if p["sep"] not in ("", " "):
                    yield dict(case, lines=ls[:i] + [dict(ln, pieces=ps[:j] + [dict(p, sep=" ")] + ps[j + 1:])] + ls[i + 1:])
        return
    if k == "w":
        if case["n"] > 1:
            h = case["n"] // 2
            yield {"k": "w", "lo": case["lo"], "n": h}
            yield {"k": "w", "lo": case["lo"] + h, "n": case["n"] - h}
        return
    if k == "v":
        a = case["argv"]
        for i in range(len(a)):
            yield {"k": "v", "argv": a[:i] + a[i + 1:]}
        return
    if k in ("s", "d"):
        s = case["s"]
        for i in range(len(s)):
            yield {"k": "s", "s": s[:i] + s[i + 1:]}
        for i, c in enumerate(s):
            if c != "a":
                yield {"k": "s", "s": s[:i] + "a" + s[i + 1:]}
        return
    ps, trail = case["pieces"], case["trail"]
    for i in range(len(ps)):
        yield dict(case, pieces=ps[:i] + ps[i + 1:])
    if trail:
        yield dict(case, trail="")
    for i, p in enumerate(ps):
        t = p["tok"]
        for j in range(len(t)):
            yield dict(case, pieces=ps[:i] + [dict(p, tok=t[:j] + t[j + 1:])] + ps[i + 1:])
        if len(p["sep"]) > 1 or (i == 0 and p["sep"]):
            yield dict(case, pieces=ps[:i] + [dict(p, sep=p["sep"][1:])] + ps[i + 1:])
        if p["sep"] not in ("", " "):
            yield dict(case, pieces=ps[:i] + [dict(p, sep=" ")] + ps[i + 1:])
    if k == "a":
        yield dict(case, k="q")
    # finally: the rendered string as a plain string case
    yield {"k": "s", "s": py_render(ps, trail)}


def neighbours(case):
    k = case["k"]
    if k == "h":
        # the same lines through the other entry, and with the forms in the other order
        yield dict(case, via="command" if case["via"] == "parser" else "parser")
        yield dict(case, lines=[dict(ln, first="argv" if ln["first"] == "string" else "string") for ln in case["lines"]])
        return
    if k == "w":
        return
    if k == "v":
        a = case["argv"]
        for i in range(len(a) + 1):
            for t in ("--", "-v", "x"):
                yield {"k": "v", "argv": a[:i] + [t] + a[i:]}
        return
    if k in ("s", "d"):
        s = case["s"]
    else:
        s = py_render(case["pieces"], case["trail"])
        # the same tokens written in the other styles
        for st in STYLES:
            yield dict(case, pieces=[dict(p, style=st) for p in case["pieces"]])
        for p in case["pieces"]:
            for st in ("single", "double"):
                yield {"k": "q", "pieces": [{"sep": "", "style": st, "tok": p["tok"]}], "trail": ""}
    if len(s) <= 12:
        for t in _edits(s, ALPHABET):
            yield {"k": "s", "s": t}
    # the tokens of the string, quoted again and joined: a round trip the statement demands
    for t in _edits(s[:6], "a'\" -"):
        if py_expressible(t):
            yield {"k": "q", "pieces": [{"sep": "", "style": "single", "tok": t},
                                        {"sep": " ", "style": "double", "tok": t}], "trail": ""}
