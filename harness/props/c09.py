"""
C09 - global switches act the same wherever they appear and whatever command runs.

Cases: generated command trees on the DEFAULT application configuration x valid command lines x
subsets/orders of the seven global switches (long and short spellings) inserted at positions among
the tokens before `--` (or all after `--`) x handler behaviours (writes at every verbosity to both
streams, asks a question, raises).  The I/O decisions of `create_io` and the help switch are compared
with the Lean model (translated from the source on every run); the oracle states the effects.
The whole run is also compared with the COMPOSED model `App.runApp` (lean/Clikit/Model/App.lean, entry
`c09.app_run`), which gets the command tree from the real application: status, the command and args selected,
which handler ran with which args, help page (target) / version line / error, I/O configuration.
A tenth of the cases put `--` at the very front of the line (nothing before the separator, all switches behind it); a
quarter of the lines are handed over as one string (StringArgs) instead of an argv list.
"""
import re
from harness import app_common as ac
from harness import parser_common as pc

ID = "C09"
DESIGN_REF = "6/C09"
LEAN_MODULES = ["Clikit.Props.C09"]
REQUIRED_THEOREMS = ["Clikit.Props.C09." + n for n in (
    "io_perm_invariant", "io_after_dashes", "help_after_dashes", "quiet_iff", "no_interaction_iff", "verbosity_levels",
    "ansi_precedence", "quiet_silences_run", "help_switch_iff", "version_switch", "version_absent",
    "io_depends_on_membership", "verbosity_monotone_output", "io_only_option_tokens", "io_tail_irrelevant",
    # end to end, on the composed model of a whole run (Model/App.lean), compared with the real run by c09.app_run
    "app_io_is_switches", "app_help_switch", "app_version_switch", "app_help_command",
    "app_switches_after_dashes_inert",
    # lenient commands: a surplus argument is skipped with the parser state unchanged (switches behind it act as without it)
    "parseArgument_surplus", "step_surplus", "lenient_surplus_skipped", "lenient_surplus_run_skipped",
    # `--` as the very first token of the line
    "io_dashes_first")]
TECHNIQUE = ("Lean 4 theorems about the switch decisions translated from DefaultApplicationConfig.create_io / "
             "resolve_help_command / print_version on every run (py-AST -> Lean), composed with the C08/C10/C04 results + "
             "differential runs of the real default application with switches inserted at every admissible position")
LEVEL_TEXT = ("The decisions of create_io (ANSI mode, verbosity, quiet, interaction), of the help listener and of the version "
              "listener are regenerated from the source into Lean on every run; proved for ALL token lists: the I/O "
              "configuration depends only on which tokens occur before `--` (permutation invariance), tokens after `--` "
              "have no effect (io_after_dashes for a prefix without `--`; io_only_option_tokens / io_tail_irrelevant without "
              "any hypothesis, for every token list; io_dashes_first: a line starting with `--` is configured like the empty line), quiet/no-interaction/help iff their tokens are among the option tokens, the verbosity and "
              "ANSI precedence rules, quiet drops every write incl. the error report (via C10), the version listener ends "
              "the run with status 0 without invoking the handler (via C04). END TO END: App.runApp (Model/App.lean) composes "
              "create_io, the PRE_RESOLVE help listener (lenient parse of the help command), DefaultResolver + the args parser, "
              "the PRE_HANDLE version listener, HelpTextHandler / the abstract handlers and C04's run model in the order of "
              "ConsoleApplication.run; proved for ALL command trees, token lists, conversion tables and handler behaviours: the "
              "I/O configuration of a run is createIO of the option tokens whatever command runs (app_io_is_switches); with a "
              "help switch no handler of the application is invoked and, when the lenient parse succeeds, the run shows the "
              "page C13's helpTarget selects with status 0 - unless the parsed args also have the version option, then the "
              "version listener answers first (app_help_switch, for trees whose get_command('help') is named help: helpNamedB, "
              "decided on every real tree); without a help switch a line that resolves and whose args have the version option "
              "shows the version, status 0, no handler (app_version_switch); a line resolving to the help command shows "
              "helpTarget's page (app_help_command); tokens after `--` change neither the I/O configuration nor the help "
              "listener's decision, and for every args format the options set by the parse - hence whether the version option "
              "is set - do not depend on them (app_switches_after_dashes_inert, via a frame property of the token loop). "
              "LENIENT COMMANDS (enable_lenient_args_parsing): when every argument slot of the format is taken and the last "
              "argument is single-valued, a further word is a surplus argument - the parser model's token loop skips it, and "
              "any run of such words, with its state unchanged and parses the rest of the line as if they were not there, so "
              "every switch behind a surplus argument is read as without it (lenient_surplus_skipped, "
              "lenient_surplus_run_skipped, for ALL formats, states and rests of the line). The "
              "composed model is compared with the REAL run on every case (c09.app_run): I/O configuration (of create_io and of "
              "the io object the run carried), the command and args resolve_command selects (incl. the lenient parse of the "
              "help command) or the class of its exception, which handler ran with which set arguments/options, help page "
              "(and which target) / version line / error, status. That the running application really behaves "
              "as these decisions say (streams, handler-observed state, help/version pages, status) is checked by "
              "differential runs on generated trees with the switches inserted at admissible positions, and by the oracle.")
LEVEL_NOTE = ("Trusted: Lean kernel + standard axioms; tools/genparts/c09.py (AST shape matching of create_io and the two "
              "listeners); harness. Not proved: the end-to-end effect on the streams (explored), TTY capability detection "
              "(`auto` mode is exercised with fake streams that claim ANSI support).")
RULE = ("generated trees on DefaultApplicationConfig x 1 valid line x switch multisets (1-3 switches of the 11 spellings) at "
        "random admissible positions, or all after `--`; handler writes at 4 verbosities to both streams, asks a question, "
        "optionally raises; a quarter of the lines are for a command configured with enable_lenient_args_parsing(): every "
        "argument has a value and 1-3 SURPLUS arguments follow (legal there; further values when the last argument is "
        "multi-valued), with the switches half of the time behind the first surplus argument (between them / at the end of "
        "the line); a tenth of the cases are rewritten to a line whose very FIRST token is `--` (zero tokens before the "
        "separator: the switches of the case, sometimes one more and one or two words of the valid line, shuffled, all "
        "behind it - arguments of the application's default command) and must show none of the effects; a quarter of the "
        "lines whose tokens survive the string tokenizer (half of the `--`-first ones) are handed over as ONE STRING "
        "(StringArgs) instead of an argv list (ArgvArgs); non-trivial = at least one switch before `--`; "
        "distinct = (tree, tokens)")
TRUSTED_BASE = [
    "Lean 4.33 kernel; axioms within propext, Classical.choice, Quot.sound (audited per theorem on every run)",
    "tools/genparts/c09.py: translation of the decision structure of create_io / resolve_help_command / print_version",
    "theorems of C08 (option tokens), C10 (gate) and C04 (run) that the C09 theorems compose",
    "harness/props/c09.py, harness/app_common.py: trees, insertion positions, stream fakes, oracle",
    "lean/Clikit/Model/App.lean: hand-written composition of the existing models (Switches, Resolver, Parser, Help target, "
    "Run) in the order of the code - modelled, not verified; tied to ConsoleApplication.run by c09.app_run on every case. The "
    "observation of the real run uses two late listeners (PRE_RESOLVE / PRE_HANDLE, priority -10, read-only) and recording "
    "SUBCLASSES of HelpTextHandler / HelpResolver set as the help command's handler (they only delegate to the real methods)",
]
ASSUMPTIONS = [
    "a valid line for a command with lenient args parsing may carry surplus arguments (they are skipped): the switches "
    "behind them must act as anywhere else; surplus arguments are words that name no command of the generated trees",
    "`--` may be the very first token of a line (`app -- -q`: the ordinary way to pass dash-leading arguments to the "
    "default command); then every switch of the line stands after the separator. The line may be given as an argv list "
    "(ArgvArgs) or as one string (StringArgs; only lines whose tokens the tokenizer returns unchanged)",
    "switches are inserted at item boundaries (never between an option and its separate value); `-v` is an optional-value option, so a following positional is consumed - the I/O effect is the same, the command's arguments are not",
    "real TTY capability detection is outside; `auto` is exercised with streams that report ANSI support",
    "the theorems have no hypothesis about real objects: the only inputs of the model are the tokens; that the list "
    "`has_option_token` tests (RawArgs.option_tokens) is the model's optionTokens is compared on every case; the version "
    "theorems take `the parsed args have the version option set` as the parameter of versionListener (its link to the "
    "tokens --version / -V is stated by the oracle, not proved: it goes through the args parser, C01)",
    "composed model (c09.app_run): nothing is excluded from the comparison - `-v` taking the next positional as its optional "
    "value is modelled by the parser model (the line then resolves/parses as the real one does), switches placed before the "
    "command name make the line resolve to the default command `help` in the model as in the code. Handlers of generated "
    "cases return 0 or raise RuntimeError (other return values / KeyboardInterrupt: C04's table); debug_cfg is passed to both "
    "sides but always False in generated cases; the text of help pages is C13's subject (only kind, target and that `USAGE` / "
    "the version line appears unless quiet are compared); rendering a help page / the version line is taken to succeed",
    "app_help_switch assumes helpNamedB (the command get_command('help') returns is named `help`, so its handler is "
    "HelpTextHandler): decided by the model on the tree read from every real application and compared with true, together with "
    "C13's wiredB for both switches (helpNamed_of_wired: wiredB implies it)",
]
BATCH = 600

SWITCHES = ["--quiet", "-q", "-v", "-vv", "-vvv", "--ansi", "--no-ansi", "--no-interaction", "-n", "--help", "-h",
            "--version", "-V"]
OPTS = [[("force", "f"), ("wide", "w")], [("bar", "b"), ("count", "c")], [("extra", "x"), ("opt", "o")]]


SURPLUS = ["extra", "more", "x1", "9", "left-over", "add.txt"]      # never a command name or alias of the trees


def _valid_line(rng, tree, want_target=False):
    cmds = [c for c in ac.enabled(tree["commands"]) if not c["anonymous"]]
    if not cmds:
        return (None, None, None) if want_target else (None, None)
    node = rng.choice(cmds)
    path = [node["name"]]
    while True:
        subs = [c for c in ac.enabled(node["subs"]) if not c["anonymous"]]
        if not subs or rng.random() < 0.3:
            break
        node = rng.choice(subs)
        path.append(node["name"])
    target = node
    dflt = [c for c in ac.enabled(node["subs"]) if c["default"]]
    if dflt:
        target = dflt[0]
    vals = []
    args = target["args"]
    n_req = len([a for a in args if a["mode"] in ("required", "multi_required")])
    for a in args[:rng.randint(n_req, len(args))]:
        v = pc.value_for(rng, a["type"], a["nullable"])
        vals.append(v if not v.startswith("-") and v != "" else "x")
    if want_target:
        return path, vals, target
    return path, vals


def _surplus(rng, target, vals):
    """LENIENT command + surplus arguments: the command the line is meant for is configured with
    `enable_lenient_args_parsing()` (a public option of every command config), every argument of it gets a value and
    one to three more arguments follow - legal on such a command, they are skipped.  The line is still a valid line."""
    target["lenient"] = True
    vals = list(vals)
    for a in target["args"][len(vals):]:
        v = pc.value_for(rng, a["type"], a["nullable"])
        vals.append(v if not v.startswith("-") and v != "" else "x")
    n = rng.randint(1, 3)
    last = target["args"][-1] if target["args"] else None
    if last is not None and last["mode"] in ("multi", "multi_required"):
        # a multi-valued last argument takes every further token: they are values of its type, never surplus
        more = [pc.value_for(rng, last["type"], last["nullable"]) for _ in range(n)]
        return vals, [v if not v.startswith("-") and v != "" else "x" for v in more]
    return vals, [rng.choice(SURPLUS) for _ in range(n)]


def _path_opts(tree, path):
    """the options a line for `path` may carry: those of the commands along the path and of the default sub-command
    the line is meant for (formats inherit the options of the parent)"""
    out, level, node = [], ac.enabled(tree["commands"]), None
    for name in path:
        node = [c for c in level if c["name"] == name][0]
        out += node["opts"]
        level = ac.enabled(node["subs"])
    dflt = [c for c in level if c["default"]]
    if dflt:
        out += dflt[0]["opts"]
    return out


def _add_command_options(case_no, tree, path, tokens):
    """sometimes the line also carries options of the selected command (`--force`, `--num=7`): the help listener's
    LENIENT parse of the `help` command must skip them, the command's own parse must set them.  Drawn from a child
    generator seeded by the case, so that the main case stream is the one it was before this was added."""
    import json
    import random
    sub = random.Random("c09-opts:" + json.dumps([case_no, tokens]))
    if sub.random() >= 0.35:
        return tokens
    tokens = list(tokens)
    for o in _path_opts(tree, path):
        if sub.random() < 0.6:
            tok = "--" + o["long"] if o["mode"] == "flag" else \
                "--%s=%s" % (o["long"], pc.value_for(sub, o["type"], o["nullable"], True))
            if o["mode"] != "flag" and o.get("short") and o["type"] == "string" and sub.random() < 0.5:
                # the short spelling with the value attached; values that contain switch letters (`-ohtml`, `-bnvq`)
                # are values, not switches
                tok = "-" + o["short"] + sub.choice(["html", "high", "nvq", "Vh", "x"])
            end = tokens.index("--") if "--" in tokens else len(tokens)
            start = len(path) if tokens[:len(path)] == path else end
            tokens.insert(sub.randint(min(start, end), end), tok)
    return tokens


def generate(tier, rng):
    n = 4000 if tier == "quick" else 40000
    k = 0
    while k < n:
        tree = ac.gen_tree(rng, opts_by_depth=OPTS)
        tree["global_flag"] = False
        path, vals, target = _valid_line(rng, tree, True)
        if path is None:
            continue
        k += 1
        surplus = []
        if rng.random() < 0.25:
            vals, surplus = _surplus(rng, target, vals)
        base = path + vals + surplus
        sw = [rng.choice(SWITCHES) for _ in range(rng.randint(1, 3))]
        after = rng.random() < 0.2
        if after:
            # sometimes a switch stands right before the separator as well (`-v --`: the separator is not a value)
            pre = [rng.choice(SWITCHES)] if rng.random() < 0.4 else []
            tokens = base + pre + ["--"] + sw
        else:
            tokens = list(base)
            for s in sw:
                # after the command path, at an item boundary
                pos = rng.randint(len(path), len(tokens)) if rng.random() < 0.85 else rng.randint(0, len(tokens))
                if surplus and rng.random() < 0.5:
                    # behind the first surplus argument (between the surplus arguments or at the end of the line)
                    pos = rng.randint(min(len(path) + len(vals) + 1, len(tokens)), len(tokens))
                tokens.insert(pos, s)
        tokens = _add_command_options(k, tree, path, tokens)
        case = {"tree": tree, "path": path, "tokens": tokens, "switches": sw, "after": after,
                "raises": rng.random() < 0.2, "debug_cfg": False}
        if surplus:
            case["surplus"] = surplus
        yield _separator_first(k, case, base)


SIMPLE = re.compile(r"^[A-Za-z0-9_.=-]+$")


def _separator_first(case_no, case, base):
    """two more ways to write a line, drawn from a child generator seeded by the case (the main stream stays the one
    it was): (a) `--` as the very FIRST token - zero tokens before the separator, the ordinary way to hand dash-leading
    arguments to the application's default command: `app -- -q`, `-- -vvv x`, `-- --ansi -n` - with the switches, and
    sometimes words of the valid line, all behind it; (b) the line given as ONE STRING (StringArgs) instead of an argv
    list (ArgvArgs), when every token survives the string tokenizer unchanged."""
    import json
    import random
    sub = random.Random("c09-first:" + json.dumps([case_no, case["tokens"]]))
    if sub.random() < 0.10:
        tail = list(case["switches"])
        if sub.random() < 0.5:
            tail += [sub.choice(SWITCHES)]
        if sub.random() < 0.4:
            tail += base[:sub.randint(1, 2)]
        sub.shuffle(tail)
        case = dict(case, tokens=["--"] + tail, path=[], after=True, first=True)
        case.pop("surplus", None)
    if all(SIMPLE.match(t) for t in case["tokens"]) and sub.random() < (0.5 if case.get("first") else 0.25):
        case["raw"] = "string"
    return case


def _raw(case, tokens=None):
    """the RawArgs object of the line: argv list or one string"""
    tokens = list(case["tokens"] if tokens is None else tokens)
    if case.get("raw") == "string":
        from clikit.args.string_args import StringArgs
        a = StringArgs(" ".join(tokens))
        if list(a.tokens) != tokens:
            raise RuntimeError("harness: the string form of %r tokenizes as %r" % (tokens, a.tokens))
        return a
    from clikit.args.argv_args import ArgvArgs
    return ArgvArgs(["prog"] + tokens)


def exhaustive(tier):
    return False


class _Stream(object):
    pass


def _streams():
    from clikit.io.output_stream.buffered_output_stream import BufferedOutputStream

    class AnsiCapable(BufferedOutputStream):
        def supports_ansi(self):
            return True
    return BufferedOutputStream, AnsiCapable


RECORDS = []


class _Handler(object):
    def __init__(self, path, raises):
        self.path, self.raises = path, raises

    def handle(self, args, io, command):
        from clikit.api.io.flags import DEBUG, VERBOSE, VERY_VERBOSE
        from clikit.ui.components.question import Question
        rec = {"command": list(self.path), "quiet": io.is_quiet(), "verbosity": io.verbosity,
               "interactive": io.is_interactive(), "decorated": io.output.supports_ansi(),
               # the args the handler was called with, in the canonical encoding (composed model: c09.app_run)
               "args_set": sorted([[k, pc.enc(v)] for k, v in args.arguments(False).items()]),
               "opts_set": sorted([[k, pc.enc(v)] for k, v in args.options(False).items()])}
        for name, fl in (("n", None), ("v", VERBOSE), ("vv", VERY_VERBOSE), ("d", DEBUG)):
            io.write_line("<info>out-%s</info>" % name, fl)
            io.error_line("<info>err-%s</info>" % name, fl)
        q = Question("Name?", "dflt")
        rec["answer"] = q.ask(io)
        if not io.is_interactive():
            # questions WITH a validator (every choice question has one): the default itself is the answer
            from clikit.ui.components.choice_question import ChoiceQuestion
            cq = ChoiceQuestion("Colour?", ["red", "green", "blue"], "1")
            vq = Question("Port?", "8080")
            vq.set_validator(int)
            rec["answers_ni"] = [cq.ask(io), vq.ask(io)]
            # ... and a question asked through a SECTION of the I/O: the section shares the input and its setting
            rec["answers_ni"].append(Question("Section?", "sdflt").ask(io.section()))
        # components that move the cursor on a decorated output (a section that is overwritten): with the no-ANSI
        # switch they must not emit a single escape byte either
        sec = io.section()
        sec.write_line("section line")
        sec.output.overwrite("section line, rewritten")
        RECORDS.append(rec)
        if self.raises:
            raise RuntimeError("handler failed")
        return 0


def _cfg_of(io):
    from clikit.formatter.ansi_formatter import AnsiFormatter
    f = io.output.formatter
    if isinstance(f, AnsiFormatter):
        ansi = "forced" if f.force_ansi() else "auto"
    else:
        ansi = "off"
    return {"ansi": ansi, "verbosity": io.verbosity, "quiet": io.is_quiet(), "interactive": io.is_interactive()}


def _build(case, probe=None, help_log=None):
    """the REAL default application of a case.  `probe`: a dict two late listeners write into (they run after the
    default ones and touch nothing); `help_log`: the `help` command's handler is replaced by a recording SUBCLASS of
    HelpTextHandler with a recording subclass of HelpResolver (both only delegate to the real methods)."""
    from clikit.api.event import PRE_HANDLE, PRE_RESOLVE
    from clikit.config.default_application_config import DefaultApplicationConfig
    config = DefaultApplicationConfig("app", "1.2.3")
    if case.get("debug_cfg"):
        config.debug(True)
    if probe is not None:
        config.add_event_listener(PRE_RESOLVE, lambda e, n, d: probe.__setitem__("late_listener", True), -10)

        def pre_handle(event, name, dispatcher):
            a = event.args
            probe["selected"] = {"path": ac.path_of(event.command),
                                 "args_set": sorted([[k, pc.enc(v)] for k, v in a.arguments(False).items()]),
                                 "opts_set": sorted([[k, pc.enc(v)] for k, v in a.options(False).items()])}
            probe["handled"] = bool(event.is_handled())
            probe["io"] = _run_cfg(event.io)
        config.add_event_listener(PRE_HANDLE, pre_handle, -10)
    if help_log is not None:
        from clikit.handler.help import HelpTextHandler
        from clikit.resolver.help_resolver import HelpResolver

        class RecResolver(HelpResolver):
            def resolve(self, args, application):
                rc = super(RecResolver, self).resolve(args, application)
                help_log["resolved"] = ac.path_of(rc.command)
                return rc

        class RecHelp(HelpTextHandler):
            def handle(self, args, io, command):
                help_log["called"] = help_log.get("called", 0) + 1
                try:
                    r = super(RecHelp, self).handle(args, io, command)
                except Exception as e:  # noqa
                    help_log["raised"] = type(e).__name__
                    raise
                help_log["returned"] = r
                return r
        config.get_command_config("help").set_handler(RecHelp(RecResolver()))
    app = ac.build_app(case["tree"], config=config, handler_for=lambda p: _Handler(p, case["raises"]), catch=True)
    return config, app


def _run_cfg(io):
    """the I/O configuration of the io object of the run itself (plain buffered streams: `auto` selects the plain
    formatter there, so only `forced` is visible of the ANSI mode)"""
    from clikit.formatter.ansi_formatter import AnsiFormatter
    f = io.output.formatter
    return {"forced": isinstance(f, AnsiFormatter) and bool(f.force_ansi()), "verbosity": io.verbosity,
            "quiet": io.is_quiet(), "interactive": io.is_interactive()}


def _resolve_only(case):
    """`resolve_command` of a second, identical application: the command and args the line selects, or the class of
    the exception (the run itself only shows status 1 and, unless quiet, the report)"""
    from clikit.args.argv_args import ArgvArgs
    _, app = _build(case)
    try:
        rc = app.resolve_command(_raw(case))
    except Exception as e:  # noqa
        return {"err": type(e).__name__}
    a = rc.args
    return {"ok": {"path": ac.path_of(rc.command),
                   "args_set": sorted([[k, pc.enc(v)] for k, v in a.arguments(False).items()]),
                   "opts_set": sorted([[k, pc.enc(v)] for k, v in a.options(False).items()])}}


def run_impl(case):
    from clikit.args.argv_args import ArgvArgs
    from clikit.io.input_stream.string_input_stream import StringInputStream
    Buf, AnsiCapable = _streams()
    del RECORDS[:]
    probe = {"late_listener": False}
    help_log = {}
    config, app = _build(case, probe, help_log)
    tokens = case["tokens"]
    raw = _raw(case)
    # 1. the decisions of create_io, with streams that claim ANSI support (so `auto` is visible)
    cfg = _cfg_of(config.create_io(app, raw, StringInputStream(""), AnsiCapable(), AnsiCapable()))
    if cfg["ansi"] == "off" and "--no-ansi" not in raw.option_tokens:
        cfg["ansi"] = "off?"     # plain formatter although --no-ansi was not given
    # 2. the whole run on plain buffered streams (ANSI-capable ones when the no-ANSI switch is given)
    out, err = Buf(), Buf()
    if "--no-ansi" in raw.option_tokens:
        # the no-ANSI switch is about streams that COULD show escape sequences: run on such streams
        out, err = AnsiCapable(), AnsiCapable()
    try:
        status = app.run(_raw(case), StringInputStream("typed\n"), out, err)
        escaped = None
    except BaseException as e:  # noqa
        status, escaped = None, type(e).__name__
    return {"cfg": cfg, "help_switch": not probe["late_listener"], "status": status, "escaped": escaped,
            "out": out.fetch(), "err": err.fetch(), "records": list(RECORDS),
            "option_tokens": list(raw.option_tokens),
            # what the composed model (c09.app_run) is compared with
            "selected": probe.get("selected"), "handled": probe.get("handled"), "run_io": probe.get("io"),
            "help_log": help_log, "resolve": _resolve_only(case)}


def model_requests(case):
    # the composed model gets the command tree (incl. the `help` command and every flattened format) from the REAL
    # default application, as C03 / C13 do
    _, app = _build(case)
    nodes = ac.extract_app(app)
    ints, floats = pc.conv_tables(ac.all_texts(nodes, case["tokens"]))
    debug = bool(case.get("debug_cfg"))
    return [{"m": "c09.create_io", "tokens": case["tokens"], "debug": debug},
            {"m": "c09.app_run", "commands": nodes, "tokens": case["tokens"], "ints": ints, "floats": floats,
             "debug": debug, "raises": bool(case["raises"])}]


def _sel(o):
    return {"path": o["path"], "args_set": sorted(o["args_set"]), "opts_set": sorted(o["opts_set"])}


def model_obs(case, answers):
    a, r = answers[0], answers[1]
    sel = {"ok": _sel(r["selected"]["ok"])} if "ok" in r["selected"] else {"err": r["selected"]["err"]}
    io = r["io"]
    app = {"io": io, "selected": sel,
           # the command PRE_HANDLE saw in the run itself, and the io object it carried
           "selected_in_run": sel.get("ok"),
           "run_io": {"forced": io["ansi"] == "forced", "verbosity": io["verbosity"], "quiet": io["quiet"],
                      "interactive": io["interactive"]} if "ok" in sel else None,
           "what": r["what"], "status": r["status"], "escaped": r["escaped"],
           "invoked": [_sel(x) for x in r["invoked"]], "printed": True,
           # hypotheses of the end-to-end theorems about the tree, decided by the model on the real tree
           "help_named": r["help_named"], "wired": r["wired"]}
    return {"cfg": {"ansi": a["ansi"], "verbosity": a["verbosity"], "quiet": a["quiet"], "interactive": a["interactive"]},
            "help_switch": a["help"],
            "option_tokens": ["".join(map(chr, t)) for t in a["option_tokens"]],
            "app": app}


def _impl_what(obs):
    """what happened in the real run, read off the recorders (never off the text, except `printed`)"""
    hl = obs["help_log"]
    if obs["escaped"] is not None:
        return {"kind": "escaped", "exc": obs["escaped"]}
    if obs["selected"] is None:
        # PRE_HANDLE was not reached: resolve_command raised; its class is the one the separate resolution shows
        return {"kind": "error", "err": obs["resolve"].get("err", "?resolved-but-not-handled")}
    if obs["handled"]:
        return {"kind": "version"}
    if hl.get("called"):
        if "returned" in hl:
            return {"kind": "help", "target": {"cmd": hl["resolved"]} if "resolved" in hl else "app"}
        return {"kind": "error", "err": hl.get("raised")}
    if obs["records"]:
        return {"kind": "ran", "path": obs["records"][0]["command"]}
    return {"kind": "nothing"}


def _impl_app(case, obs):
    what = _impl_what(obs)
    plain_out = re.sub(r"\x1b\[[0-9;]*m", "", obs["out"])
    printed = True
    if not obs["cfg"]["quiet"]:
        if what["kind"] == "version":
            printed = "version 1.2.3" in plain_out
        elif what["kind"] == "help":
            printed = "USAGE" in plain_out
    if hl_calls(obs) > 1:
        what = {"kind": "help-handler-called-%d-times" % hl_calls(obs)}
    return {"io": obs["cfg"], "selected": obs["resolve"], "selected_in_run": obs["selected"], "run_io": obs["run_io"],
            "what": what, "status": obs["status"], "escaped": obs["escaped"] is not None,
            "invoked": [{"path": r["command"], "args_set": r["args_set"], "opts_set": r["opts_set"]}
                        for r in obs["records"]],
            "printed": printed, "help_named": True, "wired": {"-h": True, "--help": True}}


def hl_calls(obs):
    return obs["help_log"].get("called", 0)


def impl_view(case, obs):
    # option_tokens: the list every theorem's `hasTok` tests membership in is the real RawArgs.option_tokens
    return {"cfg": obs["cfg"], "help_switch": obs["help_switch"], "option_tokens": obs["option_tokens"],
            "app": _impl_app(case, obs)}


def oracle(case, obs):
    if obs["escaped"] is not None:
        return "run() raised %s" % obs["escaped"]
    toks = case["tokens"]
    before = toks[:toks.index("--")] if "--" in toks else toks
    has = lambda t: t in before  # noqa
    cfg = obs["cfg"]
    if case["after"]:
        # the same tokens after `--` have none of these effects: only what stands before the separator counts
        want_cfg = {"ansi": "off" if has("--no-ansi") else "forced" if has("--ansi") else "auto",
                    "verbosity": 4 if has("-vvv") else 2 if has("-vv") else 1 if has("-v") else 0,
                    "quiet": has("--quiet") or has("-q"), "interactive": not (has("--no-interaction") or has("-n"))}
        if cfg != want_cfg or obs["help_switch"] != (has("-h") or has("--help")):
            return "switches after `--` had an effect: %s help=%s, the switches before it select %s" % (
                cfg, obs["help_switch"], want_cfg)
        # the version listener answered (PRE_HANDLE found the event handled) although no version switch stands before
        # `--`.  (Not judged by the text: the application's help page - the default command of a line that is `--`
        # first - shows name and version too.)
        if obs["handled"] and not (has("--version") or has("-V")):
            return "`--version` after `--` printed the version"
        return None
    quiet = has("--quiet") or has("-q")
    if cfg["quiet"] != quiet:
        return "quiet=%s for tokens %r" % (cfg["quiet"], toks)
    if quiet and (obs["out"] or obs["err"]):
        return "quiet run produced output: %r %r" % (obs["out"][:80], obs["err"][:80])
    want_v = 4 if has("-vvv") else 2 if has("-vv") else 1 if has("-v") else 0
    if cfg["verbosity"] != want_v:
        return "verbosity %s, the switches select %s" % (cfg["verbosity"], want_v)
    if has("--no-ansi"):
        if any(r["decorated"] for r in obs["records"]):
            return "--no-ansi: the handler's output reports ANSI support"
        if cfg["ansi"] != "off" or "\x1b" in obs["out"] or "\x1b" in obs["err"]:
            return "--no-ansi: formatter %s, escape bytes present: %s" % (cfg["ansi"], "\x1b" in obs["out"] + obs["err"])
    elif has("--ansi"):
        if cfg["ansi"] != "forced":
            return "--ansi did not force decoration (%s)" % cfg["ansi"]
        if obs["records"] and not quiet and "\x1b[" not in obs["out"]:
            return "--ansi: the handler's styled output carries no escape sequence"
    elif cfg["ansi"] != "auto":
        return "without an ANSI switch the formatter does not follow the stream (%s)" % cfg["ansi"]
    no_int = has("--no-interaction") or has("-n")
    if cfg["interactive"] != (not no_int):
        return "interactive=%s" % cfg["interactive"]
    for r in obs["records"]:
        if (r["quiet"], r["verbosity"], r["interactive"]) != (quiet, want_v, not no_int):
            return "the handler saw quiet=%s verbosity=%s interactive=%s" % (r["quiet"], r["verbosity"], r["interactive"])
        if r["answer"] != ("dflt" if no_int else "typed"):
            return "question answered %r with interaction %s" % (r["answer"], "off" if no_int else "on")
        if "answers_ni" in r and r["answers_ni"] != ["1", "8080", "sdflt"]:
            return "no interaction: questions (with a validator; asked on a section) answered %r, their defaults are ['1', '8080', 'sdflt']" % (r["answers_ni"],)
    plain_out = re.sub(r"\x1b\[[0-9;]*m", "", obs["out"])
    helpsw = has("-h") or has("--help")
    versw = has("--version") or has("-V")
    if obs["help_switch"] != helpsw:
        return "help listener took over: %s, help switch among the option tokens: %s" % (obs["help_switch"], helpsw)
    after_path = before[:len(case["path"])] == case["path"]
    # `--verbose` / `-v` takes an optional value: placed right before a positional it takes that token as its value
    # and the rest is no longer the valid line the statement starts from (its parse may fail) - no demand on the page
    swallowed = any(t in ("-v", "--verbose") and i + 1 < len(before) and not before[i + 1].startswith("-")
                    for i, t in enumerate(before))
    if swallowed:
        return None
    if helpsw and after_path:
        if obs["status"] != 0 or obs["records"]:
            return "help switch: status %s, handler invoked %d time(s)" % (obs["status"], len(obs["records"]))
        # help and version together: either page is acceptable (the statement defines each switch on its own)
        if not quiet and not versw and ("USAGE" not in plain_out or case["path"][-1] not in plain_out):
            return "help switch: the page of `%s` was not printed" % " ".join(case["path"])
        if not quiet and versw and "USAGE" not in plain_out and "version 1.2.3" not in plain_out:
            return "help and version switches: neither page was printed"
    elif versw and after_path and not helpsw:
        # the version option is recognised when the line parses
        if obs["status"] == 0 and not obs["records"]:
            if not quiet and "version 1.2.3" not in plain_out:
                return "version switch: name and version not printed"
        elif obs["records"]:
            return "version switch: the command's handler was invoked"
    return None


def nontrivial_key(case, obs):
    import json
    if not case["after"]:
        return json.dumps([case["tree"], case["tokens"]], sort_keys=True)
    return None


def bucket(case, obs):
    where = "after" if case["after"] else "before"
    if case.get("first"):
        where = "after `--` as first token"
    if case.get("raw") == "string":
        where += " (StringArgs)"
    if case.get("surplus"):
        where += "+lenient-surplus"
    return "%s|%s|status=%s|handler=%d" % (where, "+".join(sorted(set(case["switches"]))),
                                           obs["status"], len(obs["records"]))


def shrink(case):
    t = case["tokens"]
    for i in range(len(t)):
        if t[i] not in SWITCHES:
            continue            # the line stays the valid line it was: only switches are dropped
        c = dict(case)
        c["tokens"] = t[:i] + t[i + 1:]
        yield c
