"""
C09 - global switches act the same wherever they appear and whatever command runs.

Cases: generated command trees on the DEFAULT application configuration x valid command lines x
subsets/orders of the seven global switches (long and short spellings) inserted at positions among
the tokens before `--` (or all after `--`) x handler behaviours (writes at every verbosity to both
streams, asks a question, raises).  The I/O decisions of `create_io` and the help switch are compared
with the Lean model (translated from the source on every run); the oracle states the effects.
"""
import re
from harness import app_common as ac
from harness import parser_common as pc

ID = "C09"
DESIGN_REF = "6/C09"
LEAN_MODULES = ["Clikit.Props.C09"]
REQUIRED_THEOREMS = ["Clikit.Props.C09." + n for n in (
    "io_perm_invariant", "io_after_dashes", "help_after_dashes", "quiet_iff", "no_interaction_iff", "verbosity_levels",
    "ansi_precedence", "quiet_silences_run", "help_switch_iff", "version_switch", "version_absent",
    "io_depends_on_membership", "verbosity_monotone_output", "io_only_option_tokens", "io_tail_irrelevant")]
TECHNIQUE = ("Lean 4 theorems about the switch decisions translated from DefaultApplicationConfig.create_io / "
             "resolve_help_command / print_version on every run (py-AST -> Lean), composed with the C08/C10/C04 results + "
             "differential runs of the real default application with switches inserted at every admissible position")
LEVEL_TEXT = ("The decisions of create_io (ANSI mode, verbosity, quiet, interaction), of the help listener and of the version "
              "listener are regenerated from the source into Lean on every run; proved for ALL token lists: the I/O "
              "configuration depends only on which tokens occur before `--` (permutation invariance), tokens after `--` "
              "have no effect (io_after_dashes for a prefix without `--`; io_only_option_tokens / io_tail_irrelevant without "
              "any hypothesis, for every token list), quiet/no-interaction/help iff their tokens are among the option tokens, the verbosity and "
              "ANSI precedence rules, quiet drops every write incl. the error report (via C10), the version listener ends "
              "the run with status 0 without invoking the handler (via C04). That the running application really behaves "
              "as these decisions say (streams, handler-observed state, help/version pages, status) is checked by "
              "differential runs on generated trees with the switches inserted at admissible positions, and by the oracle.")
LEVEL_NOTE = ("Trusted: Lean kernel + standard axioms; tools/genparts/c09.py (AST shape matching of create_io and the two "
              "listeners); harness. Not proved: the end-to-end effect on the streams (explored), TTY capability detection "
              "(`auto` mode is exercised with fake streams that claim ANSI support).")
RULE = ("generated trees on DefaultApplicationConfig x 1 valid line x switch multisets (1-3 switches of the 11 spellings) at "
        "random admissible positions, or all after `--`; handler writes at 4 verbosities to both streams, asks a question, "
        "optionally raises; non-trivial = at least one switch before `--`; distinct = (tree, tokens)")
TRUSTED_BASE = [
    "Lean 4.33 kernel; axioms within propext, Classical.choice, Quot.sound (audited per theorem on every run)",
    "tools/genparts/c09.py: translation of the decision structure of create_io / resolve_help_command / print_version",
    "theorems of C08 (option tokens), C10 (gate) and C04 (run) that the C09 theorems compose",
    "harness/props/c09.py, harness/app_common.py: trees, insertion positions, stream fakes, oracle",
]
ASSUMPTIONS = [
    "switches are inserted at item boundaries (never between an option and its separate value); `-v` is an optional-value option, so a following positional is consumed - the I/O effect is the same, the command's arguments are not",
    "real TTY capability detection is outside; `auto` is exercised with streams that report ANSI support",
    "the theorems have no hypothesis about real objects: the only inputs of the model are the tokens; that the list "
    "`has_option_token` tests (RawArgs.option_tokens) is the model's optionTokens is compared on every case; the version "
    "theorems take `the parsed args have the version option set` as the parameter of versionListener (its link to the "
    "tokens --version / -V is stated by the oracle, not proved: it goes through the args parser, C01)",
]
BATCH = 600

SWITCHES = ["--quiet", "-q", "-v", "-vv", "-vvv", "--ansi", "--no-ansi", "--no-interaction", "-n", "--help", "-h",
            "--version", "-V"]
OPTS = [[("force", "f"), ("wide", "w")], [("bar", "b"), ("count", "c")], [("extra", "x"), ("opt", "o")]]


def _valid_line(rng, tree):
    cmds = [c for c in ac.enabled(tree["commands"]) if not c["anonymous"]]
    if not cmds:
        return None, None
    node = rng.choice(cmds)
    path = [node["name"]]
    while True:
        subs = [c for c in ac.enabled(node["subs"]) if not c["anonymous"]]
        if not subs or rng.random() < 0.3:
            break
        node = rng.choice(subs)
        path.append(node["name"])
    target = node
    dflt = [c for c in ac.enabled(node["subs"]) if c["default"]]
    if dflt:
        target = dflt[0]
    vals = []
    args = target["args"]
    n_req = len([a for a in args if a["mode"] in ("required", "multi_required")])
    for a in args[:rng.randint(n_req, len(args))]:
        v = pc.value_for(rng, a["type"], a["nullable"])
        vals.append(v if not v.startswith("-") and v != "" else "x")
    return path, vals


def generate(tier, rng):
    n = 4000 if tier == "quick" else 40000
    k = 0
    while k < n:
        tree = ac.gen_tree(rng, opts_by_depth=OPTS)
        tree["global_flag"] = False
        path, vals = _valid_line(rng, tree)
        if path is None:
            continue
        k += 1
        base = path + vals
        sw = [rng.choice(SWITCHES) for _ in range(rng.randint(1, 3))]
        after = rng.random() < 0.2
        if after:
            # sometimes a switch stands right before the separator as well (`-v --`: the separator is not a value)
            pre = [rng.choice(SWITCHES)] if rng.random() < 0.4 else []
            tokens = base + pre + ["--"] + sw
        else:
            tokens = list(base)
            for s in sw:
                # after the command path, at an item boundary
                pos = rng.randint(len(path), len(tokens)) if rng.random() < 0.85 else rng.randint(0, len(tokens))
                tokens.insert(pos, s)
        yield {"tree": tree, "path": path, "tokens": tokens, "switches": sw, "after": after,
               "raises": rng.random() < 0.2, "debug_cfg": False}


def exhaustive(tier):
    return False


class _Stream(object):
    pass


def _streams():
    from clikit.io.output_stream.buffered_output_stream import BufferedOutputStream

    class AnsiCapable(BufferedOutputStream):
        def supports_ansi(self):
            return True
    return BufferedOutputStream, AnsiCapable


RECORDS = []


class _Handler(object):
    def __init__(self, path, raises):
        self.path, self.raises = path, raises

    def handle(self, args, io, command):
        from clikit.api.io.flags import DEBUG, VERBOSE, VERY_VERBOSE
        from clikit.ui.components.question import Question
        rec = {"command": list(self.path), "quiet": io.is_quiet(), "verbosity": io.verbosity,
               "interactive": io.is_interactive(), "decorated": io.output.supports_ansi()}
        for name, fl in (("n", None), ("v", VERBOSE), ("vv", VERY_VERBOSE), ("d", DEBUG)):
            io.write_line("<info>out-%s</info>" % name, fl)
            io.error_line("<info>err-%s</info>" % name, fl)
        q = Question("Name?", "dflt")
        rec["answer"] = q.ask(io)
        RECORDS.append(rec)
        if self.raises:
            raise RuntimeError("handler failed")
        return 0


def _cfg_of(io):
    from clikit.formatter.ansi_formatter import AnsiFormatter
    f = io.output.formatter
    if isinstance(f, AnsiFormatter):
        ansi = "forced" if f.force_ansi() else "auto"
    else:
        ansi = "off"
    return {"ansi": ansi, "verbosity": io.verbosity, "quiet": io.is_quiet(), "interactive": io.is_interactive()}


def run_impl(case):
    from clikit.api.event import PRE_RESOLVE
    from clikit.args.argv_args import ArgvArgs
    from clikit.config.default_application_config import DefaultApplicationConfig
    from clikit.io.input_stream.string_input_stream import StringInputStream
    Buf, AnsiCapable = _streams()
    del RECORDS[:]
    probe = {"late_listener": False}
    config = DefaultApplicationConfig("app", "1.2.3")
    config.add_event_listener(PRE_RESOLVE, lambda e, n, d: probe.__setitem__("late_listener", True), -10)
    app = ac.build_app(case["tree"], config=config, handler_for=lambda p: _Handler(p, case["raises"]), catch=True)
    tokens = case["tokens"]
    raw = ArgvArgs(["prog"] + tokens)
    # 1. the decisions of create_io, with streams that claim ANSI support (so `auto` is visible)
    cfg = _cfg_of(config.create_io(app, raw, StringInputStream(""), AnsiCapable(), AnsiCapable()))
    if cfg["ansi"] == "off" and "--no-ansi" not in raw.option_tokens:
        cfg["ansi"] = "off?"     # plain formatter although --no-ansi was not given
    # 2. the whole run on plain buffered streams
    out, err = Buf(), Buf()
    try:
        status = app.run(ArgvArgs(["prog"] + tokens), StringInputStream("typed\n"), out, err)
        escaped = None
    except BaseException as e:  # noqa
        status, escaped = None, type(e).__name__
    return {"cfg": cfg, "help_switch": not probe["late_listener"], "status": status, "escaped": escaped,
            "out": out.fetch(), "err": err.fetch(), "records": list(RECORDS),
            "option_tokens": list(raw.option_tokens)}


def model_requests(case):
    return [{"m": "c09.create_io", "tokens": case["tokens"], "debug": False}]


def model_obs(case, answers):
    a = answers[0]
    return {"cfg": {"ansi": a["ansi"], "verbosity": a["verbosity"], "quiet": a["quiet"], "interactive": a["interactive"]},
            "help_switch": a["help"],
            "option_tokens": ["".join(map(chr, t)) for t in a["option_tokens"]]}


def impl_view(case, obs):
    # option_tokens: the list every theorem's `hasTok` tests membership in is the real RawArgs.option_tokens
    return {"cfg": obs["cfg"], "help_switch": obs["help_switch"], "option_tokens": obs["option_tokens"]}


def oracle(case, obs):
    if obs["escaped"] is not None:
        return "run() raised %s" % obs["escaped"]
    toks = case["tokens"]
    before = toks[:toks.index("--")] if "--" in toks else toks
    has = lambda t: t in before  # noqa
    cfg = obs["cfg"]
    if case["after"]:
        # the same tokens after `--` have none of these effects: only what stands before the separator counts
        want_cfg = {"ansi": "off" if has("--no-ansi") else "forced" if has("--ansi") else "auto",
                    "verbosity": 4 if has("-vvv") else 2 if has("-vv") else 1 if has("-v") else 0,
                    "quiet": has("--quiet") or has("-q"), "interactive": not (has("--no-interaction") or has("-n"))}
        if cfg != want_cfg or obs["help_switch"] != (has("-h") or has("--help")):
            return "switches after `--` had an effect: %s help=%s, the switches before it select %s" % (
                cfg, obs["help_switch"], want_cfg)
        if "version 1.2.3" in re.sub(r"\x1b\[[0-9;]*m", "", obs["out"]) and not (has("--version") or has("-V")):
            return "`--version` after `--` printed the version"
        return None
    quiet = has("--quiet") or has("-q")
    if cfg["quiet"] != quiet:
        return "quiet=%s for tokens %r" % (cfg["quiet"], toks)
    if quiet and (obs["out"] or obs["err"]):
        return "quiet run produced output: %r %r" % (obs["out"][:80], obs["err"][:80])
    want_v = 4 if has("-vvv") else 2 if has("-vv") else 1 if has("-v") else 0
    if cfg["verbosity"] != want_v:
        return "verbosity %s, the switches select %s" % (cfg["verbosity"], want_v)
    if has("--no-ansi"):
        if cfg["ansi"] != "off" or "\x1b" in obs["out"] or "\x1b" in obs["err"]:
            return "--no-ansi: formatter %s, escape bytes present: %s" % (cfg["ansi"], "\x1b" in obs["out"] + obs["err"])
    elif has("--ansi"):
        if cfg["ansi"] != "forced":
            return "--ansi did not force decoration (%s)" % cfg["ansi"]
        if obs["records"] and not quiet and "\x1b[" not in obs["out"]:
            return "--ansi: the handler's styled output carries no escape sequence"
    elif cfg["ansi"] != "auto":
        return "without an ANSI switch the formatter does not follow the stream (%s)" % cfg["ansi"]
    no_int = has("--no-interaction") or has("-n")
    if cfg["interactive"] != (not no_int):
        return "interactive=%s" % cfg["interactive"]
    for r in obs["records"]:
        if (r["quiet"], r["verbosity"], r["interactive"]) != (quiet, want_v, not no_int):
            return "the handler saw quiet=%s verbosity=%s interactive=%s" % (r["quiet"], r["verbosity"], r["interactive"])
        if r["answer"] != ("dflt" if no_int else "typed"):
            return "question answered %r with interaction %s" % (r["answer"], "off" if no_int else "on")
    plain_out = re.sub(r"\x1b\[[0-9;]*m", "", obs["out"])
    helpsw = has("-h") or has("--help")
    versw = has("--version") or has("-V")
    if obs["help_switch"] != helpsw:
        return "help listener took over: %s, help switch among the option tokens: %s" % (obs["help_switch"], helpsw)
    after_path = before[:len(case["path"])] == case["path"]
    # `--verbose` / `-v` takes an optional value: placed right before a positional it takes that token as its value
    # and the rest is no longer the valid line the statement starts from (its parse may fail) - no demand on the page
    swallowed = any(t in ("-v", "--verbose") and i + 1 < len(before) and not before[i + 1].startswith("-")
                    for i, t in enumerate(before))
    if swallowed:
        return None
    if helpsw and after_path:
        if obs["status"] != 0 or obs["records"]:
            return "help switch: status %s, handler invoked %d time(s)" % (obs["status"], len(obs["records"]))
        # help and version together: either page is acceptable (the statement defines each switch on its own)
        if not quiet and not versw and ("USAGE" not in plain_out or case["path"][-1] not in plain_out):
            return "help switch: the page of `%s` was not printed" % " ".join(case["path"])
        if not quiet and versw and "USAGE" not in plain_out and "version 1.2.3" not in plain_out:
            return "help and version switches: neither page was printed"
    elif versw and after_path and not helpsw:
        # the version option is recognised when the line parses
        if obs["status"] == 0 and not obs["records"]:
            if not quiet and "version 1.2.3" not in plain_out:
                return "version switch: name and version not printed"
        elif obs["records"]:
            return "version switch: the command's handler was invoked"
    return None


def nontrivial_key(case, obs):
    import json
    if not case["after"]:
        return json.dumps([case["tree"], case["tokens"]], sort_keys=True)
    return None


def bucket(case, obs):
    return "%s|%s|status=%s|handler=%d" % ("after" if case["after"] else "before", "+".join(sorted(set(case["switches"]))),
                                           obs["status"], len(obs["records"]))


def shrink(case):
    t = case["tokens"]
    for i in range(len(t)):
        if t[i] not in SWITCHES:
            continue            # the line stays the valid line it was: only switches are dropped
        c = dict(case)
        c["tokens"] = t[:i] + t[i + 1:]
        yield c
