"""
C18 - questions return only valid answers, count attempts exactly and terminate.

Correspondence: the real `ChoiceQuestion` / `ConfirmationQuestion` / `Question` are driven through a
`BufferedIO` whose input stream is a `StringInputStream` subclass that counts and *budgets* the
reads, with `stty` made unavailable, so that `_has_stty_available()` is false and `_do_ask` takes the
`_read_from_input` branch: cases marked `"probe": true` (half of the random stream, the limit-2 part of
the fixed scope, the interchange pairs) look `stty` up with the real `subprocess` module on a PATH that
does not contain it; the exhaustive bulk replaces the `subprocess` name inside
clikit.ui.components.question by an object that fails the same way (FileNotFoundError) without paying
a fork per prompt.  Compared with the Lean model `Clikit.Question`
(driver entries `c18.*`): outcome (value / exception class / pending), `read_line` calls, error
lines printed, prompts printed.

Sessions (`"kind": "session"`): SEVERAL questions (choice / confirmation) asked one after the other on ONE
`BufferedIO`, whose input script is typed incrementally through the public API - `append_input` /
`set_input` / `clear_input` of the I/O (or `append` / `set` / `clear` of its `StringInputStream`) between the
questions, or "lazily" during a question (the stream appends the next chunk when a read finds it empty, as a
user typing on).  Compared with the Lean model `Question.session` (entry `c18.session`): per question the
outcome, reads, errors and prompts; the oracle demands of every question what the statement says, on the lines
that are unread when it is asked.

SAFETY: before the repair D22 the retry loop swallowed every `Exception` (the "Aborted" at end of
input, even a TimeoutError raised by a signal handler) and span for ever.  Every dialogue here is
bounded three times by `BaseException` subclasses the loop cannot swallow: a read budget in the
input stream, a write budget in the error stream, and an interval timer.  An overrun is the
observable `{"nonterminating": …}`, which the oracle reports as a violation of "gives up at end
of input instead of asking forever".
"""
import itertools
import os
import re
import signal
import threading

ID = "C18"
DESIGN_REF = "6/C18"
TECHNIQUE = ("Lean 4 model of SelectChoiceValidator.validate, Question._validate_attempts/_do_ask/ask and "
             "ConfirmationQuestion's normalizer (structural recursion on the typed script = termination); "
             "theorems for every int() function, every script and every attempt limit; exhaustive small-scope "
             "differential execution of the real question classes over budgeted streams + a direct oracle")
LEVEL_TEXT = "proof (model) + exhaustive small-scope correspondence"
LEVEL_NOTE = ("theorems are about the hand-written model Clikit.Question; its fidelity to the Python code is what the "
              "correspondence samples (all scripts up to 3/4 lines over the adversarial alphabet). The stty/autocomplete "
              "path and hidden questions are not modelled. Hypotheses: everything the interchangeability theorems take about "
              "the index text str(i) is proved for the model of int() (pyInt_toDigits, toDigits_typable); the remaining side "
              "condition (value occurs once, index text not a choice, value can be typed) is the executable interchangeHypB, "
              "answered by the model for every (list, index) pair and compared with the same condition evaluated by Python "
              "(interchange_dec is the theorem the oracle demands there); 'the prompt can be built' (promptOkB) is compared on "
              "every ask case with whether the real ChoiceQuestion._write_prompt raises.")
LEAN_MODULES = ["Clikit.Props.C18"]
REQUIRED_THEOREMS = ["Clikit.Props.C18." + t for t in (
    "choice_member", "validate_error_classes", "valid_entry_iff", "ask_member",
    "index_value_interchangeable", "index_value_interchangeable_ask", "index_value_interchangeable_pyInt",
    "multi_componentwise", "index_value_interchangeable_multi",
    "empty_line_is_default", "invalid_prefix", "attempts_exact_fail", "attempts_zero", "attempts_exact_value",
    "terminates_at_eof", "unlimited_all_invalid_aborts", "all_invalid_waits", "prompt_failure", "ask_outcome_cases",
    "fuel_suffices", "never_out_of_fuel", "pre_repair_loop_never_terminates",
    "noninteractive", "confirm_iff", "confirm_eof", "matchYes_iff",
    "session_consumes", "session_reads_bound", "question_ignores_later_lines", "session_append_commutes",
    "session_set_forgets",
    "hyps_decide", "index_value_interchangeable_ask_pyInt", "index_value_interchangeable_multi_pyInt",
    "index_value_interchangeable_multi_ask", "interchange_dec", "ask_outcome_cases_dec")]
RULE = ("ask: choice lists (1-5 entries: plain, numeric-looking, duplicated, spaced, case-differing) x single/multi x "
        "defaults x limits {None,0,1,2,3} x ALL scripts up to 3 lines (quick) / 4 lines (thorough, limit None|3) over a "
        "14-answer adversarial alphabet x {end of input, blocking stream} + random longer dialogues over a wider alphabet; "
        "session: two or three questions in sequence on one BufferedIO, the script extended between them (append_input / "
        "StringInputStream.append), replaced or dropped (set_input, clear_input), or typed lazily during a question - every "
        "assignment of a 4-answer alphabet to three lines x attempt limits {None,1,2}^2 x five session shapes x end of "
        "input / blocking, and a quarter of the random stream (1-4 questions incl. confirmations, 0-3 lines per chunk); "
        "interchange: every (list, index) pair; confirm: patterns x defaults x answers x eof x interactive; validate/int/"
        "spaces/ci: the validator, int(), the white-space and digit classes and (?i) letter matching directly, on all code points. A case is non-trivial when it is interactive "
        "and at least one line is read; distinct = distinct (question, consumed script prefix, outcome)")
TRUSTED_BASE = [
    "lean/Clikit/Model/Question.lean: hand-written model of choice_question.py, question.py (_validate_attempts, _do_ask, "
    "_read_from_input, ask), confirmation_question.py - fidelity sampled by the correspondence, not proved",
    "pyInt: model of CPython int(str) (checked against int() on every generated string and on all strings up to 3/4 "
    "characters over a 14-character alphabet); isPySpace/isIntSpace/isByteSpace/digitVal checked against the "
    "interpreter on all 0x110000 code points",
    "tools/genparts/c18.py: ast extraction of the regexes, the range test, the lookup order and the position of the read "
    "relative to the retry loop's try (pinned by `example`s in the model file)",
    "harness/props/c18.py: budgeted StringInputStream/BufferedOutputStream subclasses (for sessions: the stream itself "
    "decides 'end of input' - the harness does not count lines - and appends the lazily typed chunks through the public append()), counting of error lines by the "
    "SGR prefix of the <error> style, the oracle's reading of 'valid entry'",
    "CPython 3.12 re, int(), bytes.strip(), str.strip(); subprocess failing to find `stty` on an empty PATH",
]
ASSUMPTIONS = [
    "stty is unavailable (non-tty / PATH without stty): the autocompleter path of Question._do_ask is outside the model",
    "typed lines are shorter than 4096 bytes, contain no line feed, and are valid UTF-8",
    "choices and defaults are str (or None for the default)",
    "confirmation patterns are '(?i)'? + '^' + alternatives of literal ASCII characters (the characters each ASCII letter "
    "matches under (?i) are checked against `re` on all code points)",
    "'an index and the value it denotes are interchangeable' is demanded (oracle) and proved (theorems) for values that can be "
    "typed: the line read is stripped, and a multi-select answer loses every blank and is split at commas, so a choice with "
    "surrounding blanks (or, in multi-select, one that is not [a-zA-Z0-9_-]+) can only be selected by its index",
    "sessions: the input is a StringInputStream driven through its public append/set/clear (BufferedIO.append_input/"
    "set_input/clear_input); a dialogue that is left waiting for input (blocking stream) has consumed the lines it read",
    "the formatter is pastel's default style set (the <error> style has a distinctive SGR prefix); answers contain no style tags",
]
BUDGET_S = {"quick": 70, "thorough": 780}
BATCH = 20000

QMARK = "QQ?"          # the question text: a marker that occurs in no answer/choice
NO_STTY_PATH = "/nonexistent-c18-no-stty"


# --------------------------------------------------------------------------- budgets
class Budget(BaseException):
    """raised by the stream wrappers / the timer; NOT an Exception, so the retry loop cannot swallow it"""


class NeedMoreInput(BaseException):
    """the script is used up and the stream is not at end of input: a terminal would block here"""


_CL = {}


def _classes():
    if _CL:
        return _CL
    from clikit.io.input_stream import StringInputStream
    from clikit.io.output_stream import BufferedOutputStream

    class BudgetedInput(StringInputStream):
        def __init__(self, lines, eof, budget):
            super(BudgetedInput, self).__init__("".join(l + "\n" for l in lines))
            self.total = len(lines)
            self.eof = eof
            self.budget = budget
            self.reads = 0

        def read_line(self, length=None):
            if self.reads >= self.budget:
                raise Budget("read budget")
            if not self.eof and self.reads >= self.total:
                raise NeedMoreInput()
            self.reads += 1
            return super(BudgetedInput, self).read_line(length)

        def read(self, length):
            # only the stty/autocomplete path reads single characters
            raise Budget("character read: the stty path was taken")

    class BudgetedOutput(BufferedOutputStream):
        def __init__(self, budget):
            super(BudgetedOutput, self).__init__()
            self.budget = budget
            self.writes = 0

        def write(self, string):
            self.writes += 1
            if self.writes > self.budget:
                raise Budget("write budget")
            return super(BudgetedOutput, self).write(string)

    class SessionInput(StringInputStream):
        """the input of a session: the script is extended through the PUBLIC append()/set()/clear() of the stream;
        whether a read meets the end is decided by the stream itself (no line counting here).  `lazy`: chunks
        typed only when a read finds the stream empty (a user typing on during a question)."""

        def __init__(self, lines, lazy, eof, budget):
            super(SessionInput, self).__init__(_text(lines))
            self.lazy = [list(c) for c in lazy]
            self.eof = eof
            self.budget = budget
            self.reads = 0

        def read_line(self, length=None):
            if self.reads >= self.budget:
                raise Budget("read budget")
            line = super(SessionInput, self).read_line(length)
            while line == "" and self.lazy:
                self.append(_text(self.lazy.pop(0)))
                line = super(SessionInput, self).read_line(length)
            if line == "" and not self.eof:
                raise NeedMoreInput()
            self.reads += 1
            return line

        def read(self, length):
            raise Budget("character read: the stty path was taken")

    from clikit.formatter import AnsiFormatter
    fmt = AnsiFormatter(forced=True)
    _CL.update(BudgetedInput=BudgetedInput, BudgetedOutput=BudgetedOutput, SessionInput=SessionInput, fmt=fmt,
               err_open=fmt.format("<error>x</error>").split("x")[0])
    if not _CL["err_open"].startswith("\x1b["):
        raise RuntimeError("the <error> style has no SGR prefix")
    return _CL


def _text(lines):
    return "".join(l + "\n" for l in lines)


def _alarm(signum, frame):
    raise Budget("timer")


class _NoSttySubprocess(object):
    """stands in for the `subprocess` module inside clikit.ui.components.question: behaves like the real one
    on a PATH without `stty` (FileNotFoundError), without paying a fork per prompt.  Cases with
    `"probe": true` go through the real `subprocess` with PATH pointing to a directory that does not exist."""

    @staticmethod
    def call(args, *a, **k):
        raise FileNotFoundError(2, "No such file or directory", args[0])

    check_output = call


class _Bounded(object):
    """`stty` unavailable + an interval timer around one dialogue"""

    def __init__(self, probe):
        self.probe = probe

    def __enter__(self):
        import clikit.ui.components.question as qm
        self.qm = qm
        self.real = qm.subprocess
        if not self.probe:
            qm.subprocess = _NoSttySubprocess
        self.path = os.environ.get("PATH")
        os.environ["PATH"] = NO_STTY_PATH
        self.timer = threading.current_thread() is threading.main_thread()
        if self.timer:
            self.old = signal.signal(signal.SIGALRM, _alarm)
            signal.setitimer(signal.ITIMER_REAL, 20.0)
        return self

    def __exit__(self, *a):
        if self.timer:
            signal.setitimer(signal.ITIMER_REAL, 0)
            signal.signal(signal.SIGALRM, self.old)
        if self.path is None:
            del os.environ["PATH"]
        else:
            os.environ["PATH"] = self.path
        self.qm.subprocess = self.real
        return False


def _dialogue(make_question, script, eof, interactive, nchoices=1, probe=False):
    """run one question against a budgeted BufferedIO; never hangs, never raises"""
    cl = _classes()
    from clikit.api.io import IO, Input, Output
    fmt = cl["fmt"]
    budget = len(script) + 2
    inp = cl["BudgetedInput"](script, eof, budget)
    out = cl["BudgetedOutput"](50)
    err = cl["BudgetedOutput"]((budget + 2) * (nchoices + 8))
    io = IO(Input(inp), Output(out, fmt), Output(err, fmt))
    io.set_interactive(interactive)
    with _Bounded(probe):
        try:
            q = make_question()
            # half of the non-interactive dialogues ask through a SECTION of the I/O (it shares the input and with it
            # the interaction setting)
            target = io.section() if (not interactive and len(script) % 2 == 0) else io
            result = {"value": q.ask(target)}
        except NeedMoreInput:
            result = {"pending": True}
        except Budget as e:
            result = {"nonterminating": "%s exceeded (%d reads allowed for %d lines)" % (e, budget, len(script))}
        except BaseException as e:  # noqa: B902 - the class is the observable
            result = {"err": type(e).__name__}
    stderr = err.fetch()
    return {"result": result, "reads": inp.reads, "errors": stderr.count(cl["err_open"]),
            "prompts": stderr.count(QMARK), "stdout": len(out.fetch()), "stderr": len(stderr)}


def _session_question(q):
    if q["type"] == "confirm":
        return _confirm_question(q)
    return _choice_question(q)


def _session(case):
    """several questions in sequence on ONE BufferedIO; the script is extended / replaced / dropped between the
    questions through the public API, or typed lazily during a question; never hangs, never raises"""
    cl = _classes()
    from clikit.io.buffered_io import BufferedIO
    fmt = cl["fmt"]
    asks = [st[1] for st in case["steps"] if st[0] == "ask"]
    nlines = len(case["initial"]) + sum(len(st[1]) for st in case["steps"] if st[0] in ("append", "set")) + \
        sum(len(c) for c in case.get("lazy", []))
    budget = nlines + len(asks) + 2
    io = BufferedIO("", fmt)
    inp = cl["SessionInput"](case["initial"], case.get("lazy", []), case["eof"], budget)
    out = cl["BudgetedOutput"](50)
    err = cl["BudgetedOutput"](50 + (budget + 2 * len(asks) + 2) * (max([len(q.get("choices", [])) for q in asks] + [1]) + 8))
    io.input.set_stream(inp)
    io.output.set_stream(out)
    io.error_output.set_stream(err)
    io.set_interactive(case["interactive"])
    via_io = case.get("via", "io") == "io"
    res = []
    with _Bounded(bool(case.get("probe"))):
        for st in case["steps"]:
            try:
                if st[0] == "append":
                    (io.append_input if via_io else io.input.stream.append)(_text(st[1]))
                elif st[0] == "set":
                    (io.set_input if via_io else io.input.stream.set)(_text(st[1]))
                elif st[0] == "clear":
                    (io.clear_input if via_io else io.input.stream.clear)()
                elif st[0] == "ask":
                    before = inp.reads
                    out.clear()
                    err.clear()
                    try:
                        q = _session_question(st[1])()
                        result = {"value": _jsonable(q.ask(io.section() if st[1].get("section") else io))}
                    except NeedMoreInput:
                        result = {"pending": True}
                    except Budget as e:
                        result = {"nonterminating": "%s exceeded (%d reads allowed for %d lines, %d questions)" % (
                            e, budget, nlines, len(asks))}
                    except BaseException as e:  # noqa: B902 - the class is the observable
                        result = {"err": type(e).__name__}
                    stderr = err.fetch()
                    res.append({"result": result, "reads": inp.reads - before, "errors": stderr.count(cl["err_open"]),
                                "prompts": stderr.count(QMARK), "stdout": len(out.fetch()), "stderr": len(stderr)})
                else:
                    raise ValueError("unknown session step %r" % (st,))
            except ValueError:
                raise
            except Budget as e:
                res.append({"result": {"nonterminating": str(e)}, "reads": 0, "errors": 0, "prompts": 0, "stdout": 0, "stderr": 0})
                break
            except Exception as e:  # noqa: BLE001 - a failing input operation is an observation
                res.append({"step_failed": [st[0], type(e).__name__]})
    return {"asks": res}


def _jsonable(v):
    if v is None or isinstance(v, (bool, int, str)):
        return v
    if isinstance(v, (list, tuple)):
        return [_jsonable(x) for x in v]
    return {"repr": repr(v)}


def _prompt_ok(make_question):
    """can the REAL question build its prompt?  (the hypothesis `promptCheck = ok` of the attempt theorems, decided by
    the model as promptOkB and compared)"""
    from clikit.io.buffered_io import BufferedIO
    try:
        make_question()._write_prompt(BufferedIO())
        return True
    except Exception:
        return False


def _interchange_applies(case):
    """the side condition of 'an index and the value it denotes are interchangeable' (Props.C18.interchange_dec,
    decided by the model as interchangeHypB), evaluated with Python's own str / bytes.strip / re"""
    c, i = case["choices"], case["i"]
    if c.count(c[i]) != 1 or str(i) in c:
        return False   # the value is ambiguous, or the index text is itself a choice
    if case["multi"]:
        # such a value cannot be typed as one item of a multi-select answer
        return re.match(r"[a-zA-Z0-9_-]+\Z", c[i]) is not None
    # the line read is stripped: a value with surrounding blanks cannot be typed at all
    return bool(c[i]) and c[i].encode("utf-8").strip() == c[i].encode("utf-8")


def _choice_question(case):
    from clikit.ui.components.choice_question import ChoiceQuestion

    def make():
        q = ChoiceQuestion(QMARK, list(case["choices"]), case["default"])
        q.set_multi_select(case["multi"])
        q.set_max_attempts(case["limit"])
        return q
    return make


def confirm_regex(case):
    """None = the library's default pattern"""
    if case["ci"] and case["prefixes"] == ["y"]:
        return None
    return ("(?i)" if case["ci"] else "") + "^(?:" + "|".join(re.escape(p) for p in case["prefixes"]) + ")"


def _confirm_question(case):
    from clikit.ui.components.confirmation_question import ConfirmationQuestion

    def make():
        rx = confirm_regex(case)
        if rx is None:
            return ConfirmationQuestion(QMARK, case["default"])
        return ConfirmationQuestion(QMARK, case["default"], rx)
    return make


def _plain_question(case):
    from clikit.ui.components.question import Question
    return lambda: Question(QMARK, case["default"])


def _py_int(s):
    try:
        return int(s)
    except ValueError:
        return None


def run_impl(case):
    k = case["kind"]
    if k == "ask":
        obs = _dialogue(_choice_question(case), case["script"], case["eof"], case["interactive"], len(case["choices"]),
                        probe=bool(case.get("probe")))
        if "value" in obs["result"]:
            obs["result"]["value"] = _jsonable(obs["result"]["value"])
        obs["prompt_ok"] = _prompt_ok(_choice_question(case))
        return obs
    if k == "session":
        return _session(case)
    if k == "interchange":
        c = case["choices"]
        res = []
        for text in (str(case["i"]), c[case["i"]]):
            sub = {"choices": c, "multi": case["multi"], "default": None, "limit": 1}
            o = _dialogue(_choice_question(sub), [text], True, True, len(c), probe=True)
            if "value" in o["result"]:
                o["result"]["value"] = _jsonable(o["result"]["value"])
            o["prompt_ok"] = _prompt_ok(_choice_question(sub))
            res.append(o)
        return {"by_index": res[0], "by_value": res[1], "hyp": {"hyp": _interchange_applies(case), "text": str(case["i"])}}
    if k == "confirm":
        obs = _dialogue(_confirm_question(case), case["script"], case["eof"], case["interactive"])
        if "value" in obs["result"]:
            obs["result"]["value"] = _jsonable(obs["result"]["value"])
        return obs
    if k == "plain":
        obs = _dialogue(_plain_question(case), case["script"], case["eof"], case["interactive"])
        if "value" in obs["result"]:
            obs["result"]["value"] = _jsonable(obs["result"]["value"])
        return obs
    if k == "validate":
        from clikit.ui.components.choice_question import ChoiceQuestion
        q = ChoiceQuestion(QMARK, list(case["choices"]))
        q.set_multi_select(case["multi"])
        try:
            return {"ok": _jsonable(q._validator(case["answer"]))}
        except Exception as e:
            return {"err": type(e).__name__}
    if k == "int":
        return {"int": _py_int(case["s"])}
    if k == "spaces":
        py, it, by, dg = [], [], [], []
        for cp in range(case["lo"], case["hi"]):
            if 0xD800 <= cp <= 0xDFFF:
                continue
            ch = chr(cp)
            if ch.isspace():
                py.append(cp)
            if _py_int(ch + "7" + ch) == 7:
                it.append(cp)
            if ch.encode("utf-8").strip() == b"":
                by.append(cp)
            if _py_int(ch) is not None:
                dg.append([cp, _py_int(ch)])
        return {"py": py, "int": it, "bytes": by, "digits": dg}
    if k == "ci":
        rxi, rxs = re.compile("(?i)" + re.escape(case["p"])), re.compile(re.escape(case["p"]))
        rng = [cp for cp in range(case["lo"], case["hi"]) if not 0xD800 <= cp <= 0xDFFF]
        return {"ci": [cp for cp in rng if rxi.match(chr(cp))], "cs": [cp for cp in rng if rxs.match(chr(cp))]}
    raise ValueError("unknown case kind %r" % (k,))


# --------------------------------------------------------------------------- model side
def model_requests(case):
    k = case["kind"]
    if k == "ask":
        return [{"m": "c18.ask", "choices": case["choices"], "multi": case["multi"], "default": case["default"],
                 "limit": case["limit"], "script": case["script"], "eof": case["eof"],
                 "interactive": case["interactive"]}]
    if k == "session":
        if case.get("lazy") and any(st[0] != "ask" for st in case["steps"]):
            raise ValueError("session: lazily typed chunks and explicit input operations are not combined")
        steps = []
        for st in case["steps"]:
            if st[0] in ("append", "set"):
                steps.append({"op": st[0], "lines": st[1]})
            elif st[0] == "clear":
                steps.append({"op": "clear"})
            else:
                q = st[1]
                if q["type"] == "confirm":
                    steps.append({"op": "ask", "q": {"type": "confirm", "ci": q["ci"], "prefixes": q["prefixes"],
                                                     "default": q["default"]}})
                else:
                    steps.append({"op": "ask", "q": {"type": "choice", "choices": q["choices"], "multi": q["multi"],
                                                     "default": q["default"], "limit": q["limit"]}})
        # lines typed lazily (when a read finds the stream empty) are, for the questions, lines of the script
        initial = list(case["initial"]) + [l for c in case.get("lazy", []) for l in c]
        return [{"m": "c18.session", "initial": initial, "steps": steps, "eof": case["eof"],
                 "interactive": case["interactive"]}]
    if k == "interchange":
        c = case["choices"]
        return [{"m": "c18.ask", "choices": c, "multi": case["multi"], "default": None, "limit": 1,
                 "script": [t], "eof": True, "interactive": True} for t in (str(case["i"]), c[case["i"]])] + \
               [{"m": "c18.interchange_hyp", "choices": c, "multi": case["multi"], "i": case["i"]}]
    if k == "confirm":
        return [{"m": "c18.confirm", "prefixes": case["prefixes"], "ci": case["ci"], "default": case["default"],
                 "interactive": case["interactive"], "script": case["script"], "eof": case["eof"]}]
    if k == "validate":
        return [{"m": "c18.validate", "choices": case["choices"], "multi": case["multi"], "answer": case["answer"]}]
    if k == "int":
        return [{"m": "c18.int", "s": case["s"]}]
    if k == "spaces":
        return [{"m": "c18.spaces", "lo": case["lo"], "hi": case["hi"]}]
    if k == "ci":
        return [{"m": "c18.ci", "p": case["p"], "lo": case["lo"], "hi": case["hi"]}]
    return []


def _model_ask(a):
    r = a["result"]
    if "default" in r:
        r = {"value": r["default"]}
    return {"result": r, "reads": a["reads"], "errors": a["errors"], "prompts": a["prompts"],
            "prompt_ok": a["prompt_ok"]}


def model_obs(case, answers):
    k = case["kind"]
    if k == "ask":
        return _model_ask(answers[0])
    if k == "session":
        res = []
        for a in answers[0]["asks"]:
            r = a["result"]
            if "default" in r:
                r = {"value": r["default"]}
            a = dict(a)
            a["result"] = r
            res.append(a)
        return {"asks": res}
    if k == "interchange":
        return {"by_index": _model_ask(answers[0]), "by_value": _model_ask(answers[1]), "hyp": answers[2]}
    if k == "confirm":
        a = answers[0]
        return {"result": a["result"], "reads": a["reads"], "prompts": a["prompts"]}
    if k in ("validate", "int", "spaces", "ci"):
        return answers[0]
    return {}


def _view_ask(o):
    return {"result": o["result"], "reads": o["reads"], "errors": o["errors"], "prompts": o["prompts"],
            "prompt_ok": o["prompt_ok"]}


def impl_view(case, obs):
    k = case["kind"]
    if k == "ask":
        return _view_ask(obs)
    if k == "session":
        qs = [st[1] for st in case["steps"] if st[0] == "ask"]
        res = []
        for i, o in enumerate(obs["asks"]):
            if "step_failed" in o:
                res.append(o)
                continue
            keys = ("result", "reads", "prompts") if (i < len(qs) and qs[i]["type"] == "confirm") else \
                ("result", "reads", "errors", "prompts")
            res.append({k2: o[k2] for k2 in keys})
        return {"asks": res}
    if k == "interchange":
        return {"by_index": _view_ask(obs["by_index"]), "by_value": _view_ask(obs["by_value"]), "hyp": obs["hyp"]}
    if k == "confirm":
        return {"result": obs["result"], "reads": obs["reads"], "prompts": obs["prompts"]}
    if k in ("validate", "int", "spaces", "ci"):
        return obs
    return {}


# --------------------------------------------------------------------------- the property statement
def _one(choices, text):
    """what a typed entry denotes: a choice that occurs exactly once under that name, else a decimal
    index into the list; None = invalid (unknown, ambiguous, negative, out of range)"""
    n = choices.count(text)
    if n == 1:
        return text
    if n > 1:
        return None
    i = _py_int(text)
    if i is None or not (0 <= i < len(choices)):
        return None
    return choices[i]


_MULTI = re.compile(r"[a-zA-Z0-9_-]+(?:,[a-zA-Z0-9_-]+)*\n?\Z")


def entry_meaning(choices, multi, text):
    if text is None:
        return None
    if not multi:
        return _one(choices, text)
    t = text.replace(" ", "")
    if not _MULTI.match(t):
        return None
    parts = [_one(choices, p) for p in t.split(",")]
    if any(p is None for p in parts):
        return None
    return parts


def default_renders(choices, multi, default):
    """the prompt shows the default as choices[int(default)]; a default that cannot be shown makes the
    question fail before it asks - the property says nothing about such questions"""
    if default is None:
        return True
    if not isinstance(default, str):
        return False
    parts = [p.strip() for p in default.split(",")] if multi else [default]
    for p in parts:
        i = _py_int(p)
        if i is None or not (-len(choices) <= i < len(choices)):
            return False
    return True


def _typed(line, default):
    t = line.encode("utf-8").strip().decode("utf-8")
    return t if t else default


def _oracle_ask(case, obs):
    choices, multi, default, limit = case["choices"], case["multi"], case["default"], case["limit"]
    script, eof = case["script"], case["eof"]
    res, reads, errors = obs["result"], obs["reads"], obs["errors"]
    where = "choices=%r multi=%s default=%r limit=%r script=%r eof=%s" % (choices, multi, default, limit, script, eof)
    if "nonterminating" in res:
        return "the question did not terminate within %d reads (gives up at end of input): %s; %s" % (
            len(script) + 2, res["nonterminating"], where)
    if obs["stdout"]:
        return "a question wrote to the standard output: " + where
    if not case["interactive"]:
        if res != {"value": default}:
            return "non-interactive: returned %r, required the default %r; %s" % (res, default, where)
        if reads or obs["stderr"]:
            return "non-interactive: %d reads, %d characters written, required none; %s" % (reads, obs["stderr"], where)
        return None
    # only members are returned
    if "value" in res:
        v = res["value"]
        if multi:
            if not isinstance(v, list) or any(x not in choices for x in v):
                return "multi-select returned %r, not a list of members of %r; %s" % (v, choices, where)
        elif v not in choices:
            return "returned %r, not a member of %r; %s" % (v, choices, where)
    if reads > len(script) + 1:
        return "%d reads for a script of %d lines; %s" % (reads, len(script), where)
    if not default_renders(choices, multi, default):
        return None
    meanings = [entry_meaning(choices, multi, _typed(l, default)) for l in script]
    first_valid = next((j for j, m in enumerate(meanings) if m is not None), None)
    if limit is not None and (first_valid is None or first_valid >= limit) and len(script) >= limit:
        # the first `limit` entries are all invalid: fails after exactly `limit` attempts
        if "err" not in res or reads != limit or errors != max(limit - 1, 0):
            return ("%d invalid entries with a limit of %d attempts: required a failure after exactly %d reads with %d errors "
                    "printed (the last one is raised), observed %r after %d reads, %d errors printed; %s"
                    % (limit, limit, limit, max(limit - 1, 0), res, reads, errors, where))
        return None
    if first_valid is not None:
        want = meanings[first_valid]
        if res != {"value": want} or reads != first_valid + 1 or errors != first_valid:
            return ("entry %d (%r) is the first valid one: required %r after %d reads and %d errors printed, observed %r "
                    "after %d reads, %d errors printed; %s"
                    % (first_valid + 1, script[first_valid], want, first_valid + 1, first_valid, res, reads, errors, where))
        return None
    # every line is invalid and attempts remain
    if eof:
        if "err" not in res or reads != len(script) + 1 or errors != len(script):
            return ("%d invalid entries then end of input: required giving up with an error after %d reads and %d errors "
                    "printed, observed %r after %d reads, %d errors printed; %s"
                    % (len(script), len(script) + 1, len(script), res, reads, errors, where))
    else:
        if res != {"pending": True} or reads != len(script) or errors != len(script):
            return ("%d invalid entries, attempts remain: required waiting for input after %d reads and %d errors printed, "
                    "observed %r after %d reads, %d errors printed; %s"
                    % (len(script), len(script), len(script), res, reads, errors, where))
    return None


def _oracle_interchange(case, obs):
    c, i = case["choices"], case["i"]
    for o in (obs["by_index"], obs["by_value"]):
        if "nonterminating" in o["result"]:
            return "the question did not terminate: %r" % (case,)
    if not _interchange_applies(case):
        return None   # ambiguous value, index text that is itself a choice, or a value that cannot be typed
    want = [c[i]] if case["multi"] else c[i]
    a, b = obs["by_index"]["result"], obs["by_value"]["result"]
    if a != {"value": want} or b != {"value": want}:
        return ("index %d and the value %r it denotes are not interchangeable in %r (multi=%s): by index %r, by value %r"
                % (i, c[i], c, case["multi"], a, b))
    return None


def _oracle_confirm(case, obs, plain=False):
    res = obs["result"]
    if "nonterminating" in res:
        return "the question did not terminate: %r" % (case,)
    if obs["stdout"]:
        return "a question wrote to the standard output: %r" % (case,)
    if not case["interactive"]:
        if res != {"value": case["default"]} or obs["reads"] or obs["stderr"]:
            return ("non-interactive: required the default %r without reading or writing, observed %r, %d reads, %d characters "
                    "written; %r" % (case["default"], res, obs["reads"], obs["stderr"], case))
        return None
    if obs["reads"] > 1:
        return "%d reads for one question: %r" % (obs["reads"], case)
    if not case["script"]:
        want = {"err": "RuntimeError"} if case["eof"] else {"pending": True}
        if ("err" in want) != ("err" in res) or ("pending" in want) != ("pending" in res):
            return "no input: required %r, observed %r; %r" % (want, res, case)
        return None
    typed = case["script"][0].encode("utf-8").strip().decode("utf-8")
    if plain:
        want = typed if typed else case["default"]
    elif not typed:
        want = case["default"]
    else:
        rx = confirm_regex(case) or "(?i)^y"
        want = re.match(rx, typed) is not None
    if res != {"value": want} or obs["reads"] != 1:
        return "answer %r: required %r after one read, observed %r after %d reads; %r" % (
            case["script"][0], want, res, obs["reads"], case)
    return None


def _oracle_session(case, obs):
    """every question of the session must behave as the statement says on the lines that are UNREAD when it is asked:
    lines answered before are consumed (exactly one per entry), lines appended later stand behind the unread ones"""
    unread = list(case["initial"]) + [l for c in case.get("lazy", []) for l in c]
    asks = obs["asks"]
    n = 0
    for st in case["steps"]:
        if n < len(asks) and "step_failed" in asks[n]:
            return "the input operation %s failed with %s; %r" % (asks[n]["step_failed"][0], asks[n]["step_failed"][1], case)
        if st[0] == "append":
            unread = unread + list(st[1])
        elif st[0] == "set":
            unread = list(st[1])
        elif st[0] == "clear":
            unread = []
        else:
            if n >= len(asks):
                return "question %d of the session was not asked; %r" % (n + 1, case)
            o = asks[n]
            n += 1
            sub = dict(st[1])
            sub.update(script=list(unread), eof=case["eof"], interactive=case["interactive"])
            v = _oracle_confirm(sub, o) if st[1]["type"] == "confirm" else _oracle_ask(sub, o)
            if v:
                return "question %d of a session, asked when the unread lines of the input were %r: %s; session %r" % (
                    n, unread, v, {k2: case[k2] for k2 in ("initial", "steps", "lazy", "via") if k2 in case})
            unread = unread[min(o["reads"], len(unread)):]
    return None


def oracle(case, obs):
    k = case["kind"]
    if k == "session":
        return _oracle_session(case, obs)
    if k == "ask":
        return _oracle_ask(case, obs)
    if k == "interchange":
        return _oracle_interchange(case, obs)
    if k == "confirm":
        return _oracle_confirm(case, obs)
    if k == "plain":
        return _oracle_confirm(case, obs, plain=True)
    if k == "validate":
        if "ok" in obs:
            v = obs["ok"]
            if case["multi"]:
                if not isinstance(v, list) or any(x not in case["choices"] for x in v):
                    return "validator returned %r, not a list of members of %r" % (v, case["choices"])
            elif v not in case["choices"]:
                return "validator returned %r, not a member of %r" % (v, case["choices"])
            want = entry_meaning(case["choices"], case["multi"], case["answer"])
            if v != want:
                return "validator returned %r for %r, the entry denotes %r in %r" % (v, case["answer"], want, case["choices"])
        elif entry_meaning(case["choices"], case["multi"], case["answer"]) is not None:
            return "validator rejected the valid entry %r for %r (multi=%s)" % (case["answer"], case["choices"], case["multi"])
        return None
    return None


# --------------------------------------------------------------------------- generation
LISTS_QUICK = [
    ["a", "b", "c"],
    ["1", "0", "-1"],                  # numeric-looking: values that are also indices / negative
    ["a", "b", "a"],                   # duplicated
    [" a", "A", "a", "a b", "2"],      # spaced, case-differing, 5 entries
    ["zzz"],
]
LISTS_MORE = [
    ["0", "0"],
    ["a", "b", "c", "a,b", "99"],
    ["b ", "b", "B"],
    ["-1", "1.0", "A", "a"],
]
BASE_ALPHABET = ["", " ", "0", "1", "-1", "99", "a,b", "0,1", "a,zzz", "zzz", "1.0"]
WIDE_ALPHABET = ["\t", "+1", "1_0", "007", " 1 ", "a , b", "a,,b", ",a", "a,", "-0", "+0", "2", "3", "4", "5",
                 "b", "c", "A", "a b", "ab", "1,1", "0,0", "a,a", "b,a,c", "1 0", "a-b", "_", "-", "a\tb", "0x1",
                 "１", "é", "a,é", "2,zzz", "99,0", "a;b", "a.b", "  ", "\x0b", "a\x0cb", "0 ,1", "-1,0"]
DEFAULTS = [None, "0", "-1", "0,1", "99"]
DEFAULTS_MORE = ["1", "zzz", "", " 1", "0, 1", "0,99", "1\n", ",", "-3", "+1"]
LIMITS = [None, 1, 2, 3]


def alphabet(choices):
    c0, cl = choices[0], choices[-1]
    up = c0.swapcase() if c0.swapcase() != c0 else "A"
    out = []
    for a in BASE_ALPHABET + [c0, " " + cl + "  ", up]:
        if a not in out:
            out.append(a)
    return out


def _ask(choices, multi, default, limit, script, eof, interactive=True, probe=False):
    c = {"kind": "ask", "choices": list(choices), "multi": multi, "default": default, "limit": limit,
         "script": list(script), "eof": eof, "interactive": interactive}
    if probe:
        c["probe"] = True     # `stty` looked up by the real subprocess module on an empty PATH
    return c


def _scripts(alpha, maxlen, minlen=0):
    for n in range(minlen, maxlen + 1):
        for s in itertools.product(alpha, repeat=n):
            yield s


def _fixed(tier):
    thorough = tier == "thorough"
    # white-space classes and int(): the external engines of the model
    for lo in range(0, 0x110000, 0x1000):
        yield {"kind": "spaces", "lo": lo, "hi": lo + 0x1000}
    # what a literal pattern character matches with and without (?i), on every code point
    import string
    for p in (string.ascii_letters + "0_-. " if thorough else "yYjJoOnNeEsSiIkK0"):
        for lo in range(0, 0x110000, 0x44000):
            yield {"kind": "ci", "p": p, "lo": lo, "hi": lo + 0x44000}
    chars = [" ", "\t", "\x1c", "\x85", "+", "-", "_", "0", "1", "9", "a", ".", "\n", "\u0663"]
    for n in range(0, 5 if thorough else 4):
        for s in itertools.product(chars, repeat=n):
            yield {"kind": "int", "s": "".join(s)}
    lists = LISTS_QUICK + LISTS_MORE
    # index <-> value
    for c in lists:
        for multi in (False, True):
            for i in range(len(c)):
                yield {"kind": "interchange", "choices": c, "multi": multi, "i": i}
    # the validator on its own, with the wide alphabet
    for c in lists:
        for multi in (False, True):
            for a in [None] + alphabet(c) + WIDE_ALPHABET + c:
                yield {"kind": "validate", "choices": c, "multi": multi, "answer": a}
    # confirmation
    patterns = [(True, ["y"]), (False, ["y", "j"]), (True, ["yes", "o"]), (False, ["Y"]), (True, ["J", "n"]), (True, ["ok", "si"])]
    answers = ["", " ", "y", "Y", "yes", "YES", "n", "no", "j", "J", "o", "Oui", " y ", "ye", "Yes ", "xy", "\ty",
               "ÿ", "ý", "1", "true", "N", "\x0by", "y y", "ẏ", "Ｙ",
               "yeſ", "YEſ", "oK", "Sİ", "sı", "OK", "ſi", "si", "s", "K", "oK"]
    for ci, pre in patterns:
        for default in (True, False):
            for interactive in (True, False):
                for eof in (True, False):
                    yield {"kind": "confirm", "ci": ci, "prefixes": pre, "default": default, "interactive": interactive,
                           "script": [], "eof": eof}
                    for a in answers:
                        yield {"kind": "confirm", "ci": ci, "prefixes": pre, "default": default,
                               "interactive": interactive, "script": [a], "eof": eof}
                    yield {"kind": "confirm", "ci": ci, "prefixes": pre, "default": default, "interactive": interactive,
                           "script": ["n", "y"], "eof": eof}
    for default in (None, "d", ""):
        for interactive in (True, False):
            for script in ([], [""], ["x"], [" x y "], ["", "x"]):
                for eof in (True, False):
                    yield {"kind": "plain", "default": default, "interactive": interactive, "script": script, "eof": eof}
    # non-interactive choice questions
    for c in lists:
        for multi in (False, True):
            for default in DEFAULTS + DEFAULTS_MORE:
                for limit in (None, 0, 1):
                    yield _ask(c, multi, default, limit, ["a", "0"], True, interactive=False)
    # attempt limit 0 and the less usual defaults, short scripts
    for c in lists:
        alpha = alphabet(c)
        for multi in (False, True):
            for default in DEFAULTS + DEFAULTS_MORE:
                for limit in [0] + LIMITS:
                    for s in _scripts(alpha, 1):
                        for eof in (True, False):
                            yield _ask(c, multi, default, limit, s, eof, probe=(limit == 2))


def _exhaustive(tier):
    thorough = tier == "thorough"
    lists = LISTS_QUICK + (LISTS_MORE if thorough else [])
    for c in lists:
        alpha = alphabet(c)
        for multi in (False, True):
            for limit in LIMITS:
                for s in _scripts(alpha, 3, 2):
                    for eof in (True, False):
                        yield _ask(c, multi, None, limit, s, eof)
            for default in DEFAULTS[1:]:
                for limit in LIMITS:
                    for s in _scripts(alpha, 3 if (thorough and c in LISTS_QUICK) else 2, 2):
                        for eof in (True, False):
                            yield _ask(c, multi, default, limit, s, eof)
            if thorough:
                for default in DEFAULTS_MORE:
                    for limit in LIMITS:
                        for s in _scripts(alpha, 2, 2):
                            for eof in (True, False):
                                yield _ask(c, multi, default, limit, s, eof)
    if thorough:
        # four lines: only an unlimited question (or one with 3 attempts, which must stop before) reads that far
        for c in LISTS_QUICK + LISTS_MORE:
            alpha = alphabet(c)
            for multi in (False, True):
                for limit in (None, 3):
                    for s in _scripts(alpha, 4, 4):
                        for eof in (True, False):
                            yield _ask(c, multi, None, limit, s, eof)


SESSION_ALPHABET = ["", "zzz", "0", "a"]
SESSION_LIMITS = [None, 1, 2]


def _q(choices, limit, multi=False, default=None):
    return {"type": "choice", "choices": list(choices), "multi": multi, "default": default, "limit": limit}


def _session_case(initial, steps, eof, lazy=None, via="io", interactive=True, probe=False):
    c = {"kind": "session", "initial": list(initial), "steps": steps, "eof": eof, "interactive": interactive, "via": via}
    if lazy:
        c["lazy"] = [list(x) for x in lazy]
    if probe:
        c["probe"] = True
    return c


def _sessions_fixed(tier):
    """two or three questions in sequence on one I/O, three typed lines delivered in five ways"""
    n = 0
    confirm = {"type": "confirm", "ci": True, "prefixes": ["y"], "default": False}
    for c in (LISTS_QUICK[0], LISTS_QUICK[1]) + ((LISTS_QUICK[3],) if tier == "thorough" else ()):
        alpha = SESSION_ALPHABET if tier != "thorough" else SESSION_ALPHABET + ["1", " " + c[-1] + " "]
        for l1, l2 in itertools.product(SESSION_LIMITS, repeat=2):
            for x1, x2, x3 in itertools.product(alpha, repeat=3):
                for eof in (True, False):
                    q1, q2 = _q(c, l1), _q(c, l2)
                    shapes = [
                        ([x1], [["ask", q1], ["append", [x2, x3]], ["ask", q2]], None),
                        ([x1, x2], [["ask", q1], ["append", [x3]], ["ask", q2]], None),
                        ([x1], [["ask", q1], ["append", [x2]], ["ask", q2], ["append", [x3]], ["ask", confirm]], None),
                        ([x1], [["ask", q1], ["ask", q2]], [[x2], [x3]]),
                        ([x1, x2], [["ask", q1], ["set" if l2 is None else "clear"] + ([[x3]] if l2 is None else []),
                                    ["append", [x3]], ["ask", q2]], None),
                    ]
                    for initial, steps, lazy in shapes:
                        n += 1
                        yield _session_case(initial, steps, eof, lazy, via="io" if n % 2 else "stream")


def _random_session(rng):
    n = rng.choice([1, 2, 2, 3, 3])
    choices = [rng.choice(ENTRIES) for _ in range(n)]
    alpha = alphabet(choices) + choices + [str(i) for i in range(n)] + ["y", "n", "yes", "zzz", "", "0"]

    def lines(k):
        return [rng.choice(alpha).replace("\n", "") for _ in range(k)]

    def question():
        if rng.random() < 0.25:
            ci, pre = rng.choice([(True, ["y"]), (False, ["y", "j"]), (True, ["yes", "o"])])
            q = {"type": "confirm", "ci": ci, "prefixes": pre, "default": rng.random() < 0.5}
        else:
            q = _q(choices, rng.choice([None, None, 1, 1, 2, 3]), rng.random() < 0.3,
                   rng.choice([None, None, None, "0", str(rng.randrange(n))]))
        if rng.random() < 0.15:
            q["section"] = True      # asked through io.section(): the section shares the input
        return q
    nq = rng.choice([1, 2, 2, 3, 3, 4])
    lazy = None
    steps = []
    if rng.random() < 0.25:
        lazy = [lines(rng.choice([0, 1, 1, 2])) for _ in range(rng.choice([1, 2, 3]))]
        steps = [["ask", question()] for _ in range(nq)]
    else:
        for i in range(nq):
            r = rng.random()
            if r < 0.6 or (i == 0 and r < 0.8):
                steps.append(["append", lines(rng.choice([0, 1, 1, 2, 3]))])
                if rng.random() < 0.2:
                    steps.append(["append", lines(1)])
            elif r < 0.7:
                steps.append(["set", lines(rng.choice([0, 1, 2]))])
            elif r < 0.77:
                steps.append(["clear"])
            steps.append(["ask", question()])
    return _session_case(lines(rng.choice([0, 1, 1, 2, 3])), steps, rng.random() < 0.6, lazy,
                         via=rng.choice(["io", "stream"]), interactive=rng.random() < 0.95, probe=rng.random() < 0.3)


ENTRIES = ["a", "b", "c", "A", "B", " a", "a ", "a b", "0", "1", "2", "-1", "99", "1.0", "zzz", "a,b", "ab", "+1", "01", "é"]


def _random_case(rng):
    if rng.random() < 0.25:
        return _random_session(rng)
    n = rng.choice([1, 2, 2, 3, 3, 3, 4, 5])
    choices = [rng.choice(ENTRIES) for _ in range(n)]
    alpha = alphabet(choices) + WIDE_ALPHABET + choices + [str(i) for i in range(n)]
    k = rng.choice([0, 1, 2, 3, 4, 5, 6, 8])
    script = []
    for _ in range(k):
        r = rng.random()
        if r < 0.15:
            script.append(rng.choice(alpha) + "," + rng.choice(alpha))
        elif r < 0.25:
            script.append(rng.choice([" ", "\t", ""]) + rng.choice(alpha) + rng.choice([" ", "", "  "]))
        else:
            script.append(rng.choice(alpha))
    script = [s.replace("\n", "") for s in script]
    default = rng.choice(DEFAULTS + DEFAULTS + DEFAULTS_MORE + [str(rng.randrange(n)), None, None])
    limit = rng.choice([None, None, 0, 1, 2, 3, 3, 5, 7])
    return _ask(choices, rng.random() < 0.5, default, limit, script, rng.random() < 0.6, rng.random() < 0.95,
                probe=rng.random() < 0.5)


def _stream(tier, rng):
    for c in _fixed(tier):
        yield c
    for c in _exhaustive(tier):
        yield c
    for c in _sessions_fixed(tier):
        yield c
    for _ in range(300000 if tier == "thorough" else 20000):
        yield _random_case(rng)


def generate(tier, rng):
    # the code-point sweeps cost ~10-200 ms each: spread them over the stream so that no worker chunk is made of them
    heavy, n = [], 0
    for c in _stream(tier, rng):
        if c["kind"] in ("spaces", "ci"):
            heavy.append(c)
            continue
        yield c
        n += 1
        if heavy and n % 211 == 0:
            yield heavy.pop()
    for c in heavy:
        yield c


def exhaustive(tier):
    return False     # the exhaustive small scope is followed by a random stream


# --------------------------------------------------------------------------- statistics
def _kind(res):
    for k in ("value", "err", "pending", "nonterminating"):
        if k in res:
            return k if k != "err" else "err:" + res["err"]
    return "?"


def nontrivial_key(case, obs):
    k = case["kind"]
    if k == "session":
        if not case["interactive"] or not any(o.get("reads") for o in obs["asks"]):
            return None
        return ("session", repr((case["initial"], case["steps"], case.get("lazy"), case["eof"])))
    if k == "ask":
        if not case["interactive"] or obs["reads"] == 0:
            return None
        return ("ask", tuple(case["choices"]), case["multi"], case["default"], case["limit"],
                tuple(case["script"][:obs["reads"]]), _kind(obs["result"]))
    if k == "interchange":
        return ("ix", tuple(case["choices"]), case["multi"], case["i"])
    if k in ("confirm", "plain"):
        if not case["interactive"] or not case["script"]:
            return None
        return (k, str(case.get("prefixes")), case.get("ci"), str(case["default"]), case["script"][0])
    if k == "validate":
        return ("v", tuple(case["choices"]), case["multi"], case["answer"])
    if k == "int":
        return ("int", case["s"]) if obs["int"] is not None else None
    return None


def bucket(case, obs):
    k = case["kind"]
    if k == "session":
        ops = sorted(set(st[0] for st in case["steps"] if st[0] != "ask"))
        return "session:%s:questions=%d:%s" % (
            "interactive" if case["interactive"] else "non-interactive", sum(1 for st in case["steps"] if st[0] == "ask"),
            "lazy" if case.get("lazy") else ("+".join(ops) or "initial-only"))
    if k == "ask":
        if not case["interactive"]:
            return "ask:non-interactive"
        return "ask:%s:%s:reads=%d" % ("multi" if case["multi"] else "single", _kind(obs["result"]), min(obs["reads"], 6))
    if k in ("confirm", "plain"):
        return "%s:%s" % (k, _kind(obs["result"]))
    if k == "validate":
        return "validate:" + ("ok" if "ok" in obs else obs["err"])
    if k == "int":
        return "int:" + ("value" if obs["int"] is not None else "ValueError")
    return k


# --------------------------------------------------------------------------- search
def _shrink_session(case):
    steps = case["steps"]
    for i in range(len(steps)):
        c = dict(case)
        c["steps"] = steps[:i] + steps[i + 1:]
        yield c
    if case.get("lazy"):
        c = dict(case)
        c["initial"] = case["initial"] + [l for ch in case["lazy"] for l in ch]
        c.pop("lazy")
        yield c
    for i in range(len(case["initial"])):
        c = dict(case)
        c["initial"] = case["initial"][:i] + case["initial"][i + 1:]
        yield c
    for i, st in enumerate(steps):
        if st[0] in ("append", "set"):
            for j in range(len(st[1])):
                c = dict(case)
                c["steps"] = steps[:i] + [[st[0], st[1][:j] + st[1][j + 1:]]] + steps[i + 1:]
                yield c
        elif st[0] == "ask":
            q = st[1]
            for key, val in (("section", False), ("multi", False), ("default", None), ("limit", None)):
                if key in q and q[key] != val and not (q["type"] == "confirm" and key == "default"):
                    q2 = dict(q)
                    q2[key] = val
                    c = dict(case)
                    c["steps"] = steps[:i] + [["ask", q2]] + steps[i + 1:]
                    yield c
    for key, val in (("probe", False), ("eof", True), ("interactive", True)):
        if case.get(key, val) != val:
            c = dict(case)
            c[key] = val
            yield c


def _neighbours_session(case):
    steps = case["steps"]
    for via in ("io", "stream"):
        if case.get("via", "io") != via:
            c = dict(case)
            c["via"] = via
            yield c
    for a in SESSION_ALPHABET + ["1", "y"]:
        for i in range(len(case["initial"]) + 1):
            c = dict(case)
            c["initial"] = case["initial"][:i] + [a] + case["initial"][i + 1:]
            c["interactive"] = True
            yield c
        for i, st in enumerate(steps):
            if st[0] in ("append", "set"):
                for j in range(len(st[1]) + 1):
                    c = dict(case)
                    c["steps"] = steps[:i] + [[st[0], st[1][:j] + [a] + st[1][j + 1:]]] + steps[i + 1:]
                    yield c
    for i in range(len(steps) + 1):
        if not case.get("lazy"):
            c = dict(case)
            c["steps"] = steps[:i] + [["append", ["0"]]] + steps[i:]
            yield c
        c = dict(case)
        c["steps"] = steps[:i] + [["ask", _q(["a", "b", "c"], 1)]] + steps[i:]
        yield c


def shrink(case):
    k = case["kind"]
    if k == "session":
        for c in _shrink_session(case):
            yield c
        return
    if k not in ("ask", "confirm", "plain"):
        return
    script = case["script"]
    for i in range(len(script)):
        c = dict(case)
        c["script"] = script[:i] + script[i + 1:]
        yield c
    if k != "ask":
        return
    ch = case["choices"]
    if len(ch) > 1:
        for i in range(len(ch)):
            c = dict(case)
            c["choices"] = ch[:i] + ch[i + 1:]
            yield c
    for key, val in (("default", None), ("limit", None), ("multi", False), ("eof", True), ("interactive", True)):
        if case[key] != val:
            c = dict(case)
            c[key] = val
            yield c
    for i, l in enumerate(script):
        for simpler in ("zzz", "0", "a", l.strip()):
            if simpler != l:
                c = dict(case)
                c["script"] = script[:i] + [simpler] + script[i + 1:]
                yield c


def neighbours(case):
    k = case["kind"]
    if k == "session":
        for c in _neighbours_session(case):
            yield c
        return
    if k != "ask":
        if k in ("confirm", "plain"):
            for a in ("", "y", "n", "Y", "x"):
                c = dict(case)
                c["script"] = [a]
                c["interactive"] = True
                yield c
        return
    alpha = alphabet(case["choices"]) + case["choices"] + [str(i) for i in range(len(case["choices"]))]
    for lim in [None, 0, 1, 2, 3]:
        for eof in (True, False):
            c = dict(case)
            c["limit"], c["eof"], c["interactive"] = lim, eof, True
            yield c
    for i in range(len(case["script"]) + 1):
        for a in alpha:
            c = dict(case)
            c["script"] = case["script"][:i] + [a] + case["script"][i + 1:]
            c["interactive"] = True
            yield c
    for key, vals in (("multi", (False, True)), ("default", DEFAULTS)):
        for v in vals:
            if case[key] != v:
                c = dict(case)
                c[key] = v
                yield c
